import GodiProofs.Container.Instances
/-!
# Build runs every singleton constructor at most once (and exactly once when it succeeds)

`createSingletons` (collection.go / provider.go `createAllSingletonsWithContext`) walks the
topological order, skips descriptors whose identity is already in the singleton table, and calls
`createInstance` through the root scope otherwise. One constructor call stores the outputs of *all*
descriptors of the registration, so the siblings are skipped afterwards; nested resolutions never
construct a singleton (frame lemma).
-/
namespace Godi.Container

/-- number of successful invocations of constructor `c` recorded in a log -/
def ctorCount (log : List Event) (c : Nat) : Nat :=
  log.countP (fun e => match e with | .ctor _ c' _ _ _ _ => c' == c | _ => false)

theorem ctorCount_append (l1 l2 : List Event) (c : Nat) : ctorCount (l1 ++ l2) c = ctorCount l1 c + ctorCount l2 c := by
  simp [ctorCount, List.countP_append]

/-- descriptors that share a constructor are the descriptors of one registration -/
def SameCtorSibs (descs : List Desc) : Prop :=
  ∀ d ∈ descs, ∀ d' ∈ descs, d'.ctor = d.ctor → d' = d ∨ (d'.id ∈ d.sibs ∧ d.id ∈ d.sibs)

def Grows (m m' : List (Ident × Val)) : Prop := ∀ k, (lookup m k).isSome → (lookup m' k).isSome

theorem Grows.refl (m : List (Ident × Val)) : Grows m m := fun _ h => h
theorem Grows.trans {a b c : List (Ident × Val)} (h1 : Grows a b) (h2 : Grows b c) : Grows a c := fun k h => h2 k (h1 k h)

theorem grows_put (m : List (Ident × Val)) (k : Ident) (v : Val) : Grows m (cachePut m k v) := by
  intro k' h
  by_cases hk : k' = k
  · subst hk; rw [lookup_put_self]; rfl
  · rw [lookup_put_ne m k k' v hk]; exact h

/-- events of non-singleton descriptors do not count for a constructor that belongs to singletons -/
theorem ctorCount_nonSingleton (descs : List Desc) (new : List Event) (c : Nat)
    (hc : ∀ d ∈ descs, d.ctor = c → d.life = .singleton)
    (hev : ∀ e ∈ new, EventNonSingleton descs e) : ctorCount new c = 0 := by
  unfold ctorCount
  rw [List.countP_eq_zero]
  intro e he
  cases e with
  | ctor d c' inv s a o =>
    simp only [beq_iff_eq]
    intro hcc
    obtain ⟨x, hx, hns, hxc⟩ := hev _ he
    exact hns (hc x (List.mem_of_find?_eq_some hx) (hxc.trans hcc))
  | ctorFail _ _ _ _ _ => simp
  | closed _ _ _ => simp

end Godi.Container

namespace Godi.Container

/-! ### storing singleton outputs: only the table and the provider's disposal list change -/

/-- identities newly answered by `m'` all satisfy `P` -/
def OnlyNew (P : Ident → Prop) (m m' : List (Ident × Val)) : Prop :=
  ∀ k, (lookup m' k).isSome → (lookup m k).isSome ∨ P k

theorem OnlyNew.refl (P : Ident → Prop) (m : List (Ident × Val)) : OnlyNew P m m := fun _ h => Or.inl h
theorem OnlyNew.trans {P : Ident → Prop} {a b c : List (Ident × Val)} (h1 : OnlyNew P a b) (h2 : OnlyNew P b c) :
    OnlyNew P a c := fun k h => by
  rcases h2 k h with h | h
  · exact h1 k h
  · exact Or.inr h

theorem onlyNew_put (P : Ident → Prop) (m : List (Ident × Val)) (k : Ident) (v : Val) (hk : P k) :
    OnlyNew P m (cachePut m k v) := by
  intro k' h
  by_cases hkk : k' = k
  · subst hkk; exact Or.inr hk
  · rw [lookup_put_ne m k k' v hkk] at h; exact Or.inl h

structure SingStore (P : Ident → Prop) (st st' : State) : Prop where
  descs : st'.descs = st.descs
  log : st'.log = st.log
  grows : Grows st.singletons st'.singletons
  only : OnlyNew P st.singletons st'.singletons
  next : st'.next = st.next

theorem SingStore.refl (P : Ident → Prop) (st : State) : SingStore P st st := ⟨rfl, rfl, Grows.refl _, OnlyNew.refl _ _, rfl⟩
theorem SingStore.trans {P : Ident → Prop} {a b c : State} (h1 : SingStore P a b) (h2 : SingStore P b c) : SingStore P a c :=
  ⟨h2.descs.trans h1.descs, h2.log.trans h1.log, h1.grows.trans h2.grows, h1.only.trans h2.only, h2.next.trans h1.next⟩

theorem setInstance_singleton (P : Ident → Prop) (st : State) (s : Nat) (d : Desc) (k : Ident) (v : Val)
    (hl : d.life = .singleton) (hP : P k) :
    SingStore P st (setInstance st s d k v).1 ∧ (lookup (setInstance st s d k v).1.singletons k).isSome ∧
    (setInstance st s d k v).2 = .ok () := by
  unfold setInstance
  simp only [hl]
  cases v with
  | inst i =>
    simp only []
    split
    · exact ⟨⟨rfl, rfl, grows_put _ _ _, onlyNew_put P _ _ _ hP, rfl⟩, by simp [storeSingleton, lookup_put_self], rfl⟩
    · exact ⟨⟨rfl, rfl, grows_put _ _ _, onlyNew_put P _ _ _ hP, rfl⟩, by simp [storeSingleton, lookup_put_self], rfl⟩
  | _ => exact ⟨⟨rfl, rfl, grows_put _ _ _, onlyNew_put P _ _ _ hP, rfl⟩, by simp [storeSingleton, lookup_put_self], rfl⟩

theorem shareInstance_singleton (P : Ident → Prop) (st : State) (s : Nat) (d : Desc) (k : Ident) (v : Val)
    (hl : d.life = .singleton) (hP : P k) :
    SingStore P st (shareInstance st s d k v) ∧ (lookup (shareInstance st s d k v).singletons k).isSome := by
  unfold shareInstance
  simp only [hl]
  exact ⟨⟨rfl, rfl, grows_put _ _ _, onlyNew_put P _ _ _ hP, rfl⟩, by simp [storeSingleton, lookup_put_self]⟩

theorem storeOuts_singleton (P : Ident → Prop) (s : Nat) : ∀ (sibs : List Desc) (outs : List Inst) (st : State),
    (∀ d ∈ sibs, d.life = .singleton ∧ P d.ident) → sibs.length ≤ outs.length →
    SingStore P st (storeOuts st s sibs outs).1 ∧ (storeOuts st s sibs outs).2 = .ok () ∧
    ∀ d ∈ sibs, (lookup (storeOuts st s sibs outs).1.singletons d.ident).isSome := by
  intro sibs
  induction sibs with
  | nil => intro outs st _ _; unfold storeOuts; exact ⟨SingStore.refl P st, rfl, by simp⟩
  | cons d ds ih =>
    intro outs st h hlen
    cases outs with
    | nil => simp at hlen
    | cons o os =>
      unfold storeOuts
      obtain ⟨h1, h1s, h1ok⟩ := setInstance_singleton P st s d d.ident (.inst o) (h d (by simp)).1 (h d (by simp)).2
      obtain ⟨h2, h2ok, h2s⟩ := ih os (setInstance st s d d.ident (.inst o)).1
        (fun x hx => h x (List.mem_cons_of_mem _ hx)) (by simpa using hlen)
      refine ⟨h1.trans h2, ?_, ?_⟩
      · simp only [h1ok, h2ok]
      · intro x hx
        rcases List.mem_cons.1 hx with rfl | hx
        · exact h2.grows _ h1s
        · exact h2s x hx

theorem shareAll_singleton (P : Ident → Prop) (s self : Nat) (v : Val) : ∀ (sibs : List Desc) (st : State),
    (∀ d ∈ sibs, d.life = .singleton ∧ P d.ident) →
    SingStore P st (shareAll st s self sibs v) ∧
    ∀ d ∈ sibs, d.id ≠ self → (lookup (shareAll st s self sibs v).singletons d.ident).isSome := by
  intro sibs
  induction sibs with
  | nil => intro st _; exact ⟨SingStore.refl P st, by simp⟩
  | cons d ds ih =>
    intro st h
    unfold shareAll
    simp only [List.foldl_cons]
    have hrest := fun st' => ih st' (fun x hx => h x (List.mem_cons_of_mem _ hx))
    unfold shareAll at hrest
    split
    next hself =>
      obtain ⟨h2, h2s⟩ := hrest st
      refine ⟨h2, ?_⟩
      intro x hx hne
      rcases List.mem_cons.1 hx with rfl | hx
      · exact absurd hself hne
      · exact h2s x hx hne
    next hself =>
      obtain ⟨h1, h1s⟩ := shareInstance_singleton P st s d d.ident v (h d (by simp)).1 (h d (by simp)).2
      obtain ⟨h2, h2s⟩ := hrest (shareInstance st s d d.ident v)
      refine ⟨h1.trans h2, ?_⟩
      intro x hx hne
      rcases List.mem_cons.1 hx with rfl | hx
      · exact h2.grows _ h1s
      · exact h2s x hx hne

end Godi.Container

namespace Godi.Container

theorem mem_eraseIdx_or_getElem? {α} : ∀ (l : List α) (k : Nat) (x : α), x ∈ l → x ∈ l.eraseIdx k ∨ l[k]? = some x := by
  intro l
  induction l with
  | nil => intro k x h; cases h
  | cons a rest ih =>
    intro k x h
    cases k with
    | zero =>
      rcases List.mem_cons.1 h with rfl | h
      · exact Or.inr rfl
      · exact Or.inl h
    | succ k =>
      rcases List.mem_cons.1 h with rfl | h
      · exact Or.inl (by simp [List.eraseIdx])
      · rcases ih k x h with h' | h'
        · exact Or.inl (by simp [List.eraseIdx, h'])
        · exact Or.inr (by simpa using h')

/-- the identity of a nil result-object field of a singleton registration enters the table as
constructed-without-value -/
theorem markAbsent_singleton (P : Ident → Prop) (st : State) (s : Nat) (sibs0 : List Desc) (nil? : Option Nat)
    (h : ∀ d ∈ sibs0, d.life = .singleton ∧ P d.ident) :
    SingStore P st (markAbsent st s sibs0 nil?) ∧
    ∀ k dk, nil? = some k → sibs0[k]? = some dk → (lookup (markAbsent st s sibs0 nil?).singletons dk.ident).isSome := by
  unfold markAbsent
  split
  next k =>
    split
    next dk hk =>
      obtain ⟨h1, h1s⟩ := shareInstance_singleton P st s dk dk.ident .absent (h dk (List.mem_of_getElem? hk)).1
        (h dk (List.mem_of_getElem? hk)).2
      refine ⟨h1, ?_⟩
      intro k' dk' hk' hdk'
      injection hk' with hk'; subst hk'
      rw [hk] at hdk'; injection hdk' with hdk'; subst hdk'
      exact h1s
    next hnone =>
      refine ⟨SingStore.refl P st, ?_⟩
      intro k' dk' hk' hdk'
      injection hk' with hk'; subst hk'
      rw [hnone] at hdk'; cases hdk'
  · exact ⟨SingStore.refl P st, fun k dk hk => by cases hk⟩

/-- registration structure: descriptors sharing a constructor are listed as siblings of each other;
a non-empty sibling list contains its owner; a void constructor registers one descriptor -/
structure RegWF (descs : List Desc) : Prop where
  sameCtor : ∀ d ∈ descs, ∀ d' ∈ descs, d'.ctor = d.ctor → d' = d ∨ d'.id ∈ d.sibs
  selfIn : ∀ d ∈ descs, d.sibs = [] ∨ d.id ∈ d.sibs
  voidAlone : ∀ d ∈ descs, d.kind = .void → d.sibs = []
  sibCtor : ∀ d ∈ descs, ∀ sid ∈ d.sibs, ∀ sd, findDesc descs sid = some sd → sd.ctor = d.ctor
  identUnique : ∀ d ∈ descs, ∀ d' ∈ descs, d'.ident = d.ident → d' = d
  /-- a value registered under several interface types: every descriptor of the registration holds it -/
  instSibs : ∀ d ∈ descs, ∀ v, d.kind = .inst v → ∀ d' ∈ descs, d'.ctor = d.ctor → d'.kind = .inst v

@[simp] theorem ctorCount_nil (c : Nat) : ctorCount [] c = 0 := rfl

theorem ctorCount_ctor (d c' inv s : Nat) (a : List Val) (o : List Inst) (c : Nat) :
    ctorCount [.ctor d c' inv s a o] c = if c' = c then 1 else 0 := by
  simp [ctorCount, List.countP_cons]

theorem ctorCount_ctorFail (d c' inv s : Nat) (how : Outcome) (c : Nat) :
    ctorCount [.ctorFail d c' inv s how] c = 0 := by
  simp [ctorCount, List.countP_cons]

/-- the outcome of one top-level `createInstance` of a singleton descriptor -/
structure CreateSing (st st' : State) (d : Desc) (res : Except Err Val) : Prop where
  descs : st'.descs = st.descs
  grows : Grows st.singletons st'.singletons
  only : OnlyNew (fun k => ∃ d' ∈ st.descs, d'.ctor = d.ctor ∧ d'.ident = k) st.singletons st'.singletons
  count : ∃ (nested : List Event) (fired : Bool), (∀ e ∈ nested, EventNonSingleton st.descs e) ∧
      (fired = false → OnlyNew (fun k => (∃ v, d.kind = .inst v) ∧ ∃ d' ∈ st.descs, d'.ctor = d.ctor ∧ d'.ident = k)
        st.singletons st'.singletons) ∧
      (∀ c, ctorCount st'.log c = ctorCount st.log c + ctorCount nested c + (if fired = true ∧ d.ctor = c then 1 else 0)) ∧
      ((fired = true ∨ ∃ v, res = .ok v) →
        ((∃ v, d.kind = .inst v) ∨ fired = true) ∧
        ∀ d' ∈ st.descs, d'.ctor = d.ctor → (lookup st'.singletons d'.ident).isSome)

theorem findDesc_mem' {descs : List Desc} {id : Nat} {d : Desc} (h : findDesc descs id = some d) : d ∈ descs :=
  List.mem_of_find?_eq_some h

theorem okOr_ok {α} (r : Except Err Unit) (v : α) (h : r = .ok ()) : okOr r v = .ok v := by
  subst h; rfl

theorem createInstance_singleton (beh : Beh) (f : Nat) (st : State) (s : Nat) (d : Desc) (wf : WF st.descs)
    (rw' : RegWF st.descs) (hd : d ∈ st.descs) (hl : d.life = .singleton) :
    CreateSing st (createInstance beh (f + 1) st s d).1 d (createInstance beh (f + 1) st s d).2 := by
  unfold createInstance
  split
  next v hk =>
    simp only []
    obtain ⟨h1, h1s, h1ok⟩ := setInstance_singleton (fun k => ∃ d' ∈ st.descs, d'.ctor = d.ctor ∧ d'.ident = k)
      st s d d.ident (.inst v) hl ⟨d, hd, rfl, rfl⟩
    obtain ⟨h1', _, _⟩ := setInstance_singleton
      (fun k => (∃ v, d.kind = .inst v) ∧ ∃ d' ∈ st.descs, d'.ctor = d.ctor ∧ d'.ident = k)
      st s d d.ident (.inst v) hl ⟨⟨v, hk⟩, d, hd, rfl, rfl⟩
    simp only [h1ok]
    have hsibP : ∀ sd ∈ d.sibs.filterMap (findDesc st.descs),
        sd.life = .singleton ∧ (fun k => ∃ d' ∈ st.descs, d'.ctor = d.ctor ∧ d'.ident = k) sd.ident := by
      intro sd hsd
      obtain ⟨sid, hsid, hf⟩ := List.mem_filterMap.1 hsd
      refine ⟨by rw [wf.sibLife d hd sid hsid sd hf]; exact hl, sd, findDesc_mem' hf, rw'.sibCtor d hd sid hsid sd hf, rfl⟩
    have hsibQ : ∀ sd ∈ d.sibs.filterMap (findDesc st.descs), sd.life = .singleton ∧
        (fun k => (∃ v, d.kind = .inst v) ∧ ∃ d' ∈ st.descs, d'.ctor = d.ctor ∧ d'.ident = k) sd.ident :=
      fun sd hsd => ⟨(hsibP sd hsd).1, ⟨v, hk⟩, (hsibP sd hsd).2⟩
    obtain ⟨h2, h2s⟩ := shareAll_singleton (fun k => ∃ d' ∈ st.descs, d'.ctor = d.ctor ∧ d'.ident = k) s d.id
      (.inst v) (d.sibs.filterMap (findDesc st.descs)) (setInstance st s d d.ident (.inst v)).1 hsibP
    obtain ⟨h2', _⟩ := shareAll_singleton
      (fun k => (∃ v, d.kind = .inst v) ∧ ∃ d' ∈ st.descs, d'.ctor = d.ctor ∧ d'.ident = k) s d.id
      (.inst v) (d.sibs.filterMap (findDesc st.descs)) (setInstance st s d d.ident (.inst v)).1 hsibQ
    refine ⟨h2.descs.trans h1.descs, h1.grows.trans h2.grows, h1.only.trans h2.only, [], false, by simp,
      fun _ => h1'.only.trans h2'.only, ?_, ?_⟩
    · intro c; simp [h2.log, h1.log]
    · intro _
      refine ⟨Or.inl ⟨v, hk⟩, ?_⟩
      intro d' hd' hc
      rcases rw'.sameCtor d hd d' hd' hc with h | h
      · subst h; exact h2.grows _ h1s
      · by_cases hid : d'.id = d.id
        · have : d' = d := by
            have h1'' := wf.uniqueIds d' hd'
            have h2'' := wf.uniqueIds d hd
            rw [hid, h2''] at h1''
            injection h1'' with h1''; exact h1''.symm
          subst this; exact h2.grows _ h1s
        · exact h2s d' (List.mem_filterMap.2 ⟨d'.id, h, wf.uniqueIds d' hd'⟩) hid
  next hk =>
    simp only []
    have hA := (frame beh f).2.2.2.2.1 st s d.deps [] wf
    obtain ⟨nested, hlog, hnested⟩ := hA.log
    generalize buildArgs beh f st s d.deps [] = ra at hA hlog
    have hdescs : ra.1.descs = st.descs := hA.descs
    have hsing : ra.1.singletons = st.singletons := hA.singletons
    have hfind : ∀ x ∈ st.descs, findDesc (bumpInv ra.1 d.ctor).descs x.id = some x := by
      intro x hx
      show findDesc ra.1.descs x.id = some x
      rw [hdescs]; exact wf.uniqueIds x hx
    have hsame : ∀ d' ∈ st.descs, d'.ctor = d.ctor →
        d' = d ∨ d' ∈ d.sibs.filterMap (findDesc (bumpInv ra.1 d.ctor).descs) := by
      intro d' hd' hc
      rcases rw'.sameCtor d hd d' hd' hc with h | h
      · exact Or.inl h
      · exact Or.inr (List.mem_filterMap.2 ⟨d'.id, h, hfind d' hd'⟩)
    have hPd : (fun k => ∃ d' ∈ st.descs, d'.ctor = d.ctor ∧ d'.ident = k) d.ident := ⟨d, hd, rfl, rfl⟩
    have hsiblife : ∀ sd ∈ d.sibs.filterMap (findDesc (bumpInv ra.1 d.ctor).descs),
        sd.life = .singleton ∧ (fun k => ∃ d' ∈ st.descs, d'.ctor = d.ctor ∧ d'.ident = k) sd.ident := by
      intro sd hsd
      obtain ⟨sid, hsid, hf⟩ := List.mem_filterMap.1 hsd
      have hf' : findDesc st.descs sid = some sd := by rw [← hdescs]; exact hf
      refine ⟨by rw [wf.sibLife d hd sid hsid sd hf']; exact hl, sd, findDesc_mem' hf', rw'.sibCtor d hd sid hsid sd hf', rfl⟩
    have hself : d.sibs.filterMap (findDesc (bumpInv ra.1 d.ctor).descs) = [] ∨
        d ∈ d.sibs.filterMap (findDesc (bumpInv ra.1 d.ctor).descs) := by
      rcases rw'.selfIn d hd with h | h
      · left; rw [h]; rfl
      · right; exact List.mem_filterMap.2 ⟨d.id, h, hfind d hd⟩
    have hgrow0 : Grows st.singletons ra.1.singletons := by rw [hsing]; exact Grows.refl _
    have honly0 : OnlyNew (fun k => ∃ d' ∈ st.descs, d'.ctor = d.ctor ∧ d'.ident = k) st.singletons ra.1.singletons := by
      rw [hsing]; exact OnlyNew.refl _ _
    split
    · -- argument building failed
      refine ⟨hdescs, hgrow0, honly0, nested, false, hnested, fun _ => by rw [hsing]; exact OnlyNew.refl _ _, ?_, ?_⟩
      · intro c; rw [hlog, ctorCount_append]; simp
      · rintro (h | ⟨v, hv⟩)
        · cases h
        · cases hv
    next args _ =>
      have hfailcase : ∀ (how : Outcome) (e : Err),
          CreateSing st (logEv (bumpInv ra.1 d.ctor) (.ctorFail d.id d.ctor ((bumpInv ra.1 d.ctor).invs d.ctor) s how)) d (.error e) := by
        intro how e
        refine ⟨hdescs, hgrow0, honly0, nested, false, hnested,
          fun _ => by show OnlyNew _ st.singletons ra.1.singletons; rw [hsing]; exact OnlyNew.refl _ _, ?_, ?_⟩
        · intro c
          show ctorCount (ra.1.log ++ [_]) c = _
          rw [hlog, ctorCount_append, ctorCount_append, ctorCount_ctorFail]; simp
        · rintro (h | ⟨v, hv⟩)
          · cases h
          · cases hv
      have hcnt : ∀ (lg : List Event) (ev : Event) (c : Nat), lg = ra.1.log ++ [ev] →
          (∃ inv sc a o, ev = .ctor d.id d.ctor inv sc a o) →
          ctorCount lg c = ctorCount st.log c + ctorCount nested c + (if true = true ∧ d.ctor = c then 1 else 0) := by
        intro lg ev c h3 ⟨inv, sc, a, o, hev⟩
        rw [h3, hlog, ctorCount_append, ctorCount_append, hev, ctorCount_ctor]; simp
      split
      · exact hfailcase _ _
      · exact hfailcase _ _
      · exact hfailcase _ _
      · split
        next hvoid =>
          -- void
          obtain ⟨h1, h1s, h1ok⟩ := setInstance_singleton (fun k => ∃ d' ∈ st.descs, d'.ctor = d.ctor ∧ d'.ident = k)
            (logEv (bumpInv ra.1 d.ctor) (.ctor d.id d.ctor ((bumpInv ra.1 d.ctor).invs d.ctor) s args [])) s d d.ident .unit hl hPd
          refine ⟨h1.descs.trans hdescs, hgrow0.trans h1.grows, honly0.trans h1.only, nested, true, hnested,
            by simp, ?_, ?_⟩
          · intro c; exact hcnt _ _ c (by rw [h1.log]; rfl) ⟨_, _, _, _, rfl⟩
          · intro _
            refine ⟨Or.inr rfl, ?_⟩
            intro d' hd' hc
            rcases hsame d' hd' hc with h | h
            · subst h; exact h1s
            · rw [rw'.voidAlone d hd hvoid] at h; simp at h
        next hmulti =>
          -- multi: one value per sibling; a nil field's identity is stored as constructed-without-value
          have h0life : ∀ sd ∈ (if (d.sibs.filterMap (findDesc (bumpInv ra.1 d.ctor).descs)).isEmpty then [d]
              else d.sibs.filterMap (findDesc (bumpInv ra.1 d.ctor).descs)), sd.life = .singleton ∧
              (fun k => ∃ d' ∈ st.descs, d'.ctor = d.ctor ∧ d'.ident = k) sd.ident := by
            split
            · intro sd hsd; simp at hsd; subst hsd; exact ⟨hl, hPd⟩
            · exact hsiblife
          have h0all : ∀ d' ∈ st.descs, d'.ctor = d.ctor →
              d' ∈ (if (d.sibs.filterMap (findDesc (bumpInv ra.1 d.ctor).descs)).isEmpty then [d]
                else d.sibs.filterMap (findDesc (bumpInv ra.1 d.ctor).descs)) := by
            intro d' hd' hc
            rcases hsame d' hd' hc with h | h
            · subst h
              split
              · simp
              next hne =>
                rcases hself with h | h
                · rw [h] at hne; simp at hne
                · exact h
            · split
              next he => rw [List.isEmpty_iff.1 he] at h; simp at h
              · exact h
          have hmultiB : ∀ (sibs' sibs0 : List Desc) (nil? : Option Nat) (res : Except Err Val),
              (∀ sd ∈ sibs', sd.life = .singleton ∧ (fun k => ∃ d' ∈ st.descs, d'.ctor = d.ctor ∧ d'.ident = k) sd.ident) →
              (∀ sd ∈ sibs0, sd.life = .singleton ∧ (fun k => ∃ d' ∈ st.descs, d'.ctor = d.ctor ∧ d'.ident = k) sd.ident) →
              (∀ d' ∈ sibs0, d' ∈ sibs' ∨ ∃ k, nil? = some k ∧ sibs0[k]? = some d') →
              (∀ d' ∈ st.descs, d'.ctor = d.ctor → d' ∈ sibs0) →
              CreateSing st (markAbsent (storeOuts
                (logEv (alloc (bumpInv ra.1 d.ctor) sibs'.length d.ctor ((bumpInv ra.1 d.ctor).invs d.ctor))
                  (.ctor d.id d.ctor ((bumpInv ra.1 d.ctor).invs d.ctor) s args (allocOuts (bumpInv ra.1 d.ctor).next sibs'.length)))
                s sibs' (allocOuts (bumpInv ra.1 d.ctor).next sibs'.length)).1 s sibs0 nil?) d res := by
            intro sibs' sibs0 nil? res hs'life hs0life hcover hall
            obtain ⟨h1, _, h1s⟩ := storeOuts_singleton (fun k => ∃ d' ∈ st.descs, d'.ctor = d.ctor ∧ d'.ident = k) s sibs'
              (allocOuts (bumpInv ra.1 d.ctor).next sibs'.length)
              (logEv (alloc (bumpInv ra.1 d.ctor) sibs'.length d.ctor ((bumpInv ra.1 d.ctor).invs d.ctor))
                (.ctor d.id d.ctor ((bumpInv ra.1 d.ctor).invs d.ctor) s args (allocOuts (bumpInv ra.1 d.ctor).next sibs'.length)))
              hs'life (by simp [allocOuts])
            obtain ⟨h2, h2s⟩ := markAbsent_singleton (fun k => ∃ d' ∈ st.descs, d'.ctor = d.ctor ∧ d'.ident = k) _ s sibs0 nil? hs0life
            refine ⟨(h2.descs.trans h1.descs).trans hdescs, (hgrow0.trans h1.grows).trans h2.grows,
              (honly0.trans h1.only).trans h2.only, nested, true, hnested, by simp, ?_, ?_⟩
            · intro c; exact hcnt _ _ c (by rw [h2.log, h1.log]; rfl) ⟨_, _, _, _, rfl⟩
            · intro _
              refine ⟨Or.inr rfl, ?_⟩
              intro d' hd' hc
              have hin0 := hall d' hd' hc
              rcases hcover d' hin0 with hin | ⟨k, hk, hget⟩
              · exact h2.grows _ (h1s d' hin)
              · exact h2s k d' hk hget
          generalize (if (d.sibs.filterMap (findDesc (bumpInv ra.1 d.ctor).descs)).isEmpty then [d]
              else d.sibs.filterMap (findDesc (bumpInv ra.1 d.ctor).descs)) = sibs0 at h0life h0all ⊢
          cases beh.nilField d.ctor ((bumpInv ra.1 d.ctor).invs d.ctor) with
          | none => exact hmultiB sibs0 sibs0 none _ h0life h0life (fun d' h => Or.inl h) h0all
          | some k =>
            exact hmultiB (sibs0.eraseIdx k) sibs0 (some k) _ (fun sd hsd => h0life sd (List.mem_of_mem_eraseIdx hsd)) h0life
              (fun d' h => (mem_eraseIdx_or_getElem? sibs0 k d' h).imp id (fun hg => ⟨k, rfl, hg⟩)) h0all
        next hplain1 hplain2 =>
          -- plain (aliases share the value)
          obtain ⟨h1, h1s, h1ok⟩ := setInstance_singleton (fun k => ∃ d' ∈ st.descs, d'.ctor = d.ctor ∧ d'.ident = k)
            (logEv (alloc (bumpInv ra.1 d.ctor) 1 d.ctor ((bumpInv ra.1 d.ctor).invs d.ctor))
              (.ctor d.id d.ctor ((bumpInv ra.1 d.ctor).invs d.ctor) s args [(bumpInv ra.1 d.ctor).next])) s d d.ident
            (.inst (bumpInv ra.1 d.ctor).next) hl hPd
          simp only [h1ok]
          obtain ⟨h2, h2s⟩ := shareAll_singleton (fun k => ∃ d' ∈ st.descs, d'.ctor = d.ctor ∧ d'.ident = k) s d.id
            (.inst (bumpInv ra.1 d.ctor).next)
            (d.sibs.filterMap (findDesc (bumpInv ra.1 d.ctor).descs)) _ hsiblife
          refine ⟨(h2.descs.trans h1.descs).trans hdescs, (hgrow0.trans h1.grows).trans h2.grows,
            (honly0.trans h1.only).trans h2.only, nested, true, hnested, by simp, ?_, ?_⟩
          · intro c; exact hcnt _ _ c (by rw [h2.log, h1.log]; rfl) ⟨_, _, _, _, rfl⟩
          · intro _
            refine ⟨Or.inr rfl, ?_⟩
            intro d' hd' hc
            rcases hsame d' hd' hc with h | h
            · subst h; exact h2.grows _ h1s
            · by_cases hid : d'.id = d.id
              · have : d' = d := by
                  have h1' := wf.uniqueIds d' hd'
                  have h2' := wf.uniqueIds d hd
                  rw [hid, h2'] at h1'
                  injection h1' with h1'; exact h1'.symm
                subst this; exact h2.grows _ h1s
              · exact h2s d' h hid

end Godi.Container

namespace Godi.Container

/-- `c` is the constructor of singleton registrations only -/
def SingCtor (descs : List Desc) (c : Nat) : Prop := ∀ d ∈ descs, d.ctor = c → d.life = .singleton

theorem singCtor_of (descs : List Desc) (wf : WF descs) (rw' : RegWF descs) (d : Desc) (hd : d ∈ descs)
    (hl : d.life = .singleton) : SingCtor descs d.ctor := by
  intro d' hd' hc
  rcases rw'.sameCtor d hd d' hd' hc with h | h
  · subst h; exact hl
  · rw [wf.sibLife d hd d'.id h d' (wf.uniqueIds d' hd')]; exact hl

/-- invariant of the singleton-creation loop of Build -/
structure BuildInv (descs : List Desc) (st : State) : Prop where
  descsEq : st.descs = descs
  atMost : ∀ c, SingCtor descs c → ctorCount st.log c ≤ 1
  stored : ∀ c, SingCtor descs c → ctorCount st.log c = 1 →
    ∀ d ∈ descs, d.ctor = c → (lookup st.singletons d.ident).isSome
  counted : ∀ d ∈ descs, d.life = .singleton → (∀ v, d.kind ≠ .inst v) →
    (lookup st.singletons d.ident).isSome → ctorCount st.log d.ctor = 1

theorem buildInv_step (beh : Beh) (descs : List Desc) (wf : WF descs) (rw' : RegWF descs) (st : State)
    (inv : BuildInv descs st) (d : Desc) (hd : d ∈ descs) (hl : d.life = .singleton)
    (hnone : (lookup st.singletons d.ident).isSome = false) (f s : Nat) :
    BuildInv descs (createInstance beh (f + 1) st s d).1 := by
  have hde := inv.descsEq
  have cs := createInstance_singleton beh f st s d (hde ▸ wf) (hde ▸ rw') (hde ▸ hd) hl
  generalize createInstance beh (f + 1) st s d = r at cs
  obtain ⟨nested, fired, hnested, hfalse, hcount, hres⟩ := cs.count
  have hsc := singCtor_of descs wf rw' d hd hl
  have hzero : ctorCount st.log d.ctor = 0 := by
    have h1 := inv.atMost d.ctor hsc
    by_cases h : ctorCount st.log d.ctor = 1
    · have := inv.stored d.ctor hsc h d hd rfl
      rw [this] at hnone; cases hnone
    · omega
  have hnest0 : ∀ c, SingCtor descs c → ctorCount nested c = 0 := by
    intro c hc
    exact ctorCount_nonSingleton st.descs nested c (by rw [hde]; exact hc) hnested
  refine ⟨cs.descs.trans hde, ?_, ?_, ?_⟩
  · intro c hc
    rw [hcount c, hnest0 c hc]
    by_cases hcc : d.ctor = c
    · subst hcc; rw [hzero]; split <;> omega
    · have := inv.atMost c hc
      simp [hcc]; omega
  · intro c hc h1 d' hd' hdc
    rw [hcount c, hnest0 c hc] at h1
    by_cases hcc : fired = true ∧ d.ctor = c
    · obtain ⟨hf, hcc⟩ := hcc
      exact (hres (Or.inl hf)).2 d' (by rw [hde]; exact hd') (by rw [hdc, hcc])
    · simp only [hcc, ↓reduceIte, Nat.add_zero] at h1
      exact cs.grows _ (inv.stored c hc h1 d' hd' hdc)
  · intro d0 hd0 hl0 hk0 hs0
    have hsc0 := singCtor_of descs wf rw' d0 hd0 hl0
    rw [hcount d0.ctor, hnest0 d0.ctor hsc0]
    cases hf : fired with
    | false =>
      simp only [Bool.false_eq_true, false_and, ↓reduceIte, Nat.add_zero]
      rcases hfalse hf d0.ident hs0 with hold | ⟨⟨v, hv⟩, d', hd', hdc, hdi⟩
      · exact inv.counted d0 hd0 hl0 hk0 hold
      · have : d' = d0 := rw'.identUnique d0 hd0 d' (by rw [← hde]; exact hd') hdi
        subst this
        exact absurd (rw'.instSibs d hd v hv d' hd0 hdc) (hk0 v)
    | true =>
      rcases cs.only d0.ident hs0 with hold | ⟨d', hd', hdc, hdi⟩
      · have h1 := inv.counted d0 hd0 hl0 hk0 hold
        have hne : d.ctor ≠ d0.ctor := by
          intro e; rw [← e, hzero] at h1; cases h1
        simp [hne, h1]
      · have : d' = d0 := rw'.identUnique d0 hd0 d' (by rw [← hde]; exact hd') hdi
        subst this
        simp [hdc, hzero]

theorem createSingletons_inv (beh : Beh) (descs : List Desc) (wf : WF descs) (rw' : RegWF descs) :
    ∀ (order : List Nat) (st : State), BuildInv descs st → BuildInv descs (createSingletons beh st order).1 := by
  intro order
  induction order with
  | nil => intro st inv; exact inv
  | cons id rest ih =>
    intro st inv
    unfold createSingletons
    split
    · exact ih st inv
    next d hfd =>
      have hd : d ∈ descs := by rw [← inv.descsEq]; exact findDesc_mem' hfd
      split
      · exact ih st inv
      next hl =>
        have hl' : d.life = .singleton := by simpa using hl
        split
        · exact inv
        split
        · exact ih st inv
        next hn =>
          have hnone : (lookup st.singletons d.ident).isSome = false := by simpa using hn
          obtain ⟨f, hf⟩ : ∃ f, fuelFor st = f + 1 := ⟨fuelFor st - 1, by unfold fuelFor; omega⟩
          have hstep := buildInv_step beh descs wf rw' st inv d hd hl' hnone f rootScope
          rw [← hf] at hstep
          simp only []
          split
          · exact ih _ hstep
          · exact hstep

/-- AT MOST ONCE: whatever order the graph produced and whatever the constructors do, after the
singleton-creation phase of Build no constructor of a singleton registration has succeeded twice;
and a stored non-instance singleton identity means its constructor succeeded exactly once -/
theorem build_singletons_once (beh : Beh) (descs : List Desc) (wf : WF descs) (rw' : RegWF descs) (order : List Nat)
    (st0 : State) (h0 : st0.descs = descs) (hlog : st0.log = []) (hs : st0.singletons = []) :
    BuildInv descs (createSingletons beh st0 order).1 := by
  apply createSingletons_inv beh descs wf rw' order st0
  refine ⟨h0, ?_, ?_, ?_⟩
  · intro c _; rw [hlog]; simp
  · intro c _ h; rw [hlog] at h; simp at h
  · intro d _ _ _ h; rw [hs] at h; simp [lookup] at h

end Godi.Container

namespace Godi.Container

theorem createSingletons_ok_stored (beh : Beh) (descs : List Desc) (wf : WF descs) (rw' : RegWF descs) :
    ∀ (order : List Nat) (st : State), BuildInv descs st → (createSingletons beh st order).2 = .ok () →
      Grows st.singletons (createSingletons beh st order).1.singletons ∧
      ∀ id ∈ order, ∀ d, findDesc descs id = some d → d.life = .singleton →
        (lookup (createSingletons beh st order).1.singletons d.ident).isSome := by
  intro order
  induction order with
  | nil => intro st _ _; exact ⟨Grows.refl _, by simp⟩
  | cons id rest ih =>
    intro st inv hok
    have hde := inv.descsEq
    unfold createSingletons at hok ⊢
    cases hfd : findDesc st.descs id with
    | none =>
      simp only [hfd] at hok ⊢
      obtain ⟨g, hs⟩ := ih st inv hok
      refine ⟨g, ?_⟩
      intro id' hid' d hd' hl
      rcases List.mem_cons.1 hid' with rfl | h
      · rw [← hde, hfd] at hd'; cases hd'
      · exact hs id' h d hd' hl
    | some d0 =>
      simp only [hfd] at hok ⊢
      have hd0 : d0 ∈ descs := by rw [← hde]; exact findDesc_mem' hfd
      by_cases hl0 : d0.life != .singleton
      · simp only [hl0, ↓reduceIte] at hok ⊢
        obtain ⟨g, hs⟩ := ih st inv hok
        refine ⟨g, ?_⟩
        intro id' hid' d hd' hl
        rcases List.mem_cons.1 hid' with rfl | h
        · rw [← hde, hfd] at hd'; injection hd' with hd'; subst hd'
          simp [hl] at hl0
        · exact hs id' h d hd' hl
      · simp only [hl0, Bool.false_eq_true, ↓reduceIte] at hok ⊢
        have hl0' : d0.life = .singleton := by simpa using hl0
        by_cases habs : (lookup st.singletons d0.ident == some Val.absent) = true
        · simp only [habs, ↓reduceIte] at hok; cases hok
        simp only [habs, Bool.false_eq_true, ↓reduceIte] at hok ⊢
        by_cases hst : (lookup st.singletons d0.ident).isSome = true
        · simp only [hst, ↓reduceIte] at hok ⊢
          obtain ⟨g, hs⟩ := ih st inv hok
          refine ⟨g, ?_⟩
          intro id' hid' d hd' hl
          rcases List.mem_cons.1 hid' with rfl | h
          · rw [← hde, hfd] at hd'; injection hd' with hd'; subst hd'
            exact g _ hst
          · exact hs id' h d hd' hl
        · simp only [hst, Bool.false_eq_true, ↓reduceIte] at hok ⊢
          have hnone : (lookup st.singletons d0.ident).isSome = false := by simpa using hst
          obtain ⟨f, hf⟩ : ∃ f, fuelFor st = f + 1 := ⟨fuelFor st - 1, by unfold fuelFor; omega⟩
          have cs := createInstance_singleton beh f st rootScope d0 (hde ▸ wf) (hde ▸ rw') (hde ▸ hd0) hl0'
          have hstep := buildInv_step beh descs wf rw' st inv d0 hd0 hl0' hnone f rootScope
          rw [← hf] at cs hstep
          generalize createInstance beh (fuelFor st) st rootScope d0 = r at cs hstep hok ⊢
          cases hr : r.2 with
          | error e => simp [hr] at hok
          | ok v =>
            simp only [hr] at hok ⊢
            obtain ⟨g, hs⟩ := ih r.1 hstep hok
            obtain ⟨_, _, _, _, _, hres⟩ := cs.count
            have hstored := (hres (Or.inr ⟨v, hr⟩)).2 d0 (hde ▸ hd0) rfl
            refine ⟨cs.grows.trans g, ?_⟩
            intro id' hid' d hd' hl
            rcases List.mem_cons.1 hid' with rfl | h
            · rw [← hde, hfd] at hd'; injection hd' with hd'; subst hd'
              exact g _ hstored
            · exact hs id' h d hd' hl

end Godi.Container
