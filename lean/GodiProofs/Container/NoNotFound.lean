import GodiProofs.Container.Terminates
/-!
# After validation, resolution never answers "service not found" for a registered service

`Present descs` is what phase 3b of `doBuild` (`validateDependencies`) checks: every dependency that is
neither optional nor a group is registered or built in. Under it, by induction on the fuel over the six
mutually recursive resolution functions: resolving a *registered* identity (or a built-in one), resolving
a group, and constructing any registration never produce an error chain containing `notFound` — at
any depth of the dependency nesting, in any state, for every behaviour of the constructors.
An optional dependency that is not registered does produce `notFound` internally; `BuildParamObject`
tolerates exactly that (it is not a construction failure) and the chain never reaches the caller.
-/
namespace Godi.Container

abbrev noNF {α} (r : Except Err α) : Bool := avoids Layer.notFound r

def DepPresent (descs : List Desc) (dep : Dep) : Prop :=
  dep.optional = true ∨ dep.grp ≠ 0 ∨ isBuiltin dep = true ∨ (findService descs dep.ty dep.key).isSome

def Present (descs : List Desc) : Prop := ∀ d ∈ descs, ∀ dep ∈ d.deps, DepPresent descs dep

theorem present_of_check (descs : List Desc) (h : missingDependency descs = false) : Present descs := by
  intro d hd dep hdep
  have hn : ¬ missingDependency descs = true := by rw [h]; simp
  rw [missingDependency_iff] at hn
  unfold DepPresent
  by_cases ho : dep.optional = true
  · exact Or.inl ho
  · by_cases hg : dep.grp = 0
    · by_cases hb : isBuiltin dep = true
      · exact Or.inr (Or.inr (Or.inl hb))
      · cases hf : findService descs dep.ty dep.key with
        | some t => exact Or.inr (Or.inr (Or.inr rfl))
        | none =>
          exact absurd ⟨d, hd, dep, hdep, by simpa using ho, hg, by simpa using hb, hf⟩ hn
    · exact Or.inr (Or.inl hg)

theorem present_of_verdict (descs : List Desc) (h : verdict descs = .ok) : Present descs := by
  apply present_of_check
  unfold verdict at h
  split at h
  · by_cases h1 : lifetimeConflict descs = true
    · simp [h1] at h
    · by_cases h2 : missingDependency descs = true
      · simp [h1, h2] at h
      · simpa using h2
  · cases h

theorem nf_not_construction : isConstruction [Layer.resolution, Layer.notFound] = false := by decide

/-- the induction -/
theorem noNotFound (beh : Beh) (descs : List Desc) (hp : Present descs) : ∀ fuel,
    (∀ st s ty key, st.descs = descs →
      (((findService descs ty key).isSome ∨ (key = 0 ∧ ty < 3)) → noNF (resolve beh fuel st s ty key).2 = true) ∧
      (noNF (resolve beh fuel st s ty key).2 = true ∨
        ∃ e, (resolve beh fuel st s ty key).2 = .error e ∧ isConstruction e = false)) ∧
    (∀ st s d, st.descs = descs → d ∈ descs → noNF (resolveDesc beh fuel st s d).2 = true) ∧
    (∀ st s ty grp, st.descs = descs → noNF (getGroup beh fuel st s ty grp).2 = true) ∧
    (∀ st s ds acc, st.descs = descs → (∀ d ∈ ds, d ∈ descs) → noNF (resolveMembers beh fuel st s ds acc).2 = true) ∧
    (∀ st s deps acc, st.descs = descs → (∀ dep ∈ deps, DepPresent descs dep) →
      noNF (buildArgs beh fuel st s deps acc).2 = true) ∧
    (∀ st s d, st.descs = descs → d ∈ descs → noNF (createInstance beh fuel st s d).2 = true) := by
  intro fuel
  induction fuel with
  | zero =>
    refine ⟨?_, ?_, ?_, ?_, ?_, ?_⟩ <;> intros <;>
      simp [resolve, resolveDesc, getGroup, resolveMembers, buildArgs, createInstance, avoids]
  | succ f ih =>
    obtain ⟨ihR, ihD, ihG, ihM, ihA, ihC⟩ := ih
    refine ⟨?_, ?_, ?_, ?_, ?_, ?_⟩
    · -- resolve
      intro st s ty key hst
      unfold resolve
      split
      · exact ⟨fun _ => rfl, Or.inl rfl⟩
      split
      · exact ⟨fun _ => rfl, Or.inl rfl⟩
      split
      · exact ⟨fun _ => rfl, Or.inl rfl⟩
      split
      · exact ⟨fun _ => rfl, Or.inl rfl⟩
      next h0 h1 h2 =>
        split
        next hf =>
          rw [hst] at hf
          refine ⟨?_, Or.inr ⟨_, rfl, nf_not_construction⟩⟩
          rintro (hs | ⟨hk, ht⟩)
          · rw [hf] at hs; cases hs
          · have : ty = 0 ∨ ty = 1 ∨ ty = 2 := by omega
            rcases this with h | h | h
            · exact absurd ⟨hk, h⟩ h0
            · exact absurd ⟨hk, h⟩ h1
            · exact absurd ⟨hk, h⟩ h2
        next d hd =>
          rw [hst] at hd
          have := ihD st s d hst (findService_mem hd)
          exact ⟨fun _ => this, Or.inl this⟩
    · -- resolveDesc
      intro st s d hst hd
      unfold resolveDesc
      split
      · split
        · exact avoids_single _ _ (by decide)
        · rfl
        · exact avoids_cons (β := Val) _ _ _ (by decide) (avoids_single _ _ (by decide))
      · split
        · exact avoids_single _ _ (by decide)
        · rfl
        · exact ihC st s d hst hd
      · exact ihC st s d hst hd
    · -- getGroup
      intro st s ty grp hst
      unfold getGroup
      split
      · exact avoids_single _ _ (by decide)
      · exact ihM st s _ [] hst (fun d hd => by rw [hst] at hd; exact groupMembers_mem hd)
    · -- resolveMembers
      intro st s ds acc hst hds
      cases ds with
      | nil => unfold resolveMembers; rfl
      | cons d rest =>
        rw [resolveMembers_cons]
        apply membersStep_avoids foreign_notFound
        · exact ihD st s d hst (hds d (List.mem_cons_self ..))
        · intro acc'
          exact ihM _ s rest acc' (by rw [(descs_frame beh f).2.1]; exact hst)
            (fun x hx => hds x (List.mem_cons_of_mem _ hx))
    · -- buildArgs
      intro st s deps acc hst hdeps
      cases deps with
      | nil => unfold buildArgs; rfl
      | cons dep rest =>
        rw [buildArgs_cons]
        have hrest : ∀ x ∈ rest, DepPresent descs x := fun x hx => hdeps x (List.mem_cons_of_mem _ hx)
        apply argsStep_avoids
        · by_cases hg : dep.grp = 0
          · have hb : (dep.grp != 0) = false := by simp [hg]
            simp only [hb, Bool.false_eq_true, ↓reduceIte]
            have hR := ihR st s dep.ty dep.key hst
            rcases hdeps dep (List.mem_cons_self ..) with ho | hgn | hbi | hfs
            · rcases hR.2 with h | h
              · exact Or.inl h
              · exact Or.inr ⟨ho, h⟩
            · exact absurd hg hgn
            · unfold isBuiltin at hbi
              simp only [Bool.and_eq_true, beq_iff_eq, decide_eq_true_eq] at hbi
              exact Or.inl (hR.1 (Or.inr ⟨hbi.1.1, hbi.2⟩))
            · exact Or.inl (hR.1 (Or.inl hfs))
          · have hb : (dep.grp != 0) = true := by simp [hg]
            simp only [hb, ↓reduceIte]
            exact Or.inl (ihG st s dep.ty dep.grp hst)
        · intro acc'
          refine ihA _ s rest acc' ?_ hrest
          split
          · rw [(descs_frame beh f).2.2.1]; exact hst
          · rw [(descs_frame beh f).1]; exact hst
    · -- createInstance
      intro st s d hst hd
      exact createInstance_avoids foreign_notFound beh f st s d (ihA st s d.deps [] hst (hp d hd))

end Godi.Container
