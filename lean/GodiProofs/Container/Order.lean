import GodiProofs.Container.TreeBuild
import GodiProofs.Container.Ledger
/-!
# A scope's disposal list is in creation order

Instance ids are handed out by a counter (`State.next`) at the moment a constructor has returned. `SD st`: the
disposal list of every scope is strictly increasing in instance id — i.e. it lists the scope's disposable
instances in the order in which they were created — and mentions only ids below the counter. It holds in the state
Build returns and after every operation. `scope.Close` logs its own instances in the reverse of that list
(`closeScope_log`), hence **in exactly the reverse of their creation order**; an instance that was handed to a
constructor as an argument was created before that constructor's products and is therefore closed after them.
-/
namespace Godi.Container

def SortedBelow (l : List Inst) (b : Nat) : Prop := l.Pairwise (· < ·) ∧ ∀ i ∈ l, i < b

theorem SortedBelow.mono {l : List Inst} {b b' : Nat} (h : SortedBelow l b) (hb : b ≤ b') : SortedBelow l b' :=
  ⟨h.1, fun i hi => Nat.lt_of_lt_of_le (h.2 i hi) hb⟩

theorem SortedBelow.snoc {l : List Inst} {b i : Nat} (h : SortedBelow l b) (hb : b ≤ i) : SortedBelow (l ++ [i]) (i + 1) := by
  refine ⟨?_, ?_⟩
  · rw [List.pairwise_append]
    refine ⟨h.1, List.pairwise_singleton _ _, ?_⟩
    intro a ha c hc
    simp only [List.mem_singleton] at hc; subst hc
    exact Nat.lt_of_lt_of_le (h.2 a ha) hb
  · intro a ha
    rcases List.mem_append.1 ha with h1 | h1
    · exact Nat.lt_succ_of_lt (Nat.lt_of_lt_of_le (h.2 a h1) hb)
    · simp only [List.mem_singleton] at h1; subst h1; exact Nat.lt_succ_self _

theorem sortedBelow_nil (b : Nat) : SortedBelow [] b := ⟨List.Pairwise.nil, fun _ h => by cases h⟩

/-- every scope's disposal list is sorted and below `b` -/
def SDb (st : State) (b : Nat) : Prop := ∀ s, SortedBelow (dispOf st s) b

abbrev SD (st : State) : Prop := SDb st st.next

theorem SDb.mono {st : State} {b b' : Nat} (h : SDb st b) (hb : b ≤ b') : SDb st b' := fun s => (h s).mono hb

theorem sdb_of_scope_eq {st st' : State} {b : Nat} (hs : st'.scope = st.scope) (h : SDb st b) : SDb st' b := by
  intro s; unfold dispOf; rw [hs]; exact h s

theorem sdb_upd_other (st : State) (s : Nat) (g : ScopeSt → ScopeSt) (b : Nat) (hg : ∀ sc, (g sc).disposables = sc.disposables)
    (h : SDb st b) : SDb (updScope st s g) b := by
  intro x
  unfold dispOf
  rw [scope_upd]; split
  next hx => subst hx; rw [hg]; exact h x
  · exact h x

theorem sdb_putInstance (st : State) (s : Nat) (k : Ident) (v : Val) (b : Nat) (h : SDb st b) : SDb (putInstance st s k v) b := by
  unfold putInstance; exact sdb_upd_other st s _ b (fun _ => rfl) h

/-- `track`: a new disposable whose id is at least `b` goes to the end of its scope's list -/
theorem sdb_track (st : State) (s : Nat) (i : Inst) (disp : Bool) (b : Nat) (h : SDb st b) (hb : b ≤ i) :
    SDb (track st s (.inst i) disp).1 (i + 1) := by
  have hb' : b ≤ i + 1 := Nat.le_succ_of_le hb
  unfold track
  simp only []
  split
  · split
    · exact sdb_of_scope_eq rfl (h.mono hb')
    · exact h.mono hb'
  · split
    · intro x
      unfold dispOf
      rw [scope_upd]; split
      next hx =>
        subst hx
        simp only [Option.getD_some]
        exact (h x).snoc hb
      · exact (h x).mono hb'
    · exact h.mono hb'

theorem sdb_track_other (st : State) (s : Nat) (v : Val) (disp : Bool) (b : Nat) (h : SDb st b) (hv : ∀ i, v ≠ .inst i) :
    SDb (track st s v disp).1 b := by
  unfold track
  split
  next i => exact absurd rfl (hv i)
  · split <;> exact h

/-- `setInstance` of a freshly allocated instance -/
theorem sdb_setInstance (st : State) (s : Nat) (d : Desc) (k : Ident) (i : Inst) (b : Nat) (h : SDb st b) (hb : b ≤ i) :
    SDb (setInstance st s d k (.inst i)).1 (i + 1) := by
  have hb' : b ≤ i + 1 := Nat.le_succ_of_le hb
  unfold setInstance
  split
  · simp only []
    split
    · exact sdb_of_scope_eq rfl (h.mono hb')
    · exact sdb_of_scope_eq rfl (h.mono hb')
  · exact sdb_track _ s i d.disp b (sdb_putInstance st s k _ b h) hb
  · exact sdb_track st s i d.disp b h hb

theorem sdb_setInstance_singleton (st : State) (s : Nat) (d : Desc) (k : Ident) (v : Val) (b : Nat) (h : SDb st b)
    (hl : d.life = .singleton) : SDb (setInstance st s d k v).1 b := by
  unfold setInstance
  simp only [hl]
  split
  · split <;> exact sdb_of_scope_eq rfl h
  · exact sdb_of_scope_eq rfl h

theorem sdb_setInstance_unit (st : State) (s : Nat) (d : Desc) (k : Ident) (b : Nat) (h : SDb st b) :
    SDb (setInstance st s d k .unit).1 b := by
  unfold setInstance
  split
  · exact sdb_of_scope_eq rfl h
  · exact sdb_track_other _ s .unit d.disp b (sdb_putInstance st s k _ b h) (fun i hi => by cases hi)
  · exact sdb_track_other st s .unit d.disp b h (fun i hi => by cases hi)

theorem sdb_shareInstance (st : State) (s : Nat) (d : Desc) (k : Ident) (v : Val) (b : Nat) (h : SDb st b) :
    SDb (shareInstance st s d k v) b := by
  unfold shareInstance
  split
  · exact sdb_of_scope_eq rfl h
  · exact sdb_putInstance st s k v b h
  · exact h

theorem sdb_shareAll (s self : Nat) (v : Val) (b : Nat) : ∀ (sibs : List Desc) (st : State), SDb st b →
    SDb (shareAll st s self sibs v) b := by
  intro sibs
  induction sibs with
  | nil => intro st h; exact h
  | cons d ds ih =>
    intro st h
    unfold shareAll
    simp only [List.foldl_cons]
    have h2 := ih (if d.id = self then st else shareInstance st s d d.ident v) (by
      split
      · exact h
      · exact sdb_shareInstance st s d d.ident v b h)
    unfold shareAll at h2
    exact h2

theorem sdb_markAbsent (st : State) (s : Nat) (sibs0 : List Desc) (nil? : Option Nat) (b : Nat) (h : SDb st b) :
    SDb (markAbsent st s sibs0 nil?) b := by
  unfold markAbsent
  split
  · split
    · exact sdb_shareInstance _ _ _ _ _ b h
    · exact h
  · exact h

/-- `storeOuts`: the outputs of one invocation, consecutive fresh ids, go to the lists in that order -/
theorem sdb_storeOuts (s : Nat) : ∀ (sibs : List Desc) (n k : Nat) (st : State), SDb st n →
    SDb (storeOuts st s sibs (allocOuts n k)).1 (n + k) := by
  intro sibs
  induction sibs with
  | nil => intro n k st h; simp [storeOuts]; exact h.mono (Nat.le_add_right n k)
  | cons d ds ih =>
    intro n k st h
    cases k with
    | zero => simp [allocOuts, storeOuts]; exact h
    | succ k =>
      have ho : allocOuts n (k + 1) = n :: allocOuts (n + 1) k := by
        unfold allocOuts
        rw [List.range_succ_eq_map]
        simp only [List.map_cons, List.map_map, Nat.zero_add]
        congr 1
        apply List.map_congr_left
        intro a _
        show (a + 1) + n = a + (n + 1)
        omega
      rw [ho]
      unfold storeOuts
      simp only []
      have h1 := sdb_setInstance st s d d.ident n n h (Nat.le_refl _)
      have h2 := ih (n + 1) k _ h1
      have : n + 1 + k = n + (k + 1) := by omega
      rw [this] at h2
      exact h2

/-! ### the counter is untouched by storing -/

@[simp] theorem track_next_eq (st : State) (s : Nat) (v : Val) (disp : Bool) : (track st s v disp).1.next = st.next := by
  unfold track
  split
  · split
    · split <;> rfl
    · split <;> rfl
  · split <;> rfl

@[simp] theorem setInstance_next_eq (st : State) (s : Nat) (d : Desc) (k : Ident) (v : Val) : (setInstance st s d k v).1.next = st.next := by
  unfold setInstance
  split
  · split
    · split <;> rfl
    · rfl
  · simp [putInstance, updScope]
  · simp

@[simp] theorem shareInstance_next_eq (st : State) (s : Nat) (d : Desc) (k : Ident) (v : Val) : (shareInstance st s d k v).next = st.next := by
  unfold shareInstance; split <;> rfl

@[simp] theorem storeOuts_next_eq (s : Nat) : ∀ (sibs : List Desc) (outs : List Inst) (st : State),
    (storeOuts st s sibs outs).1.next = st.next := by
  intro sibs
  induction sibs with
  | nil => intro outs st; simp [storeOuts]
  | cons d ds ih =>
    intro outs st
    cases outs with
    | nil => simp [storeOuts]
    | cons o os => simp [storeOuts, ih]

@[simp] theorem shareAll_next_eq (s self : Nat) (v : Val) : ∀ (sibs : List Desc) (st : State),
    (shareAll st s self sibs v).next = st.next := by
  intro sibs
  induction sibs with
  | nil => intro st; rfl
  | cons d ds ih =>
    intro st
    unfold shareAll
    simp only [List.foldl_cons]
    have := ih (if d.id = self then st else shareInstance st s d d.ident v)
    unfold shareAll at this
    rw [this]
    split <;> simp

@[simp] theorem markAbsent_next_eq (st : State) (s : Nat) (sibs0 : List Desc) (nil? : Option Nat) :
    (markAbsent st s sibs0 nil?).next = st.next := by
  unfold markAbsent
  split
  · split <;> simp
  · rfl

/-! ### resolution keeps every disposal list in creation order -/

structure SDStep (st st' : State) : Prop where
  sd : SD st'
  next : st.next ≤ st'.next

theorem SDStep.refl {st : State} (h : SD st) : SDStep st st := ⟨h, Nat.le_refl _⟩
theorem SDStep.trans {a b c : State} (h1 : SDStep a b) (h2 : SDStep b c) : SDStep a c := ⟨h2.sd, Nat.le_trans h1.next h2.next⟩

theorem sd_all (beh : Beh) (descs : List Desc) (is : InstSingleton descs) : ∀ fuel,
    (∀ st s ty key, st.descs = descs → SD st → SDStep st (resolve beh fuel st s ty key).1) ∧
    (∀ st s d, st.descs = descs → d ∈ descs → SD st → SDStep st (resolveDesc beh fuel st s d).1) ∧
    (∀ st s ty grp, st.descs = descs → SD st → SDStep st (getGroup beh fuel st s ty grp).1) ∧
    (∀ st s ds acc, st.descs = descs → (∀ d ∈ ds, d ∈ descs) → SD st → SDStep st (resolveMembers beh fuel st s ds acc).1) ∧
    (∀ st s deps acc, st.descs = descs → SD st → SDStep st (buildArgs beh fuel st s deps acc).1) ∧
    (∀ st s d, st.descs = descs → d ∈ descs → SD st → SDStep st (createInstance beh fuel st s d).1) := by
  intro fuel
  induction fuel with
  | zero =>
    refine ⟨?_, ?_, ?_, ?_, ?_, ?_⟩ <;> intros <;>
      simp [resolve, resolveDesc, getGroup, resolveMembers, buildArgs, createInstance] <;> exact SDStep.refl ‹_›
  | succ f ih =>
    obtain ⟨ihR, ihD, ihG, ihM, ihA, ihC⟩ := ih
    refine ⟨?_, ?_, ?_, ?_, ?_, ?_⟩
    · intro st s ty key hd h
      unfold resolve
      split; · exact SDStep.refl h
      split; · exact SDStep.refl h
      split; · exact SDStep.refl h
      split; · exact SDStep.refl h
      split
      · exact SDStep.refl h
      next d hfd => exact ihD st s d hd (by rw [hd] at hfd; exact findService_mem hfd) h
    · intro st s d hd hm h
      unfold resolveDesc
      split
      · split <;> exact SDStep.refl h
      · split
        · exact SDStep.refl h
        · exact SDStep.refl h
        · exact ihC st s d hd hm h
      · exact ihC st s d hd hm h
    · intro st s ty grp hd h
      unfold getGroup
      split; · exact SDStep.refl h
      exact ihM st s _ [] hd (fun d hdm => by rw [hd] at hdm; exact groupMembers_mem hdm) h
    · intro st s ds acc hd hds h
      cases ds with
      | nil => unfold resolveMembers; exact SDStep.refl h
      | cons d rest =>
        rw [resolveMembers_cons]
        have h1 := ihD st s d hd (hds d (List.mem_cons_self ..)) h
        have hd1 : (resolveDesc beh f st s d).1.descs = descs := by rw [(descs_frame beh f).2.1]; exact hd
        have hrest : ∀ x ∈ rest, x ∈ descs := fun x hx => hds x (List.mem_cons_of_mem _ hx)
        unfold membersStep
        split
        · exact h1.trans (ihM _ s rest _ hd1 hrest h1.sd)
        · exact h1.trans (ihM _ s rest _ hd1 hrest h1.sd)
        · exact h1
    · intro st s deps acc hd h
      cases deps with
      | nil => unfold buildArgs; exact SDStep.refl h
      | cons dep rest =>
        rw [buildArgs_cons]
        have h1 : SDStep st (if dep.grp != 0 then getGroup beh f st s dep.ty dep.grp else resolve beh f st s dep.ty dep.key).1 ∧
            (if dep.grp != 0 then getGroup beh f st s dep.ty dep.grp else resolve beh f st s dep.ty dep.key).1.descs = descs := by
          split
          · exact ⟨ihG st s _ _ hd h, by rw [(descs_frame beh f).2.2.1]; exact hd⟩
          · exact ⟨ihR st s _ _ hd h, by rw [(descs_frame beh f).1]; exact hd⟩
        generalize (if dep.grp != 0 then getGroup beh f st s dep.ty dep.grp else resolve beh f st s dep.ty dep.key) = r at h1
        unfold argsStep
        split
        · exact h1.1.trans (ihA r.1 s rest _ h1.2 h1.1.sd)
        · split
          · exact h1.1.trans (ihA r.1 s rest _ h1.2 h1.1.sd)
          · exact h1.1
    · intro st s d hd hm h
      unfold createInstance
      split
      next v hk =>
        simp only []
        have hl : d.life = .singleton := is d hm v hk
        have h1 : SDb (setInstance st s d d.ident (.inst v)).1 st.next := sdb_setInstance_singleton st s d d.ident _ _ h hl
        split
        · exact ⟨by show SDb _ _; rw [setInstance_next_eq]; exact h1, by rw [setInstance_next_eq]; exact Nat.le_refl _⟩
        · exact ⟨by show SDb _ _; rw [shareAll_next_eq, setInstance_next_eq]; exact sdb_shareAll _ _ _ _ _ _ h1,
            by rw [shareAll_next_eq, setInstance_next_eq]; exact Nat.le_refl _⟩
      · simp only []
        have hA := ihA st s d.deps [] hd h
        generalize buildArgs beh f st s d.deps [] = ra at hA
        have h2 : SDb (bumpInv ra.1 d.ctor) (bumpInv ra.1 d.ctor).next := sdb_of_scope_eq rfl hA.sd
        have hn2 : st.next ≤ (bumpInv ra.1 d.ctor).next := hA.next
        split
        · exact hA
        · split
          · exact ⟨sdb_of_scope_eq rfl h2, hn2⟩
          · exact ⟨sdb_of_scope_eq rfl h2, hn2⟩
          · exact ⟨sdb_of_scope_eq rfl h2, hn2⟩
          · split
            · refine ⟨?_, ?_⟩
              · show SDb _ _
                rw [setInstance_next_eq]
                exact sdb_setInstance_unit _ _ _ _ _ (sdb_of_scope_eq rfl h2)
              · rw [setInstance_next_eq]; exact hn2
            · simp only []
              refine ⟨?_, ?_⟩
              · show SDb _ _
                rw [markAbsent_next_eq, storeOuts_next_eq]
                apply sdb_markAbsent
                exact sdb_storeOuts s _ _ _ _ (sdb_of_scope_eq rfl h2)
              · rw [markAbsent_next_eq, storeOuts_next_eq]
                exact Nat.le_trans hn2 (Nat.le_add_right _ _)
            · split
              · refine ⟨?_, ?_⟩
                · show SDb _ _
                  rw [setInstance_next_eq]
                  exact sdb_setInstance _ _ _ _ _ _ (sdb_of_scope_eq rfl h2) (Nat.le_refl _)
                · rw [setInstance_next_eq]
                  exact Nat.le_trans hn2 (Nat.le_add_right _ _)
              · refine ⟨?_, ?_⟩
                · show SDb _ _
                  rw [shareAll_next_eq, setInstance_next_eq]
                  apply sdb_shareAll
                  exact sdb_setInstance _ _ _ _ _ _ (sdb_of_scope_eq rfl h2) (Nat.le_refl _)
                · rw [shareAll_next_eq, setInstance_next_eq]
                  exact Nat.le_trans hn2 (Nat.le_add_right _ _)

/-! ### `Close` only empties lists -/

structure DispShrink (st st' : State) : Prop where
  next : st'.next = st.next
  lists : ∀ x, dispOf st' x = dispOf st x ∨ dispOf st' x = []

theorem DispShrink.refl (st : State) : DispShrink st st := ⟨rfl, fun _ => Or.inl rfl⟩
theorem DispShrink.trans {a b c : State} (h1 : DispShrink a b) (h2 : DispShrink b c) : DispShrink a c :=
  ⟨h2.next.trans h1.next, fun x => by
    rcases h2.lists x with h | h
    · rcases h1.lists x with h' | h'
      · exact Or.inl (h.trans h')
      · exact Or.inr (h.trans h')
    · exact Or.inr h⟩

theorem DispShrink.sd {st st' : State} (h : DispShrink st st') (sd : SD st) : SD st' := by
  intro x
  show SortedBelow (dispOf st' x) st'.next
  rw [h.next]
  rcases h.lists x with e | e
  · rw [e]; exact sd x
  · rw [e]; exact sortedBelow_nil _

theorem dispShrink_upd (st : State) (s : Nat) (g : ScopeSt → ScopeSt)
    (hg : ∀ sc, (g sc).disposables = sc.disposables ∨ (g sc).disposables = none) : DispShrink st (updScope st s g) := by
  refine ⟨rfl, fun x => ?_⟩
  unfold dispOf
  rw [scope_upd]; split
  next hx =>
    subst hx
    rcases hg (st.scope x) with h | h
    · exact Or.inl (by rw [h])
    · exact Or.inr (by rw [h]; rfl)
  · exact Or.inl rfl

theorem dispShrink_of_eq {st st' : State} (hs : st'.scope = st.scope) (hn : st'.next = st.next) : DispShrink st st' :=
  ⟨hn, fun x => Or.inl (by unfold dispOf; rw [hs])⟩

theorem dispShrink_detach (st : State) (s : Nat) : DispShrink st (detach st s) := by
  refine ⟨?_, fun x => Or.inl ?_⟩
  · unfold detach; split <;> rfl
  · unfold dispOf; rw [detach_scope]; split <;> rfl

theorem dispShrink_close (beh : Beh) (order : List Nat → List Nat) : ∀ fuel,
    (∀ st s, DispShrink st (closeScope beh order fuel st s).1) ∧
    (∀ st l, DispShrink st (closeChildren beh order fuel st l).1) := by
  intro fuel
  induction fuel with
  | zero => exact ⟨fun st s => by simp [closeScope]; exact DispShrink.refl st, fun st l => by simp [closeChildren]; exact DispShrink.refl st⟩
  | succ f ih =>
    obtain ⟨ihS, ihC⟩ := ih
    refine ⟨?_, ?_⟩
    · intro st s
      unfold closeScope
      split
      · exact DispShrink.refl st
      · simp only []
        have h1a : DispShrink st (markDisposed st s) := by
          unfold markDisposed; exact dispShrink_upd st s _ (fun _ => Or.inl rfl)
        have h1b : DispShrink (markDisposed st s) (takeChildren (markDisposed st s) s) := by
          unfold takeChildren; exact dispShrink_upd _ s _ (fun _ => Or.inl rfl)
        have h1 := h1a.trans h1b
        have h2 := ihC (takeChildren (markDisposed st s) s) (order ((st.scope s).children.getD []))
        generalize closeChildren beh order f (takeChildren (markDisposed st s) s) (order ((st.scope s).children.getD [])) = r1 at h2
        have h3 : DispShrink r1.1 (takeDisposables r1.1 s) := by
          unfold takeDisposables; exact dispShrink_upd _ s _ (fun _ => Or.inr rfl)
        have h4 : DispShrink (takeDisposables r1.1 s)
            (closeLoop beh s (takeDisposables r1.1 s) ((r1.1.scope s).disposables.getD []).reverse).1 := by
          rw [closeLoop_eq]; exact dispShrink_of_eq rfl rfl
        generalize closeLoop beh s (takeDisposables r1.1 s) ((r1.1.scope s).disposables.getD []).reverse = r2 at h4
        have h5 := dispShrink_detach r2.1 s
        have h6 : DispShrink (detach r2.1 s) (dropInstances (detach r2.1 s) s) := by
          unfold dropInstances; exact dispShrink_upd _ s _ (fun _ => Or.inl rfl)
        exact ((((h1.trans h2).trans h3).trans h4).trans h5).trans h6
    · intro st l
      cases l with
      | nil => unfold closeChildren; exact DispShrink.refl st
      | cons c rest =>
        unfold closeChildren
        exact (ihS st c).trans (ihC _ rest)

/-! ### scope creation, the operations, Build -/

theorem sd_alloc {st : State} (h : SD st) (par : Option Nat) (ctx : Nat) : SD (allocScope st par ctx) := by
  intro x
  show SortedBelow (dispOf (allocScope st par ctx) x) st.next
  unfold dispOf
  rw [alloc_scope]; split
  · exact sortedBelow_nil _
  · exact h x

theorem sd_runInitializers (beh : Beh) (descs : List Desc) (is : InstSingleton descs) (s : Nat) :
    ∀ (ids : List Nat) (st : State), st.descs = descs → SD st → SD (runInitializers beh st s ids).1 := by
  intro ids
  induction ids with
  | nil => intro st _ h; exact h
  | cons id rest ih =>
    intro st hd h
    unfold runInitializers
    split
    · exact ih st hd h
    next d hfd =>
      simp only []
      have hm : d ∈ descs := by rw [← hd]; exact findDesc_mem' hfd
      have h1 := (sd_all beh descs is (fuelFor st)).2.2.2.2.2 st s d hd hm h
      have hd1 : (createInstance beh (fuelFor st) st s d).1.descs = descs := by
        rw [(descs_frame beh _).2.2.2.2.2]; exact hd
      split
      · exact ih _ hd1 h1.sd
      · exact h1.sd

theorem sd_newScope (beh : Beh) (descs : List Desc) (is : InstSingleton descs) (st : State) (par : Option Nat) (ctx : Nat)
    (ri : Bool) (hd : st.descs = descs) (h : SD st) : SD (newScope beh st par ctx ri).1 := by
  unfold newScope
  simp only []
  split
  · have h1 := sd_runInitializers beh descs is st.nscopes (allocScope st par ctx).initializers (allocScope st par ctx) hd
      (sd_alloc h par ctx)
    generalize runInitializers beh (allocScope st par ctx) st.nscopes (allocScope st par ctx).initializers = r at h1
    split
    · exact h1
    · exact ((dispShrink_close beh id _).1 r.1 st.nscopes).sd h1
  · exact sd_alloc h par ctx

theorem sd_of_fields {st st' : State} (hs : ∀ x, (st'.scope x).disposables = (st.scope x).disposables) (hn : st'.next = st.next)
    (h : SD st) : SD st' := by
  intro x
  show SortedBelow (dispOf st' x) st'.next
  unfold dispOf; rw [hs, hn]; exact h x

theorem newScope_descs (beh : Beh) (st : State) (par : Option Nat) (ctx : Nat) (ri : Bool) (wf : WF st.descs) (i : InitOK st) :
    (newScope beh st par ctx ri).1.descs = st.descs := (newScope_stable beh st par ctx ri wf i).descs

theorem sd_stepOp (beh : Beh) (descs : List Desc) (is : InstSingleton descs) (st : State) (op : Op) (hd : st.descs = descs)
    (wf : WF st.descs) (i : InitOK st) (h : SD st) : SD (stepOp beh st op) := by
  cases op with
  | get s ty key =>
    cases s with
    | none =>
      show SD (providerGet beh st ty key).1
      unfold providerGet; split
      · exact h
      · exact ((sd_all beh descs is _).1 st rootScope ty key hd h).sd
    | some s => exact ((sd_all beh descs is _).1 st s ty key hd h).sd
  | getGroup s ty grp =>
    cases s with
    | none =>
      show SD (providerGetGroup beh st ty grp).1
      unfold providerGetGroup; split
      · exact h
      · exact ((sd_all beh descs is _).2.2.1 st rootScope ty grp hd h).sd
    | some s => exact ((sd_all beh descs is _).2.2.1 st s ty grp hd h).sd
  | createScope p ctx =>
    cases p with
    | none =>
      show SD (providerCreateScope beh st ctx).1
      unfold providerCreateScope
      split
      · exact h
      · have h1 := sd_newScope beh descs is st none ctx true hd h
        generalize newScope beh st none ctx true = r at h1
        simp only []
        split
        · exact h1
        · split
          · exact ((dispShrink_close beh id _).1 r.1 _).sd h1
          · exact sd_of_fields (fun _ => rfl) rfl h1
    | some p =>
      show SD (scopeCreateScope beh st p ctx).1
      unfold scopeCreateScope
      split
      · exact h
      · have h1 := sd_newScope beh descs is st (some p) ctx true hd h
        generalize newScope beh st (some p) ctx true = r at h1
        simp only []
        split
        · exact h1
        next s _ =>
          have h2 : SD (addChild r.1 p s) := by
            refine sd_of_fields (st := r.1) (fun x => ?_) rfl h1
            rw [addChild_scope]; split
            next hx => subst hx; rfl
            · rfl
          split
          · exact ((dispShrink_close beh id _).1 r.1 _).sd h1
          · split
            · exact ((dispShrink_close beh id _).1 _ _).sd h2
            · exact sd_of_fields (fun _ => rfl) rfl h2
  | closeScope s order => exact ((dispShrink_close beh order _).1 st s).sd h

theorem sd_run (beh : Beh) (descs : List Desc) (is : InstSingleton descs) : ∀ (ops : List Op) (st : State), st.descs = descs →
    WF st.descs → InitOK st → SD st → SD (run beh st ops) := by
  intro ops
  induction ops with
  | nil => intro st _ _ _ h; exact h
  | cons op rest ih =>
    intro st hd wf i h
    have s1 := stepOp_stable beh st op wf i
    exact ih _ (s1.descs.trans hd) (s1.wf wf) (s1.initOK i) (sd_stepOp beh descs is st op hd wf i h)

theorem sd_createSingletons (beh : Beh) (descs : List Desc) (is : InstSingleton descs) : ∀ (order : List Nat) (st : State),
    st.descs = descs → SD st → SD (createSingletons beh st order).1 ∧ (createSingletons beh st order).1.descs = descs := by
  intro order
  induction order with
  | nil => intro st hd h; exact ⟨h, hd⟩
  | cons id rest ih =>
    intro st hd h
    unfold createSingletons
    split
    · exact ih st hd h
    next d hfd =>
      have hm : d ∈ descs := by rw [← hd]; exact findDesc_mem' hfd
      split
      · exact ih st hd h
      · split
        · exact ⟨h, hd⟩
        · split
          · exact ih st hd h
          · simp only []
            have h1 := (sd_all beh descs is (fuelFor st)).2.2.2.2.2 st rootScope d hd hm h
            have hd1 : (createInstance beh (fuelFor st) st rootScope d).1.descs = descs := by
              rw [(descs_frame beh _).2.2.2.2.2]; exact hd
            split
            · exact ih _ hd1 h1.sd
            · exact ⟨h1.sd, hd1⟩

/-- the state a successful Build returns has every disposal list in creation order -/
theorem sd_buildRuntime (beh : Beh) (descs : List Desc) (is : InstSingleton descs) (order : List Nat) (st : State)
    (h : buildRuntime beh descs order = (st, .ok ())) : SD st := by
  unfold buildRuntime at h
  simp only [newScope, Bool.false_eq_true, ↓reduceIte] at h
  have h0 : SD ({ descs := descs, next := firstFresh descs } : State) := fun x => sortedBelow_nil _
  have h1 := sd_alloc h0 none 0
  obtain ⟨h2, hd2⟩ := sd_createSingletons beh descs is order _ rfl h1
  generalize createSingletons beh (allocScope { descs := descs, next := firstFresh descs } none 0) order = r2 at h h2 hd2
  obtain ⟨st2, res2⟩ := r2
  cases res2 with
  | error e => simp only [] at h; split at h <;> cases h
  | ok u =>
    simp only [] at h
    have h3 : SD { st2 with initializers := (descs.filter isInitializer).map (·.id) } := sd_of_fields (fun _ => rfl) rfl h2
    have h4 := sd_runInitializers beh descs is rootScope ((descs.filter isInitializer).map (·.id))
      { st2 with initializers := (descs.filter isInitializer).map (·.id) } hd2 h3
    generalize runInitializers beh { st2 with initializers := (descs.filter isInitializer).map (·.id) } rootScope
      ((descs.filter isInitializer).map (·.id)) = r4 at h h4
    obtain ⟨st4, res4⟩ := r4
    cases res4 with
    | error e => simp only [] at h; split at h <;> cases h
    | ok u =>
      simp only [Prod.mk.injEq] at h
      obtain ⟨rfl, _⟩ := h
      exact h4

end Godi.Container
