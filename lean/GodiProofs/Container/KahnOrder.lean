import GodiProofs.Container.BuildTotal
import GodiProofs.Props.C06
/-!
# The order the topological sort delivers is a creation order

`ValidOrder (buildGraph descs) l` (`Props/C06`: `l` lists every graph node once, every dependency of a node before the
node) is what `TopologicalSort` returns for the graph Build made. Mapped to descriptor ids (`orderIds`), it lists every
registration, and every singleton *after* every singleton it reaches through declared dependencies — plain, keyed,
parameter-object fields, and through a group's node every member — passing through non-singleton registrations. So it
satisfies the two premises of `build_succeeds`: with the order Build itself computes, a valid registration set whose
constructors succeed is built successfully.
-/
namespace Godi.Container
open Godi.Graph Godi.Spec
open Godi.Kahn (Key)
open Godi.Props.C06 (ValidOrder)

def keyToId (descs : List Desc) (k : Key) : Option Nat :=
  (descs.find? (fun d => encode d.ident == k)).map (·.id)

/-- the creation order: the sorted node keys that belong to registrations, as descriptor ids -/
def orderIds (descs : List Desc) (l : List Key) : List Nat := l.filterMap (keyToId descs)

/-! ### list plumbing -/

theorem eq_of_map_nodup {α} (f : α → Nat) : ∀ (l : List α), (l.map f).Nodup → ∀ {d d' : α}, d ∈ l → d' ∈ l → f d' = f d → d' = d := by
  intro l
  induction l with
  | nil => intro _ d d' hd; cases hd
  | cons x rest ih =>
    intro hn d d' hd hd' h
    simp only [List.map_cons, List.nodup_cons] at hn
    rcases List.mem_cons.1 hd with rfl | h1
    · rcases List.mem_cons.1 hd' with rfl | h2
      · rfl
      · exact absurd (by rw [← h]; exact List.mem_map_of_mem h2) hn.1
    · rcases List.mem_cons.1 hd' with rfl | h2
      · exact absurd (by rw [h]; exact List.mem_map_of_mem h1) hn.1
      · exact ih hn.2 h1 h2 h

theorem split_of_idx_lt : ∀ (l : List Nat) (a b : Nat), a ∈ l → b ∈ l → l.idxOf b < l.idxOf a →
    ∃ l1 l2 l3, l = l1 ++ b :: (l2 ++ a :: l3) := by
  intro l
  induction l with
  | nil => intro a b ha; cases ha
  | cons x rest ih =>
    intro a b ha hb hlt
    by_cases hxb : x = b
    · subst hxb
      have hax : a ≠ x := by
        intro e; subst e; exact Nat.lt_irrefl _ hlt
      have har : a ∈ rest := by
        rcases List.mem_cons.1 ha with h | h
        · exact absurd h hax
        · exact h
      obtain ⟨l2, l3, h23⟩ := List.append_of_mem har
      exact ⟨[], l2, l3, by rw [h23]; rfl⟩
    · have hxa : x ≠ a := by
        intro e; subst e
        rw [List.idxOf_cons_self] at hlt
        exact Nat.not_lt_zero _ hlt
      have har : a ∈ rest := by
        rcases List.mem_cons.1 ha with h | h
        · exact absurd h.symm hxa
        · exact h
      have hbr : b ∈ rest := by
        rcases List.mem_cons.1 hb with h | h
        · exact absurd h.symm hxb
        · exact h
      have e1 : (x :: rest).idxOf a = rest.idxOf a + 1 := by
        rw [List.idxOf_cons]; have : (x == a) = false := by simp [hxa]
        simp [this]
      have e2 : (x :: rest).idxOf b = rest.idxOf b + 1 := by
        rw [List.idxOf_cons]; have : (x == b) = false := by simp [hxb]
        simp [this]
      rw [e1, e2] at hlt
      obtain ⟨l1, l2, l3, h⟩ := ih a b har hbr (Nat.lt_of_succ_lt_succ hlt)
      exact ⟨x :: l1, l2, l3, by rw [h]; rfl⟩

theorem prefix_unique : ∀ (p1 p2 q1 q2 : List Nat) (x : Nat), (p1 ++ x :: q1).Nodup → p1 ++ x :: q1 = p2 ++ x :: q2 → p1 = p2 := by
  intro p1
  induction p1 with
  | nil =>
    intro p2 q1 q2 x hn h
    cases p2 with
    | nil => rfl
    | cons y p2' =>
      simp only [List.nil_append, List.cons_append, List.cons.injEq] at h
      obtain ⟨hxy, hq⟩ := h
      simp only [List.nil_append, List.nodup_cons] at hn
      exact absurd (by rw [hq]; simp) hn.1
  | cons y p1' ih =>
    intro p2 q1 q2 x hn h
    cases p2 with
    | nil =>
      simp only [List.nil_append, List.cons_append, List.cons.injEq] at h
      obtain ⟨hyx, hq⟩ := h
      subst hyx
      simp only [List.cons_append, List.nodup_cons] at hn
      exact absurd (by simp) hn.1
    | cons z p2' =>
      simp only [List.cons_append, List.cons.injEq] at h
      obtain ⟨hyz, hrest⟩ := h
      subst hyz
      simp only [List.cons_append, List.nodup_cons] at hn
      rw [ih p2' q1 q2 x hn.2 hrest]

theorem nodup_filterMap_of_inj {f : Nat → Option Nat} : ∀ (l : List Nat),
    (∀ a ∈ l, ∀ b ∈ l, ∀ i, f a = some i → f b = some i → a = b) → l.Nodup → (l.filterMap f).Nodup := by
  intro l
  induction l with
  | nil => intro _ _; simp
  | cons x rest ih =>
    intro hinj hn
    simp only [List.nodup_cons] at hn
    have hrest := ih (fun a ha b hb i h1 h2 => hinj a (List.mem_cons_of_mem _ ha) b (List.mem_cons_of_mem _ hb) i h1 h2) hn.2
    rw [List.filterMap_cons]
    split
    · exact hrest
    next i hi =>
      rw [List.nodup_cons]
      refine ⟨?_, hrest⟩
      intro hm
      obtain ⟨b, hb, hfb⟩ := List.mem_filterMap.1 hm
      have := hinj x (List.mem_cons_self ..) b (List.mem_cons_of_mem _ hb) i hi hfb
      subst this
      exact hn.1 hb

/-! ### keys and registrations -/

attribute [local irreducible] encode

theorem descKeys_nodup {descs : List Desc} (hk : KeysDistinct descs) : (descs.map (fun d => encode d.ident)).Nodup := by
  unfold KeysDistinct graphInput at hk
  simp only [List.map_append, List.map_map] at hk
  exact (List.nodup_append.1 hk).1

theorem keyToId_of_mem {descs : List Desc} (hk : KeysDistinct descs) {d : Desc} (hd : d ∈ descs) :
    keyToId descs (encode d.ident) = some d.id := by
  unfold keyToId
  cases hf : descs.find? (fun x => encode x.ident == encode d.ident) with
  | none =>
    have := List.find?_eq_none.1 hf d hd
    exact absurd (beq_self_eq_true (encode d.ident)) this
  | some d0 =>
    have hd0 : d0 ∈ descs := List.mem_of_find?_eq_some hf
    have he : encode d0.ident = encode d.ident := by
      have h0 := List.find?_some hf
      exact eq_of_beq h0
    rw [eq_of_map_nodup (fun x => encode x.ident) descs (descKeys_nodup hk) hd hd0 he]
    rfl

theorem keyToId_some {descs : List Desc} {k : Key} {i : Nat} (h : keyToId descs k = some i) :
    ∃ d ∈ descs, encode d.ident = k ∧ d.id = i := by
  unfold keyToId at h
  cases hf : descs.find? (fun x => encode x.ident == k) with
  | none => rw [hf] at h; cases h
  | some d0 =>
    rw [hf] at h
    simp only [Option.map_some, Option.some.injEq] at h
    have h0 := List.find?_some hf
    exact ⟨d0, List.mem_of_find?_eq_some hf, eq_of_beq h0, h⟩

theorem orderIds_nodup {descs : List Desc} (wf : WF descs) {l : List Key} (hn : l.Nodup) : (orderIds descs l).Nodup := by
  unfold orderIds
  apply nodup_filterMap_of_inj l _ hn
  intro a _ b _ i ha hb
  obtain ⟨d1, hd1, e1, i1⟩ := keyToId_some ha
  obtain ⟨d2, hd2, e2, i2⟩ := keyToId_some hb
  have h1 := wf.uniqueIds d1 hd1
  have h2 := wf.uniqueIds d2 hd2
  rw [i1] at h1; rw [i2] at h2
  rw [h1] at h2
  simp only [Option.some.injEq] at h2
  rw [← e1, ← e2, h2]

/-! ### along the dependencies the sorted order decreases -/

theorem reach_idx_lt {descs : List Desc} (hk : KeysDistinct descs) (hdk : DepKeys descs) {l : List Key}
    (hv : ValidOrder (buildGraph descs) l) : ∀ {d t : Desc}, d ∈ descs → ReachLong descs d t →
    encode t.ident ∈ l ∧ l.idxOf (encode t.ident) < l.idxOf (encode d.ident) := by
  intro d t hd hr
  induction hr with
  | @direct d t dep hdep hp =>
    have hdl : encode d.ident ∈ l := hv.1.mem_iff.2 (desc_node descs d hd)
    have e1 : encode (depIdent dep) ∈ (buildGraph descs).edges (encode d.ident) := (desc_edges descs hk d hd _).2 ⟨dep, hdep, rfl⟩
    obtain ⟨m1, i1⟩ := hv.2 _ hdl _ e1
    rcases hp with ⟨hg, hm⟩ | ⟨hg, hf⟩
    · have hkey := hdk d hd dep hdep hg
      have hnode : encode (depIdent dep) = encode ⟨dep.ty, 0, dep.grp⟩ := by unfold depIdent; rw [hkey]
      have e2 := group_edges descs hk dep.ty dep.grp t hm
      rw [← hnode] at e2
      obtain ⟨m2, i2⟩ := hv.2 _ m1 _ e2
      exact ⟨m2, Nat.lt_trans i2 i1⟩
    · have hp' := List.find?_some hf
      simp only [Bool.and_eq_true, beq_iff_eq] at hp'
      have hid : t.ident = depIdent dep := by
        unfold depIdent
        cases hti : t.ident with
        | mk ty key grp => rw [hti] at hp'; simp at hp'; simp [hp'.1.1, hp'.1.2, hp'.2, hg]
      rw [hid]; exact ⟨m1, i1⟩
  | @via d m t dep hdep hp _ _ ih =>
    have hm : m ∈ descs := provides_mem hp
    have step : encode m.ident ∈ l ∧ l.idxOf (encode m.ident) < l.idxOf (encode d.ident) := by
      have hdl : encode d.ident ∈ l := hv.1.mem_iff.2 (desc_node descs d hd)
      have e1 : encode (depIdent dep) ∈ (buildGraph descs).edges (encode d.ident) := (desc_edges descs hk d hd _).2 ⟨dep, hdep, rfl⟩
      obtain ⟨m1, i1⟩ := hv.2 _ hdl _ e1
      rcases hp with ⟨hg, hmm⟩ | ⟨hg, hf⟩
      · have hkey := hdk d hd dep hdep hg
        have hnode : encode (depIdent dep) = encode ⟨dep.ty, 0, dep.grp⟩ := by unfold depIdent; rw [hkey]
        have e2 := group_edges descs hk dep.ty dep.grp m hmm
        rw [← hnode] at e2
        obtain ⟨m2, i2⟩ := hv.2 _ m1 _ e2
        exact ⟨m2, Nat.lt_trans i2 i1⟩
      · have hp' := List.find?_some hf
        simp only [Bool.and_eq_true, beq_iff_eq] at hp'
        have hid : m.ident = depIdent dep := by
          unfold depIdent
          cases hti : m.ident with
          | mk ty key grp => rw [hti] at hp'; simp at hp'; simp [hp'.1.1, hp'.1.2, hp'.2, hg]
        rw [hid]; exact ⟨m1, i1⟩
    obtain ⟨a, b⟩ := ih hm
    exact ⟨a, Nat.lt_trans b step.2⟩

/-- THE SORTED ORDER IS A CREATION ORDER -/
theorem sorted_order_is_creation_order (descs : List Desc) (wf : WF descs) (hk : KeysDistinct descs) (hdk : DepKeys descs)
    (l : List Key) (hv : ValidOrder (buildGraph descs) l) :
    (∀ d ∈ descs, d.life = .singleton → d.id ∈ orderIds descs l) ∧
    (∀ pre id post, orderIds descs l = pre ++ id :: post → ∀ d, findDesc descs id = some d → d.life = .singleton →
      ∀ t, ReachLong descs d t → t.life = .singleton → t.id ∈ pre) := by
  have hln : l.Nodup := hv.1.nodup_iff.2 (buildGraph_base descs).nodesNodup
  refine ⟨?_, ?_⟩
  · intro d hd _
    unfold orderIds
    exact List.mem_filterMap.2 ⟨encode d.ident, hv.1.mem_iff.2 (desc_node descs d hd), keyToId_of_mem hk hd⟩
  · intro pre id post ho d hfd _ t hr _
    have hd : d ∈ descs := findDesc_mem' hfd
    have hid : d.id = id := findDesc_id hfd
    have htd : t ∈ descs := reachLong_mem hr
    obtain ⟨htl, hlt⟩ := reach_idx_lt hk hdk hv hd hr
    have hdl : encode d.ident ∈ l := hv.1.mem_iff.2 (desc_node descs d hd)
    obtain ⟨l1, l2, l3, hl⟩ := split_of_idx_lt l _ _ hdl htl hlt
    have hsplit : orderIds descs l = (orderIds descs l1 ++ t.id :: orderIds descs l2) ++ d.id :: orderIds descs l3 := by
      unfold orderIds
      rw [hl]
      simp only [List.filterMap_append, List.filterMap_cons, keyToId_of_mem hk htd, keyToId_of_mem hk hd, List.append_assoc,
        List.cons_append]
    have hnd := orderIds_nodup wf (descs := descs) hln
    rw [hsplit] at hnd ho
    rw [← hid] at ho
    have := prefix_unique _ _ _ _ _ hnd ho
    rw [← this]
    simp

/-- BUILD SUCCEEDS WITH THE ORDER IT COMPUTES ITSELF -/
theorem build_succeeds_with_sorted_order (beh : Beh) (gb : GoodBeh beh) (descs : List Desc)
    (hyp : failedHyps descs = []) (hv : verdict descs = .ok) (l : List Key) (hl : ValidOrder (buildGraph descs) l) :
    (build beh descs (orderIds descs l)).2 = .ok () := by
  obtain ⟨wf, _, _, _, hk, _, _, _, _, hdk⟩ := hyps_of_check hyp
  obtain ⟨hall, hord⟩ := sorted_order_is_creation_order descs wf hk hdk l hl
  exact build_succeeds beh gb descs (orderIds descs l) hyp hv hall hord

theorem addAll_eq_addAllDeferred : ∀ (regs : List (Key × Nat × List Key)) (g : Graph),
    Godi.Props.C06.addAll g regs = addAllDeferred g regs := by
  intro regs
  induction regs with
  | nil => intro g; rfl
  | cons r rest ih =>
    intro g
    obtain ⟨k, p, ds⟩ := r
    show Godi.Props.C06.addAll (addProviderDeferred g k p ds) rest = addAllDeferred (addProviderDeferred g k p ds) rest
    exact ih _

/-- END TO END: phases 1-3 of Build on the model (deferred adds, cycle detection, the topological sort, in any map
iteration orders) hand the creation loop an order with which Build succeeds. -/
theorem build_succeeds_with_the_order_the_sort_returns (beh : Beh) (gb : GoodBeh beh) (descs : List Desc)
    (hyp : failedHyps descs = []) (hv : verdict descs = .ok)
    (eorder norder norder2 : List Key) (g1 g2 : Graph) (r : CycleRes) (l : List Key)
    (he : eorder.Perm (buildGraph descs).ekeys) (hn : norder2.Perm (buildGraph descs).nodes)
    (h1 : detectCyclesWith (buildGraph descs) eorder norder = (g1, r))
    (h2 : topologicalSortWith g1 norder2 = (g2, some l)) :
    (build beh descs (orderIds descs l)).2 = .ok () := by
  have e : buildGraph descs = Godi.Props.C06.addAll {} (graphInput descs) := (addAll_eq_addAllDeferred _ _).symm
  rw [e] at he hn h1
  have hvo := Godi.Props.C06.build_order_valid (graphInput descs) eorder norder norder2 g1 g2 r l he hn h1 h2
  rw [← e] at hvo
  exact build_succeeds_with_sorted_order beh gb descs hyp hv l hvo

end Godi.Container
