import GodiProofs.Container.Stable
/-! What `Close` writes to the log: exactly one `closed` event per drained instance, in list order. -/
namespace Godi.Container

def closedEv (beh : Beh) (st : State) (owner : Nat) (i : Inst) : Event :=
  .closed owner i (!beh.close (st.instMeta i).1 (st.instMeta i).2)

@[simp] theorem logClosed_instMeta (st : State) (o : Nat) (i : Inst) (ok : Bool) :
    (logClosed st o i ok).instMeta = st.instMeta := rfl
@[simp] theorem logClosed_log (st : State) (o : Nat) (i : Inst) (ok : Bool) :
    (logClosed st o i ok).log = st.log ++ [.closed o i ok] := rfl
@[simp] theorem logClosed_scope (st : State) (o : Nat) (i : Inst) (ok : Bool) :
    (logClosed st o i ok).scope = st.scope := rfl

/-- the drain loop: one event per element, in order, whatever fails; everything else untouched -/
theorem closeLoop_spec (beh : Beh) (owner : Nat) : ∀ (l : List Inst) (st : State),
    (closeLoop beh owner st l).1.log = st.log ++ l.map (closedEv beh st owner) ∧
    (closeLoop beh owner st l).1.instMeta = st.instMeta ∧
    (closeLoop beh owner st l).1.scope = st.scope ∧
    (closeLoop beh owner st l).1.provScopes = st.provScopes ∧
    ((closeLoop beh owner st l).2 = true ↔ ∃ i ∈ l, beh.close (st.instMeta i).1 (st.instMeta i).2 = true) := by
  intro l
  induction l with
  | nil => intro st; simp [closeLoop]
  | cons i rest ih =>
    intro st
    unfold closeLoop
    obtain ⟨h1, h2, h3, h4, h5⟩ := ih (logClosed st owner i (!beh.close (st.instMeta i).1 (st.instMeta i).2))
    refine ⟨?_, ?_, ?_, ?_, ?_⟩
    · simp only [h1, logClosed_log, List.map_cons, List.append_assoc, List.cons_append, List.nil_append]
      congr 2
    · simp [h2]
    · simp [h3]
    · rw [h4]; rfl
    · simp only [Bool.or_eq_true, h5, logClosed_instMeta, List.mem_cons]
      constructor
      · rintro (h | ⟨x, hx, hb⟩)
        · exact ⟨i, Or.inl rfl, h⟩
        · exact ⟨x, Or.inr hx, hb⟩
      · rintro ⟨x, rfl | hx, hb⟩
        · exact Or.inl hb
        · exact Or.inr ⟨x, hx, hb⟩

@[simp] theorem updScope_log (st : State) (s : Nat) (f : ScopeSt → ScopeSt) : (updScope st s f).log = st.log := rfl
@[simp] theorem updScope_instMeta (st : State) (s : Nat) (f : ScopeSt → ScopeSt) : (updScope st s f).instMeta = st.instMeta := rfl

theorem detach_log (st : State) (s : Nat) : (detach st s).log = st.log ∧ (detach st s).instMeta = st.instMeta := by
  unfold detach
  split <;> simp

/-- `scope.Close` of an open scope: first everything its children's Close calls log, then exactly
one `closed` event for each instance of its own disposal list, newest first -/
theorem closeScope_log (beh : Beh) (order : List Nat → List Nat) (f : Nat) (st : State) (s : Nat)
    (h : (st.scope s).disposed = false) :
    let r1 := closeChildren beh order f (takeChildren (markDisposed st s) s) (order ((st.scope s).children.getD []))
    (closeScope beh order (f + 1) st s).1.log =
      r1.1.log ++ (((r1.1.scope s).disposables.getD []).reverse).map (closedEv beh r1.1 s) := by
  intro r1
  unfold closeScope
  simp only [h, Bool.false_eq_true, ↓reduceIte]
  have hl := (closeLoop_spec beh s (((r1.1.scope s).disposables.getD []).reverse) (takeDisposables r1.1 s)).1
  simp only [dropInstances, updScope_log, (detach_log _ s).1]
  rw [hl]
  rfl

/-- and it reports an error iff a child's Close reported one or one of its own instances failed -/
theorem closeScope_err (beh : Beh) (order : List Nat → List Nat) (f : Nat) (st : State) (s : Nat)
    (h : (st.scope s).disposed = false) :
    let r1 := closeChildren beh order f (takeChildren (markDisposed st s) s) (order ((st.scope s).children.getD []))
    ((closeScope beh order (f + 1) st s).2 = true ↔
      r1.2 = true ∨ ∃ i ∈ (r1.1.scope s).disposables.getD [], beh.close (r1.1.instMeta i).1 (r1.1.instMeta i).2 = true) := by
  intro r1
  unfold closeScope
  simp only [h, Bool.false_eq_true, ↓reduceIte, Bool.or_eq_true]
  have hl := (closeLoop_spec beh s (((r1.1.scope s).disposables.getD []).reverse) (takeDisposables r1.1 s)).2.2.2.2
  constructor
  · rintro (h1 | h2)
    · exact Or.inl h1
    · obtain ⟨i, hi, hb⟩ := hl.1 h2
      exact Or.inr ⟨i, by simpa using hi, hb⟩
  · rintro (h1 | ⟨i, hi, hb⟩)
    · exact Or.inl h1
    · exact Or.inr (hl.2 ⟨i, by simpa using hi, hb⟩)

end Godi.Container

namespace Godi.Container

/-- `provider.Close` of an open provider: everything logged by closing every tracked scope and then
the root scope comes first; then exactly one `closed` event per singleton disposable, newest first -/
theorem closeProvider_log (beh : Beh) (order : List Nat → List Nat) (st : State) (h : st.disposed = false) :
    let st2 : State := { st with disposed := true, provScopes := none }
    let scopes := order (st.provScopes.getD [])
    let r1 := closeChildren beh order (closeFuel st2 + scopes.length + 2) st2 scopes
    let r2 := closeScope beh order (closeFuel r1.1) r1.1 rootScope
    (closeProvider beh order st).1.log =
      r2.1.log ++ ((r2.1.provDisposables.getD []).reverse).map (closedEv beh r2.1 providerOwner) := by
  intro st2 scopes r1 r2
  unfold closeProvider
  simp only [h, Bool.false_eq_true, ↓reduceIte]
  have hl := (closeLoop_spec beh providerOwner ((r2.1.provDisposables.getD []).reverse)
    { r2.1 with provDisposables := none }).1
  rw [hl]
  rfl

end Godi.Container
