import GodiProofs.Container.ScopedOnce
import GodiProofs.Container.Cascade
import GodiProofs.Container.History
/-! The scoped-once invariant over whole histories of user operations. -/
namespace Godi.Container

/-- what `Close` may do to the scopes: a scope that is open afterwards was open before, with the same
cache; nothing but `closed` events is logged; the registry and the scope counter are untouched -/
structure CloseFrame (st st' : State) : Prop where
  descs : st'.descs = st.descs
  nscopes : st'.nscopes = st.nscopes
  log : ∃ new, st'.log = st.log ++ new ∧ ∀ e ∈ new, ∃ o i ok, e = .closed o i ok
  openSame : ∀ x, (st'.scope x).disposed = false → (st.scope x).disposed = false ∧ (st'.scope x).instances = (st.scope x).instances

theorem CloseFrame.refl (st : State) : CloseFrame st st := ⟨rfl, rfl, ⟨[], by simp, by simp⟩, fun _ h => ⟨h, rfl⟩⟩

theorem CloseFrame.trans {a b c : State} (h1 : CloseFrame a b) (h2 : CloseFrame b c) : CloseFrame a c := by
  obtain ⟨n1, l1, e1⟩ := h1.log
  obtain ⟨n2, l2, e2⟩ := h2.log
  refine ⟨h2.descs.trans h1.descs, h2.nscopes.trans h1.nscopes, ⟨n1 ++ n2, by rw [l2, l1, List.append_assoc], ?_⟩, ?_⟩
  · intro e he; rcases List.mem_append.1 he with h | h
    · exact e1 e h
    · exact e2 e h
  · intro x hx
    obtain ⟨hb, ib⟩ := h2.openSame x hx
    obtain ⟨ha, ia⟩ := h1.openSame x hb
    exact ⟨ha, ib.trans ia⟩

theorem closeFrame_updScope (st : State) (s : Nat) (f : ScopeSt → ScopeSt)
    (h : ∀ sc, (f sc).disposed = false → sc.disposed = false ∧ (f sc).instances = sc.instances) :
    CloseFrame st (updScope st s f) := by
  refine ⟨rfl, rfl, ⟨[], by simp, by simp⟩, ?_⟩
  intro x hx
  by_cases hxs : x = s
  · subst hxs; simp only [updScope, ↓reduceIte] at hx ⊢; exact h _ hx
  · simp only [updScope, hxs, ↓reduceIte] at hx ⊢; exact ⟨hx, by trivial⟩

theorem closeFrame_closeLoop (beh : Beh) (owner : Nat) (l : List Inst) (st : State) :
    CloseFrame st (closeLoop beh owner st l).1 := by
  obtain ⟨h1, _, h3, _, _⟩ := closeLoop_spec beh owner l st
  refine ⟨(closeLoop_stable beh owner l st).descs, ?_, ⟨_, h1, ?_⟩, ?_⟩
  · -- nscopes: the loop only logs
    have : ∀ (l : List Inst) (st : State), (closeLoop beh owner st l).1.nscopes = st.nscopes := by
      intro l
      induction l with
      | nil => intro st; rfl
      | cons i rest ih => intro st; unfold closeLoop; simp only []; rw [ih]; rfl
    exact this l st
  · intro e he
    simp only [List.mem_map] at he
    obtain ⟨i, _, rfl⟩ := he
    exact ⟨_, _, _, rfl⟩
  · intro x hx; rw [h3] at hx ⊢; exact ⟨hx, rfl⟩

theorem closeFrame_detach (st : State) (s : Nat) : CloseFrame st (detach st s) := by
  unfold detach
  have h1 : CloseFrame st (match (st.scope s).parent with
      | some p => updScope st p (fun sc => { sc with children := sc.children.map (fun (l : List Nat) => List.erase l s) })
      | none => st) := by
    split
    · exact closeFrame_updScope st _ _ (fun sc h => ⟨h, rfl⟩)
    · exact CloseFrame.refl st
  exact h1.trans ⟨rfl, rfl, ⟨[], (List.append_nil _).symm, by simp⟩, fun _ h => ⟨h, rfl⟩⟩

theorem closeFrame_close (beh : Beh) (order : List Nat → List Nat) : ∀ fuel,
    (∀ st s, CloseFrame st (closeScope beh order fuel st s).1) ∧
    (∀ st l, CloseFrame st (closeChildren beh order fuel st l).1) := by
  intro fuel
  induction fuel with
  | zero => exact ⟨fun st s => by simp [closeScope]; exact CloseFrame.refl st, fun st l => by simp [closeChildren]; exact CloseFrame.refl st⟩
  | succ f ih =>
    obtain ⟨ihS, ihC⟩ := ih
    refine ⟨?_, ?_⟩
    · intro st s
      unfold closeScope
      split
      · exact CloseFrame.refl st
      · simp only []
        have h1 : CloseFrame st (markDisposed st s) := closeFrame_updScope st s _ (fun sc h => by simp at h)
        have h2 : CloseFrame (markDisposed st s) (takeChildren (markDisposed st s) s) :=
          closeFrame_updScope _ s _ (fun sc h => ⟨h, rfl⟩)
        have hdisp2 : ((takeChildren (markDisposed st s) s).scope s).disposed = true := by
          simp [takeChildren, markDisposed, updScope]
        have h3 := ihC (takeChildren (markDisposed st s) s) (order ((st.scope s).children.getD []))
        have hd3 := (closeScope_dispMono beh order f).2 (takeChildren (markDisposed st s) s)
          (order ((st.scope s).children.getD [])) s hdisp2
        generalize closeChildren beh order f (takeChildren (markDisposed st s) s) (order ((st.scope s).children.getD [])) = r1 at h3 hd3
        have h4 : CloseFrame r1.1 (takeDisposables r1.1 s) := closeFrame_updScope _ s _ (fun sc h => ⟨h, rfl⟩)
        have hd4 : ((takeDisposables r1.1 s).scope s).disposed = true := by
          simpa [takeDisposables, updScope] using hd3
        have h5 := closeFrame_closeLoop beh s ((r1.1.scope s).disposables.getD []).reverse (takeDisposables r1.1 s)
        have hd5 : ((closeLoop beh s (takeDisposables r1.1 s) ((r1.1.scope s).disposables.getD []).reverse).1.scope s).disposed = true := by
          rw [closeLoop_scope]; exact hd4
        generalize closeLoop beh s (takeDisposables r1.1 s) ((r1.1.scope s).disposables.getD []).reverse = r2 at h5 hd5
        have h6 := closeFrame_detach r2.1 s
        have hd6 := detach_disposed_self r2.1 s hd5
        have h7 : CloseFrame (detach r2.1 s) (dropInstances (detach r2.1 s) s) := by
          refine ⟨rfl, rfl, ⟨[], by simp [dropInstances], by simp⟩, ?_⟩
          intro x hx
          by_cases hxs : x = s
          · subst hxs
            have : ((dropInstances (detach r2.1 x) x).scope x).disposed = true := by
              simpa [dropInstances, updScope] using hd6
            rw [this] at hx; cases hx
          · simp only [dropInstances, updScope, hxs, ↓reduceIte] at hx ⊢; exact ⟨hx, by trivial⟩
        exact (((((h1.trans h2).trans h3).trans h4).trans h5).trans h6).trans h7
    · intro st l
      cases l with
      | nil => unfold closeChildren; exact CloseFrame.refl st
      | cons c rest =>
        unfold closeChildren
        exact (ihS st c).trans (ihC _ rest)

theorem countIn_closed (new : List Event) (h : ∀ e ∈ new, ∃ o i ok, e = .closed o i ok) (c s : Nat) : countIn new c s = 0 := by
  unfold countIn
  rw [List.countP_eq_zero]
  intro e he
  obtain ⟨o, i, ok, rfl⟩ := h e he
  simp

/-- Close preserves the scoped-once invariant -/
theorem SInv.close {descs : List Desc} {st st' : State} (inv : SInv descs st) (h : CloseFrame st st') : SInv descs st' := by
  obtain ⟨new, hlog, hnew⟩ := h.log
  have hc : ∀ c s, countIn st'.log c s = countIn st.log c s := by
    intro c s; rw [hlog, countIn_append, countIn_closed new hnew]; rfl
  refine ⟨h.descs.trans inv.descsEq, ?_, ?_, ?_, ?_⟩
  · intro s c hsc; rw [hc]; exact inv.atMost s c hsc
  · intro s c hsc h1 hopen d hd hdc
    rw [hc] at h1
    obtain ⟨ho, hi⟩ := h.openSame s hopen
    unfold Cached; rw [hi]
    exact inv.stored s c hsc h1 ho d hd hdc
  · intro s hopen
    obtain ⟨ho, hi⟩ := h.openSame s hopen
    rw [hi]; exact inv.openOK s ho
  · intro s hs c; rw [hc]; rw [h.nscopes] at hs; exact inv.fresh s hs c

end Godi.Container

namespace Godi.Container

/-- a bound above every rank of the registry -/
def rankBound (descs : List Desc) (rank : Nat → Nat) : Nat := (descs.map (fun d => rank d.ctor)).foldr max 0 + 1

theorem rank_lt_bound (descs : List Desc) (rank : Nat → Nat) (d : Desc) (hd : d ∈ descs) :
    rank d.ctor < rankBound descs rank := by
  unfold rankBound
  have : ∀ (l : List Nat) (x : Nat), x ∈ l → x ≤ l.foldr max 0 := by
    intro l
    induction l with
    | nil => intro x hx; simp at hx
    | cons a rest ih =>
      intro x hx
      simp only [List.foldr_cons]
      rcases List.mem_cons.1 hx with rfl | hx
      · exact Nat.le_max_left _ _
      · exact Nat.le_trans (ih x hx) (Nat.le_max_right _ _)
  have := this (descs.map (fun d => rank d.ctor)) (rank d.ctor) (List.mem_map.2 ⟨d, hd, rfl⟩)
  omega

theorem sinv_scopeGet (beh : Beh) (descs : List Desc) (rank : Nat → Nat) (cfg : Cfg descs rank)
    (st : State) (inv : SInv descs st) (s ty key : Nat) (hs : s < st.nscopes) :
    SInv descs (scopeGet beh st s ty key).1 := by
  by_cases hd : (st.scope s).disposed = true
  · unfold scopeGet fuelFor resolve; simp [hd]; exact inv
  · have hd' : (st.scope s).disposed = false := by simpa using hd
    exact ((scopedOnce beh descs rank cfg _).1 st s ty key (rankBound descs rank) inv
      ⟨hd', inv.openOK s hd'⟩ hs (fun t ht => rank_lt_bound descs rank t (findService_mem ht))).inv

theorem sinv_scopeGetGroup (beh : Beh) (descs : List Desc) (rank : Nat → Nat) (cfg : Cfg descs rank)
    (st : State) (inv : SInv descs st) (s ty grp : Nat) (hs : s < st.nscopes) :
    SInv descs (scopeGetGroup beh st s ty grp).1 := by
  by_cases hd : (st.scope s).disposed = true
  · unfold scopeGetGroup fuelFor getGroup; simp [hd]; exact inv
  · have hd' : (st.scope s).disposed = false := by simpa using hd
    exact ((scopedOnce beh descs rank cfg _).2.2.1 st s ty grp (rankBound descs rank) inv
      ⟨hd', inv.openOK s hd'⟩ hs (fun t ht => rank_lt_bound descs rank t (groupMembers_mem ht))).inv

/-- allocating a fresh scope keeps the invariant: its id was never used by an event -/
theorem sinv_allocScope {descs : List Desc} {st : State} (inv : SInv descs st) (parent : Option Nat) (ctx : Nat) :
    SInv descs (allocScope st parent ctx) := by
  refine ⟨inv.descsEq, inv.atMost, ?_, ?_, ?_⟩
  · intro s c hsc h1 hopen d hd hdc
    by_cases hs : s = st.nscopes
    · subst hs
      have := inv.fresh st.nscopes (Nat.le_refl _) c
      have h1' : countIn st.log c st.nscopes = 1 := h1
      omega
    · have e : (allocScope st parent ctx).scope s = st.scope s := by simp [allocScope, hs]
      unfold Cached; rw [e]
      rw [e] at hopen
      exact inv.stored s c hsc h1 hopen d hd hdc
  · intro s hopen
    by_cases hs : s = st.nscopes
    · subst hs; exact ⟨[], by simp [allocScope]⟩
    · have e : (allocScope st parent ctx).scope s = st.scope s := by simp [allocScope, hs]
      rw [e] at hopen ⊢; exact inv.openOK s hopen
  · intro s hs c
    exact inv.fresh s (by have : (allocScope st parent ctx).nscopes = st.nscopes + 1 := rfl; omega) c

/-- table bookkeeping of `CreateScope` does not concern the invariant -/
theorem sinv_tables {descs : List Desc} {st st' : State} (inv : SInv descs st)
    (hd : st'.descs = st.descs) (hl : st'.log = st.log) (hn : st'.nscopes = st.nscopes)
    (hs : ∀ x, (st'.scope x).disposed = (st.scope x).disposed ∧ (st'.scope x).instances = (st.scope x).instances) :
    SInv descs st' := by
  refine ⟨hd.trans inv.descsEq, by intro s c h; rw [hl]; exact inv.atMost s c h, ?_, ?_, ?_⟩
  · intro s c hsc h1 hopen d hd' hdc
    rw [hl] at h1
    rw [(hs s).1] at hopen
    unfold Cached; rw [(hs s).2]
    exact inv.stored s c hsc h1 hopen d hd' hdc
  · intro s hopen; rw [(hs s).1] at hopen; rw [(hs s).2]; exact inv.openOK s hopen
  · intro s hs' c; rw [hl]; rw [hn] at hs'; exact inv.fresh s hs' c

theorem sinv_newScope_noInit (beh : Beh) (descs : List Desc) (st : State) (inv : SInv descs st) (hi : st.initializers = [])
    (parent : Option Nat) (ctx : Nat) :
    SInv descs (newScope beh st parent ctx true).1 ∧ (newScope beh st parent ctx true).1.initializers = [] ∧
    (newScope beh st parent ctx true).2 = .ok st.nscopes ∧ (newScope beh st parent ctx true).1 = allocScope st parent ctx := by
  have hi' : (allocScope st parent ctx).initializers = [] := hi
  have hnew : newScope beh st parent ctx true = (allocScope st parent ctx, .ok st.nscopes) := by
    unfold newScope
    simp only [↓reduceIte, hi', runInitializers]
  rw [hnew]
  exact ⟨sinv_allocScope inv parent ctx, hi, rfl, rfl⟩

theorem sinv_providerCreateScope (beh : Beh) (descs : List Desc) (st : State) (inv : SInv descs st) (hi : st.initializers = [])
    (ctx : Nat) : SInv descs (providerCreateScope beh st ctx).1 ∧ (providerCreateScope beh st ctx).1.initializers = [] := by
  unfold providerCreateScope
  split
  · exact ⟨inv, hi⟩
  · obtain ⟨h1, h2, h3, h4⟩ := sinv_newScope_noInit beh descs st inv hi none ctx
    simp only [h3]
    split
    · have hc := (closeFrame_close beh id (closeFuel (newScope beh st none ctx true).1)).1 (newScope beh st none ctx true).1 st.nscopes
      exact ⟨h1.close hc, by rw [((closeScope_stable beh id _).1 _ _).initializers]; exact h2⟩
    · exact ⟨sinv_tables h1 rfl rfl rfl (fun _ => ⟨rfl, rfl⟩), h2⟩

theorem sinv_scopeCreateScope (beh : Beh) (descs : List Desc) (st : State) (inv : SInv descs st) (hi : st.initializers = [])
    (p ctx : Nat) : SInv descs (scopeCreateScope beh st p ctx).1 ∧ (scopeCreateScope beh st p ctx).1.initializers = [] := by
  unfold scopeCreateScope
  split
  · exact ⟨inv, hi⟩
  · obtain ⟨h1, h2, h3, h4⟩ := sinv_newScope_noInit beh descs st inv hi (some p) ctx
    simp only [h3]
    split
    · have hc := (closeFrame_close beh id (closeFuel (newScope beh st (some p) ctx true).1)).1 (newScope beh st (some p) ctx true).1 st.nscopes
      exact ⟨h1.close hc, by rw [((closeScope_stable beh id _).1 _ _).initializers]; exact h2⟩
    · have h5 : SInv descs (addChild (newScope beh st (some p) ctx true).1 p st.nscopes) := by
        refine sinv_tables h1 rfl rfl rfl ?_
        intro x
        by_cases hx : x = p
        · subst hx; simp [addChild, updScope]
        · simp [addChild, updScope, hx]
      have hi5 : (addChild (newScope beh st (some p) ctx true).1 p st.nscopes).initializers = [] := h2
      split
      · have hc := (closeFrame_close beh id (closeFuel (addChild (newScope beh st (some p) ctx true).1 p st.nscopes))).1
          (addChild (newScope beh st (some p) ctx true).1 p st.nscopes) st.nscopes
        exact ⟨h5.close hc, by rw [((closeScope_stable beh id _).1 _ _).initializers]; exact hi5⟩
      · exact ⟨sinv_tables h5 rfl rfl rfl (fun _ => ⟨rfl, rfl⟩), hi5⟩

/-- the scope ids an operation mentions exist -/
def validOp (st : State) : Op → Prop
  | .get (some s) _ _ => s < st.nscopes
  | .get none _ _ => 0 < st.nscopes
  | .getGroup (some s) _ _ => s < st.nscopes
  | .getGroup none _ _ => 0 < st.nscopes
  | .createScope (some p) _ => p < st.nscopes
  | .createScope none _ => True
  | .closeScope s _ => s < st.nscopes

def ValidHist (beh : Beh) : State → List Op → Prop
  | _, [] => True
  | st, op :: rest => validOp st op ∧ ValidHist beh (stepOp beh st op) rest

theorem sinv_stepOp (beh : Beh) (descs : List Desc) (rank : Nat → Nat) (cfg : Cfg descs rank)
    (st : State) (inv : SInv descs st) (hi : st.initializers = []) (op : Op) (hv : validOp st op) :
    SInv descs (stepOp beh st op) ∧ (stepOp beh st op).initializers = [] := by
  have hinit : ∀ st', Stable st st' → st'.initializers = [] := fun st' h => by rw [h.initializers]; exact hi
  have wf : WF st.descs := by rw [inv.descsEq]; exact cfg.wf
  cases op with
  | get s ty key =>
    cases s with
    | none =>
      refine ⟨?_, hinit _ (providerGet_stable beh st ty key wf)⟩
      show SInv descs (providerGet beh st ty key).1
      unfold providerGet; split
      · exact inv
      · exact sinv_scopeGet beh descs rank cfg st inv rootScope ty key hv
    | some s =>
      exact ⟨sinv_scopeGet beh descs rank cfg st inv s ty key hv, hinit _ (scopeGet_stable beh st s ty key wf)⟩
  | getGroup s ty grp =>
    cases s with
    | none =>
      refine ⟨?_, hinit _ (providerGetGroup_stable beh st ty grp wf)⟩
      show SInv descs (providerGetGroup beh st ty grp).1
      unfold providerGetGroup; split
      · exact inv
      · exact sinv_scopeGetGroup beh descs rank cfg st inv rootScope ty grp hv
    | some s =>
      exact ⟨sinv_scopeGetGroup beh descs rank cfg st inv s ty grp hv, hinit _ (scopeGetGroup_stable beh st s ty grp wf)⟩
  | createScope p ctx =>
    cases p with
    | none => exact sinv_providerCreateScope beh descs st inv hi ctx
    | some p => exact sinv_scopeCreateScope beh descs st inv hi p ctx
  | closeScope s order =>
    exact ⟨inv.close ((closeFrame_close beh order _).1 st s), hinit _ (closeScope_stable' beh order _ st s)⟩

theorem sinv_run (beh : Beh) (descs : List Desc) (rank : Nat → Nat) (cfg : Cfg descs rank) :
    ∀ (ops : List Op) (st : State), SInv descs st → st.initializers = [] → ValidHist beh st ops →
      SInv descs (run beh st ops) := by
  intro ops
  induction ops with
  | nil => intro st inv _ _; exact inv
  | cons op rest ih =>
    intro st inv hi hv
    obtain ⟨h1, h2⟩ := sinv_stepOp beh descs rank cfg st inv hi op hv.1
    exact ih _ h1 h2 hv.2

end Godi.Container
