import GodiProofs.Container.RankOfVerdict
/-!
# Resolution terminates

Go's `resolve → createInstance → buildArguments → resolve` recursion has no guard; the model runs it on
fuel and reports `Layer.fuel` when the fuel runs out. This file proves that on every registry with a
rank (i.e. every registry that passes Build's cycle check, `RankOfVerdict.lean`) the recursion is
*settled*: from an explicit fuel bound on, more fuel changes neither the resulting state nor the
answer, and the answer never contains `Layer.fuel`. Hence the unguarded Go recursion terminates, with
the result the model computes, for every state, scope, behaviour of the constructors and request.
-/
namespace Godi.Container

/-! ### the registry is never changed by resolution -/

@[simp] theorem updScope_descs (st : State) (s : Nat) (f : ScopeSt → ScopeSt) : (updScope st s f).descs = st.descs := rfl
@[simp] theorem logClosed_descs (st : State) (o : Nat) (i : Inst) (ok : Bool) : (logClosed st o i ok).descs = st.descs := rfl
@[simp] theorem putInstance_descs (st : State) (s : Nat) (k : Ident) (v : Val) : (putInstance st s k v).descs = st.descs := rfl
@[simp] theorem storeSingleton_descs (st : State) (k : Ident) (v : Val) : (storeSingleton st k v).descs = st.descs := rfl

@[simp] theorem track_descs (st : State) (s : Nat) (v : Val) (disp : Bool) : (track st s v disp).1.descs = st.descs := by
  unfold track
  split
  · split
    · split <;> rfl
    · split <;> rfl
  · split <;> rfl

@[simp] theorem setInstance_descs (st : State) (s : Nat) (d : Desc) (k : Ident) (v : Val) :
    (setInstance st s d k v).1.descs = st.descs := by
  unfold setInstance
  split
  · split
    · split <;> rfl
    · rfl
  · simp
  · simp

@[simp] theorem shareInstance_descs (st : State) (s : Nat) (d : Desc) (k : Ident) (v : Val) :
    (shareInstance st s d k v).descs = st.descs := by
  unfold shareInstance; split <;> rfl

@[simp] theorem storeOuts_descs (s : Nat) : ∀ (sibs : List Desc) (outs : List Inst) (st : State),
    (storeOuts st s sibs outs).1.descs = st.descs := by
  intro sibs
  induction sibs with
  | nil => intro outs st; simp [storeOuts]
  | cons d ds ih =>
    intro outs st
    cases outs with
    | nil => simp [storeOuts]
    | cons o os => simp [storeOuts, ih]

@[simp] theorem shareAll_descs (s self : Nat) (v : Val) : ∀ (sibs : List Desc) (st : State),
    (shareAll st s self sibs v).descs = st.descs := by
  intro sibs
  induction sibs with
  | nil => intro st; rfl
  | cons d ds ih =>
    intro st
    unfold shareAll
    simp only [List.foldl_cons]
    have := ih (if d.id = self then st else shareInstance st s d d.ident v)
    unfold shareAll at this
    rw [this]
    split <;> simp

@[simp] theorem markAbsent_descs (st : State) (s : Nat) (sibs0 : List Desc) (nil? : Option Nat) :
    (markAbsent st s sibs0 nil?).descs = st.descs := by
  unfold markAbsent
  split
  · split <;> simp
  · rfl

/-- resolution, group resolution, argument building and construction leave `descs` alone -/
theorem descs_frame (beh : Beh) : ∀ fuel,
    (∀ st s ty key, (resolve beh fuel st s ty key).1.descs = st.descs) ∧
    (∀ st s d, (resolveDesc beh fuel st s d).1.descs = st.descs) ∧
    (∀ st s ty grp, (getGroup beh fuel st s ty grp).1.descs = st.descs) ∧
    (∀ st s ds acc, (resolveMembers beh fuel st s ds acc).1.descs = st.descs) ∧
    (∀ st s deps acc, (buildArgs beh fuel st s deps acc).1.descs = st.descs) ∧
    (∀ st s d, (createInstance beh fuel st s d).1.descs = st.descs) := by
  intro fuel
  induction fuel with
  | zero =>
    refine ⟨?_, ?_, ?_, ?_, ?_, ?_⟩ <;> intros <;> simp [resolve, resolveDesc, getGroup, resolveMembers, buildArgs, createInstance]
  | succ f ih =>
    obtain ⟨ihR, ihD, ihG, ihM, ihA, ihC⟩ := ih
    refine ⟨?_, ?_, ?_, ?_, ?_, ?_⟩
    · intro st s ty key
      unfold resolve
      split; · rfl
      split; · rfl
      split; · rfl
      split; · rfl
      split
      · rfl
      · exact ihD st s _
    · intro st s d
      unfold resolveDesc
      split
      · split <;> rfl
      · split
        · rfl
        · rfl
        · exact ihC st s d
      · exact ihC st s d
    · intro st s ty grp
      unfold getGroup
      split; · rfl
      exact ihM st s _ []
    · intro st s ds acc
      cases ds with
      | nil => unfold resolveMembers; rfl
      | cons d rest =>
        unfold resolveMembers
        simp only []
        split
        · rw [ihM, ihD]
        · rw [ihM, ihD]
        · exact ihD st s d
    · intro st s deps acc
      cases deps with
      | nil => unfold buildArgs; rfl
      | cons dep rest =>
        unfold buildArgs
        simp only []
        generalize hr : (if dep.grp != 0 then getGroup beh f st s dep.ty dep.grp
            else resolve beh f st s dep.ty dep.key) = r
        have h1 : r.1.descs = st.descs := by
          rw [← hr]; split
          · exact ihG st s _ _
          · exact ihR st s _ _
        split
        · rw [ihA, h1]
        · split
          · rw [ihA, h1]
          · exact h1
    · intro st s d
      unfold createInstance
      split
      · simp only []
        split
        · simp
        · simp
      · simp only []
        have hA := ihA st s d.deps []
        generalize buildArgs beh f st s d.deps [] = ra at hA
        split
        · exact hA
        · split
          · simp [hA]
          · simp [hA]
          · simp [hA]
          · split
            · simp [hA]
            · simp [hA]
            · split
              · simp [hA]
              · simp [hA]

/-! ### settled computations -/

/-- the error chain (if any) does not contain the layer `bad` -/
def avoids {α} (bad : Layer) : Except Err α → Bool
  | .ok _ => true
  | .error e => !e.contains bad

@[simp] theorem avoids_ok {α} (bad : Layer) (v : α) : avoids bad (.ok v : Except Err α) = true := rfl

theorem avoids_cons {α β} (bad l : Layer) (e : Err) (hl : l ≠ bad) (h : avoids bad (.error e : Except Err β) = true) :
    avoids bad (.error (l :: e) : Except Err α) = true := by
  unfold avoids at *
  simp only [List.contains_cons, Bool.not_eq_true', Bool.or_eq_false_iff, beq_eq_false_iff_ne, ne_eq] at *
  exact ⟨fun h' => hl h'.symm, h⟩

theorem avoids_single {α} (bad l : Layer) (hl : l ≠ bad) : avoids bad (.error [l] : Except Err α) = true :=
  avoids_cons (β := α) bad l [] hl rfl

/-- `bad` is none of the layers construction itself produces (it can only come out of the arguments) -/
structure Foreign (bad : Layer) : Prop where
  sd : Layer.scopeDisposed ≠ bad
  inv : Layer.invocation ≠ bad
  pan : Layer.panicL ≠ bad
  val : Layer.validation ≠ bad
  inj : ∀ c, Layer.injected c ≠ bad
  res : Layer.resolution ≠ bad
  sni : Layer.singletonNotInit ≠ bad

theorem foreign_fuel : Foreign .fuel :=
  { sd := by decide, inv := by decide, pan := by decide, val := by decide, inj := (fun c h => by cases h), res := by decide, sni := by decide }
theorem foreign_notFound : Foreign .notFound :=
  { sd := by decide, inv := by decide, pan := by decide, val := by decide, inj := (fun c h => by cases h), res := by decide, sni := by decide }

abbrev noFuel {α} (r : Except Err α) : Bool := avoids Layer.fuel r

theorem noFuel_cons {α β} (l : Layer) (e : Err) (hl : l ≠ .fuel) (h : noFuel (.error e : Except Err β) = true) :
    noFuel (.error (l :: e) : Except Err α) = true := avoids_cons _ l e hl h

/-- `X` (a computation indexed by its fuel) is settled at `K`: every larger fuel gives the same state and
answer, and that answer is not "out of fuel" -/
def Settled {α} (X : Nat → State × Except Err α) (K : Nat) : Prop :=
  (∀ f, K ≤ f → X f = X K) ∧ noFuel (X K).2 = true

theorem Settled.mono {α} {X : Nat → State × Except Err α} {K K' : Nat} (h : Settled X K) (hk : K ≤ K') : Settled X K' :=
  ⟨fun f hf => (h.1 f (Nat.le_trans hk hf)).trans (h.1 K' hk).symm, by rw [h.1 K' hk]; exact h.2⟩

theorem settled_succ {α} (X : Nat → State × Except Err α) (K : Nat)
    (h : ∀ f, K ≤ f → X (f + 1) = X (K + 1)) (hn : noFuel (X (K + 1)).2 = true) : Settled X (K + 1) := by
  refine ⟨?_, hn⟩
  intro f hf
  obtain ⟨f', rfl⟩ : ∃ f', f = f' + 1 := ⟨f - 1, by omega⟩
  exact h f' (by omega)

/-! one-step unfoldings with the recursive call as an explicit continuation -/

def membersStep (r : State × Except Err Val) (k : State → List Inst → State × Except Err Val) (acc : List Inst) :
    State × Except Err Val :=
  match r.2 with
  | .ok (.inst i) => k r.1 (acc ++ [i])
  | .ok _ => k r.1 acc
  | .error e => (r.1, .error (.resolution :: e))

theorem resolveMembers_cons (beh : Beh) (f : Nat) (st : State) (s : Nat) (d : Desc) (ds : List Desc) (acc : List Inst) :
    resolveMembers beh (f + 1) st s (d :: ds) acc =
      membersStep (resolveDesc beh f st s d) (fun st' acc' => resolveMembers beh f st' s ds acc') acc := by
  conv => lhs; unfold resolveMembers
  rfl

theorem membersStep_congr (r : State × Except Err Val) (k k' : State → List Inst → State × Except Err Val) (acc : List Inst)
    (h : ∀ acc', k r.1 acc' = k' r.1 acc') : membersStep r k acc = membersStep r k' acc := by
  unfold membersStep
  split
  · exact h _
  · exact h _
  · rfl

theorem membersStep_avoids {bad : Layer} (F : Foreign bad) (r : State × Except Err Val)
    (k : State → List Inst → State × Except Err Val) (acc : List Inst)
    (hr : avoids bad r.2 = true) (h : ∀ acc', avoids bad (k r.1 acc').2 = true) : avoids bad (membersStep r k acc).2 = true := by
  unfold membersStep
  split
  · exact h _
  · exact h _
  next e he => rw [he] at hr; exact avoids_cons _ _ _ F.res hr

theorem membersStep_noFuel (r : State × Except Err Val) (k : State → List Inst → State × Except Err Val) (acc : List Inst)
    (hr : noFuel r.2 = true) (h : ∀ acc', noFuel (k r.1 acc').2 = true) : noFuel (membersStep r k acc).2 = true :=
  membersStep_avoids foreign_fuel r k acc hr h

def argsStep (dep : Dep) (r : State × Except Err Val) (k : State → List Val → State × Except Err (List Val)) (acc : List Val) :
    State × Except Err (List Val) :=
  match r.2 with
  | .ok v => k r.1 (acc ++ [v])
  | .error e => if dep.optional && !isConstruction e then k r.1 (acc ++ [.zero]) else (r.1, .error e)

theorem buildArgs_cons (beh : Beh) (f : Nat) (st : State) (s : Nat) (dep : Dep) (deps : List Dep) (acc : List Val) :
    buildArgs beh (f + 1) st s (dep :: deps) acc =
      argsStep dep (if dep.grp != 0 then getGroup beh f st s dep.ty dep.grp else resolve beh f st s dep.ty dep.key)
        (fun st' acc' => buildArgs beh f st' s deps acc') acc := by
  conv => lhs; unfold buildArgs
  rfl

theorem argsStep_congr (dep : Dep) (r : State × Except Err Val) (k k' : State → List Val → State × Except Err (List Val))
    (acc : List Val) (h : ∀ acc', k r.1 acc' = k' r.1 acc') : argsStep dep r k acc = argsStep dep r k' acc := by
  unfold argsStep
  split
  · exact h _
  · split
    · exact h _
    · rfl

/-- the error of a dependency is either free of `bad`, or it is an absence the optional field tolerates -/
theorem argsStep_avoids (bad : Layer) (dep : Dep) (r : State × Except Err Val)
    (k : State → List Val → State × Except Err (List Val)) (acc : List Val)
    (hr : avoids bad r.2 = true ∨ (dep.optional = true ∧ ∃ e, r.2 = .error e ∧ isConstruction e = false))
    (h : ∀ acc', avoids bad (k r.1 acc').2 = true) :
    avoids bad (argsStep dep r k acc).2 = true := by
  unfold argsStep
  split
  · exact h _
  next e he =>
    split
    · exact h _
    next hns =>
      rcases hr with hr | ⟨ho, e', he', hc⟩
      · rw [he] at hr; exact hr
      · rw [he] at he'; cases he'
        simp [ho, hc] at hns

theorem argsStep_noFuel (dep : Dep) (r : State × Except Err Val) (k : State → List Val → State × Except Err (List Val))
    (acc : List Val) (hr : noFuel r.2 = true) (h : ∀ acc', noFuel (k r.1 acc').2 = true) :
    noFuel (argsStep dep r k acc).2 = true := argsStep_avoids _ dep r k acc (Or.inl hr) h

/-! ### one level of the recursion

`HC R K`: construction of every registration of rank below `R` is settled at `K`. From it, the calls
that lead to such constructions are settled a few units later. -/

section level
variable (beh : Beh) (descs : List Desc) (rank : Nat → Nat)

def HC (R K : Nat) : Prop :=
  ∀ t ∈ descs, rank t.ctor < R → ∀ st s, st.descs = descs → Settled (fun f => createInstance beh f st s t) K

theorem settled_resolveDesc {R K : Nat} (H : HC beh descs rank R K) (t : Desc) (ht : t ∈ descs) (hr : rank t.ctor < R)
    (st : State) (s : Nat) (hst : st.descs = descs) : Settled (fun f => resolveDesc beh f st s t) (K + 1) := by
  have hc := H t ht hr st s hst
  apply settled_succ
  · intro f hf
    have e : createInstance beh f st s t = createInstance beh K st s t := hc.1 f hf
    show resolveDesc beh (f + 1) st s t = resolveDesc beh (K + 1) st s t
    unfold resolveDesc
    rw [e]
  · show noFuel (resolveDesc beh (K + 1) st s t).2 = true
    have n : noFuel (createInstance beh K st s t).2 = true := hc.2
    unfold resolveDesc
    split
    · split <;> rfl
    · split
      · rfl
      · rfl
      · exact n
    · exact n

theorem settled_resolve {R K : Nat} (H : HC beh descs rank R K) (st : State) (s ty key : Nat) (hst : st.descs = descs)
    (hp : ∀ t, findService descs ty key = some t → rank t.ctor < R) :
    Settled (fun f => resolve beh f st s ty key) (K + 1 + 1) := by
  apply settled_succ
  · intro f hf
    show resolve beh (f + 1) st s ty key = resolve beh (K + 1 + 1) st s ty key
    unfold resolve
    split; · rfl
    split; · rfl
    split; · rfl
    split; · rfl
    split
    · rfl
    next d hd =>
      rw [hst] at hd
      exact (settled_resolveDesc beh descs rank H d (findService_mem hd) (hp d hd) st s hst).1 f hf
  · show noFuel (resolve beh (K + 1 + 1) st s ty key).2 = true
    unfold resolve
    split; · rfl
    split; · rfl
    split; · rfl
    split; · rfl
    split
    · rfl
    next d hd =>
      rw [hst] at hd
      exact (settled_resolveDesc beh descs rank H d (findService_mem hd) (hp d hd) st s hst).2

theorem settled_members {R K : Nat} (H : HC beh descs rank R K) (s : Nat) : ∀ (ms : List Desc),
    (∀ m ∈ ms, m ∈ descs ∧ rank m.ctor < R) → ∀ (st : State) (acc : List Inst), st.descs = descs →
    Settled (fun f => resolveMembers beh f st s ms acc) (K + 1 + ms.length + 1) := by
  intro ms
  induction ms with
  | nil =>
    intro _ st acc _
    apply settled_succ
    · intro f _; show resolveMembers beh (f + 1) st s [] acc = resolveMembers beh _ st s [] acc
      unfold resolveMembers; rfl
    · show noFuel (resolveMembers beh _ st s [] acc).2 = true
      unfold resolveMembers; rfl
  | cons d rest ih =>
    intro hms st acc hst
    have hd := hms d (List.mem_cons_self ..)
    have hrest : ∀ m ∈ rest, m ∈ descs ∧ rank m.ctor < R := fun m hm => hms m (List.mem_cons_of_mem _ hm)
    have sd := settled_resolveDesc beh descs rank H d hd.1 hd.2 st s hst
    have hst1 : (resolveDesc beh (K + 1) st s d).1.descs = descs := by rw [(descs_frame beh _).2.1]; exact hst
    have hl : K + 1 + (d :: rest).length = K + 1 + rest.length + 1 := by simp; omega
    have key : ∀ f, K + 1 + rest.length + 1 ≤ f →
        resolveMembers beh (f + 1) st s (d :: rest) acc =
          membersStep (resolveDesc beh (K + 1) st s d)
            (fun st' acc' => resolveMembers beh (K + 1 + rest.length + 1) st' s rest acc') acc := by
      intro f hf
      have e1 : resolveDesc beh f st s d = resolveDesc beh (K + 1) st s d := sd.1 f (by omega)
      rw [resolveMembers_cons, e1]
      apply membersStep_congr
      intro acc'
      exact (ih hrest _ acc' hst1).1 f hf
    apply settled_succ
    · intro f hf
      show resolveMembers beh (f + 1) st s (d :: rest) acc = resolveMembers beh (K + 1 + (d :: rest).length + 1) st s (d :: rest) acc
      rw [hl, key f (by rw [hl] at hf; exact hf), key (K + 1 + rest.length + 1) (Nat.le_refl _)]
    · show noFuel (resolveMembers beh (K + 1 + (d :: rest).length + 1) st s (d :: rest) acc).2 = true
      rw [hl, key (K + 1 + rest.length + 1) (Nat.le_refl _)]
      exact membersStep_noFuel _ _ _ sd.2 (fun acc' => (ih hrest _ acc' hst1).2)

theorem groupMembers_length_le (ty grp : Nat) : (groupMembers descs ty grp).length ≤ descs.length := by
  unfold groupMembers; exact List.length_filter_le _ _

theorem settled_getGroup {R K : Nat} (H : HC beh descs rank R K) (st : State) (s ty grp : Nat) (hst : st.descs = descs)
    (hp : ∀ m ∈ groupMembers descs ty grp, rank m.ctor < R) :
    Settled (fun f => getGroup beh f st s ty grp) (K + 1 + descs.length + 1 + 1) := by
  have sm := (settled_members beh descs rank H s (groupMembers descs ty grp)
    (fun m hm => ⟨groupMembers_mem hm, hp m hm⟩) st [] hst).mono
    (K' := K + 1 + descs.length + 1) (by have := groupMembers_length_le descs ty grp; omega)
  apply settled_succ
  · intro f hf
    show getGroup beh (f + 1) st s ty grp = getGroup beh (K + 1 + descs.length + 1 + 1) st s ty grp
    unfold getGroup
    split; · rfl
    rw [hst]; exact sm.1 f hf
  · show noFuel (getGroup beh (K + 1 + descs.length + 1 + 1) st s ty grp).2 = true
    unfold getGroup
    split; · rfl
    rw [hst]; exact sm.2

/-- every registration that can satisfy one of `deps` has rank below `R` -/
def DepsBelow (R : Nat) (deps : List Dep) : Prop := ∀ dep ∈ deps, ∀ t, Provides descs dep t → rank t.ctor < R

theorem settled_dep {R K : Nat} (H : HC beh descs rank R K) (st : State) (s : Nat) (hst : st.descs = descs) (dep : Dep)
    (hp : ∀ t, Provides descs dep t → rank t.ctor < R) :
    Settled (fun f => if dep.grp != 0 then getGroup beh f st s dep.ty dep.grp else resolve beh f st s dep.ty dep.key)
      (K + 1 + descs.length + 1 + 1) := by
  by_cases hg : dep.grp = 0
  · have : (dep.grp != 0) = false := by simp [hg]
    simp only [this, Bool.false_eq_true, ↓reduceIte]
    exact (settled_resolve beh descs rank H st s dep.ty dep.key hst (fun t ht => hp t (Or.inr ⟨hg, ht⟩))).mono (by omega)
  · have : (dep.grp != 0) = true := by simp [hg]
    simp only [this, ↓reduceIte]
    exact settled_getGroup beh descs rank H st s dep.ty dep.grp hst (fun m hm => hp m (Or.inl ⟨hg, hm⟩))

theorem settled_buildArgs {R K : Nat} (H : HC beh descs rank R K) (s : Nat) : ∀ (deps : List Dep),
    DepsBelow descs rank R deps → ∀ (st : State) (acc : List Val), st.descs = descs →
    Settled (fun f => buildArgs beh f st s deps acc) (K + 1 + descs.length + 1 + 1 + deps.length + 1) := by
  intro deps
  induction deps with
  | nil =>
    intro _ st acc _
    apply settled_succ
    · intro f _; show buildArgs beh (f + 1) st s [] acc = buildArgs beh _ st s [] acc
      unfold buildArgs; rfl
    · show noFuel (buildArgs beh _ st s [] acc).2 = true
      unfold buildArgs; rfl
  | cons dep rest ih =>
    intro hdb st acc hst
    have hrest : DepsBelow descs rank R rest := fun x hx => hdb x (List.mem_cons_of_mem _ hx)
    have sd := settled_dep beh descs rank H st s hst dep (hdb dep (List.mem_cons_self ..))
    generalize hK0 : K + 1 + descs.length + 1 + 1 = K0 at sd ih ⊢
    generalize hr0 : (if dep.grp != 0 then getGroup beh K0 st s dep.ty dep.grp else resolve beh K0 st s dep.ty dep.key) = r0 at sd
    have hst1 : r0.1.descs = descs := by
      rw [← hr0]; split
      · rw [(descs_frame beh _).2.2.1]; exact hst
      · rw [(descs_frame beh _).1]; exact hst
    have key : ∀ f, K0 + rest.length + 1 ≤ f →
        buildArgs beh (f + 1) st s (dep :: rest) acc =
          argsStep dep r0 (fun st' acc' => buildArgs beh (K0 + rest.length + 1) st' s rest acc') acc := by
      intro f hf
      have e1 : (if dep.grp != 0 then getGroup beh f st s dep.ty dep.grp else resolve beh f st s dep.ty dep.key) = r0 := by
        have := sd.1 f (by omega)
        simp only [hr0] at this
        exact this
      rw [buildArgs_cons, e1]
      apply argsStep_congr
      intro acc'
      exact (ih hrest _ acc' hst1).1 f hf
    have hl : K0 + (dep :: rest).length = K0 + rest.length + 1 := by simp; omega
    have n0 : noFuel r0.2 = true := by
      have := sd.2
      simp only [hr0] at this
      exact this
    apply settled_succ
    · intro f hf
      show buildArgs beh (f + 1) st s (dep :: rest) acc = buildArgs beh (K0 + (dep :: rest).length + 1) st s (dep :: rest) acc
      rw [hl, key f (by rw [hl] at hf; exact hf), key (K0 + rest.length + 1) (Nat.le_refl _)]
    · show noFuel (buildArgs beh (K0 + (dep :: rest).length + 1) st s (dep :: rest) acc).2 = true
      rw [hl, key (K0 + rest.length + 1) (Nat.le_refl _)]
      exact argsStep_noFuel _ _ _ _ n0 (fun acc' => (ih hrest _ acc' hst1).2)

end level

/-! ### construction: everything after the arguments is fuel-free -/

theorem track_avoids {bad : Layer} (F : Foreign bad) (st : State) (s : Nat) (v : Val) (disp : Bool) :
    avoids bad (track st s v disp).2 = true := by
  unfold track
  split
  · split
    · exact avoids_single _ _ F.sd
    · split <;> rfl
  · split
    · exact avoids_single _ _ F.sd
    · rfl

theorem setInstance_avoids {bad : Layer} (F : Foreign bad) (st : State) (s : Nat) (d : Desc) (k : Ident) (v : Val) :
    avoids bad (setInstance st s d k v).2 = true := by
  unfold setInstance
  split
  · split
    · split <;> rfl
    · rfl
  · exact track_avoids F _ _ _ _
  · exact track_avoids F _ _ _ _

theorem storeOuts_avoids {bad : Layer} (F : Foreign bad) (s : Nat) : ∀ (sibs : List Desc) (outs : List Inst) (st : State),
    avoids bad (storeOuts st s sibs outs).2 = true := by
  intro sibs
  induction sibs with
  | nil => intro outs st; simp [storeOuts]
  | cons d ds ih =>
    intro outs st
    cases outs with
    | nil => simp [storeOuts]
    | cons o os =>
      unfold storeOuts
      simp only []
      have h1 := setInstance_avoids F st s d d.ident (.inst o)
      have h2 := ih os (setInstance st s d d.ident (.inst o)).1
      split
      next e he => rw [he] at h2; exact h2
      next e he _ => rw [he] at h1; exact h1
      · rfl

theorem okOr_avoids {α} (bad : Layer) (r : Except Err Unit) (v : α) (h : avoids bad r = true) : avoids bad (okOr r v) = true := by
  unfold okOr
  split
  · rfl
  · exact h

theorem ite_avoids {α} (bad : Layer) (c : Prop) [Decidable c] (a b : Except Err α) (ha : avoids bad a = true)
    (hb : avoids bad b = true) : avoids bad (if c then a else b) = true := by split <;> assumption

theorem createInstance_congr (beh : Beh) (f g : Nat) (st : State) (s : Nat) (d : Desc)
    (h : buildArgs beh f st s d.deps [] = buildArgs beh g st s d.deps []) :
    createInstance beh (f + 1) st s d = createInstance beh (g + 1) st s d := by
  unfold createInstance
  rw [h]

theorem createInstance_avoids {bad : Layer} (F : Foreign bad) (beh : Beh) (f : Nat) (st : State) (s : Nat) (d : Desc)
    (h : avoids bad (buildArgs beh f st s d.deps []).2 = true) : avoids bad (createInstance beh (f + 1) st s d).2 = true := by
  unfold createInstance
  split
  · simp only []
    generalize hsi : setInstance _ _ _ _ _ = si
    have hn : avoids bad si.2 = true := by rw [← hsi]; exact setInstance_avoids F _ _ _ _ _
    split
    next e he => rw [he] at hn; exact hn
    · rfl
  · simp only []
    generalize buildArgs beh f st s d.deps [] = ra at h
    split
    next e he => rw [he] at h; exact avoids_cons _ _ _ F.inv h
    · split
      · exact avoids_cons (β := Val) _ _ _ F.inv (avoids_single _ _ (F.inj _))
      · exact avoids_single _ _ F.pan
      · exact avoids_single _ _ F.val
      · split
        · exact okOr_avoids _ _ _ (setInstance_avoids F _ _ _ _ _)
        · simp only []
          generalize hso : storeOuts _ _ _ _ = so
          have hn : avoids bad so.2 = true := by rw [← hso]; exact storeOuts_avoids F _ _ _ _
          apply ite_avoids
          · exact okOr_avoids _ _ _ hn
          · cases hso2 : so.2 with
            | error e => rw [hso2] at hn; exact hn
            | ok _ => exact avoids_single _ _ F.val
        · generalize hsi : setInstance _ _ _ _ _ = si
          have hn : avoids bad si.2 = true := by rw [← hsi]; exact setInstance_avoids F _ _ _ _ _
          split
          next e he => rw [he] at hn; exact hn
          · rfl

theorem createInstance_noFuel (beh : Beh) (f : Nat) (st : State) (s : Nat) (d : Desc)
    (h : noFuel (buildArgs beh f st s d.deps []).2 = true) : noFuel (createInstance beh (f + 1) st s d).2 = true :=
  createInstance_avoids foreign_fuel beh f st s d h

section level2
variable (beh : Beh) (descs : List Desc) (rank : Nat → Nat)

theorem settled_createInstance {R K : Nat} (H : HC beh descs rank R K) (st : State) (s : Nat) (hst : st.descs = descs)
    (d : Desc) (hdb : DepsBelow descs rank R d.deps) :
    Settled (fun f => createInstance beh f st s d) (K + 1 + descs.length + 1 + 1 + d.deps.length + 1 + 1) := by
  have sa := settled_buildArgs beh descs rank H s d.deps hdb st [] hst
  apply settled_succ
  · intro f hf
    exact createInstance_congr beh f _ st s d (sa.1 f hf)
  · exact createInstance_noFuel beh _ st s d sa.2

theorem le_maxDeps : ∀ (descs : List Desc) (d : Desc), d ∈ descs → d.deps.length ≤ maxDeps descs := by
  intro descs
  induction descs with
  | nil => intro d hd; cases hd
  | cons x rest ih =>
    intro d hd
    unfold maxDeps
    simp only [List.map_cons, List.foldr_cons]
    rcases List.mem_cons.1 hd with rfl | h
    · exact Nat.le_max_left _ _
    · exact Nat.le_trans (ih d h) (Nat.le_max_right _ _)

/-- fuel one level of the dependency nesting can spend -/
def levelCost (descs : List Desc) : Nat := descs.length + maxDeps descs + 6

/-- THE INDUCTION ON THE RANK: constructions of rank below `R` are settled at `R · levelCost` -/
theorem settled_by_rank (hr : Ranked descs rank) : ∀ R, HC beh descs rank R (R * levelCost descs) := by
  intro R
  induction R with
  | zero => intro t _ h; exact absurd h (Nat.not_lt_zero _)
  | succ R ih =>
    intro t ht hrk st s hst
    have hdb : DepsBelow descs rank R t.deps := by
      intro dep hdep p hp
      have := hr t ht dep hdep p hp
      omega
    have := settled_createInstance beh descs rank ih st s hst t hdb
    apply this.mono
    have := le_maxDeps descs t ht
    unfold levelCost
    rw [Nat.succ_mul]
    omega

end level2

/-! ### a rank bounded by the number of registrations, and the model's own fuel -/

/-- the rank, renumbered: how many registrations have a constructor of smaller rank -/
def normRank (descs : List Desc) (rank : Nat → Nat) (c : Nat) : Nat :=
  descs.countP (fun d => decide (rank d.ctor < rank c))

theorem normRank_le (descs : List Desc) (rank : Nat → Nat) (c : Nat) : normRank descs rank c ≤ descs.length :=
  List.countP_le_length

theorem provides_mem {descs : List Desc} {dep : Dep} {t : Desc} (h : Provides descs dep t) : t ∈ descs := by
  rcases h with ⟨_, hm⟩ | ⟨_, hf⟩
  · exact groupMembers_mem hm
  · exact findService_mem hf

theorem ranked_norm {descs : List Desc} {rank : Nat → Nat} (hr : Ranked descs rank) : Ranked descs (normRank descs rank) := by
  intro d hd dep hdep t ht
  have hlt := hr d hd dep hdep t ht
  unfold normRank
  apply countP_lt_of_imp
  · intro x _ hx
    have : rank x.ctor < rank t.ctor := of_decide_eq_true hx
    exact decide_eq_true (Nat.lt_trans this hlt)
  · exact ⟨t, provides_mem ht, decide_eq_true hlt, decide_eq_false (Nat.lt_irrefl _)⟩

section final
variable (beh : Beh) (descs : List Desc) (rank : Nat → Nat)

theorem hc_all (hr : Ranked descs rank) :
    HC beh descs (normRank descs rank) (descs.length + 1) ((descs.length + 1) * levelCost descs) :=
  settled_by_rank beh descs (normRank descs rank) (ranked_norm hr) (descs.length + 1)

theorem fuelFor_ge (st : State) (hst : st.descs = descs) (extra : Nat) (he : extra ≤ levelCost descs) :
    (descs.length + 1) * levelCost descs + extra ≤ fuelFor st := by
  unfold fuelFor levelCost at *
  rw [hst]
  have : (descs.length + 2) * (descs.length + maxDeps descs + 6) =
      (descs.length + 1) * (descs.length + maxDeps descs + 6) + (descs.length + maxDeps descs + 6) := by
    rw [show descs.length + 2 = (descs.length + 1) + 1 from rfl, Nat.succ_mul]
  omega

/-- RESOLUTION IS SETTLED AT THE MODEL'S FUEL: `Get`/`GetKeyed` -/
theorem resolve_settled (hr : Ranked descs rank) (st : State) (hst : st.descs = descs) (s ty key : Nat) :
    Settled (fun f => resolve beh f st s ty key) (fuelFor st) := by
  have := settled_resolve beh descs _ (hc_all beh descs rank hr) st s ty key hst
    (fun t _ => Nat.lt_succ_of_le (normRank_le descs rank t.ctor))
  have h := fuelFor_ge descs st hst 2 (by unfold levelCost; omega)
  exact this.mono (by omega)

/-- … `GetGroup` -/
theorem getGroup_settled (hr : Ranked descs rank) (st : State) (hst : st.descs = descs) (s ty grp : Nat) :
    Settled (fun f => getGroup beh f st s ty grp) (fuelFor st) := by
  have := settled_getGroup beh descs _ (hc_all beh descs rank hr) st s ty grp hst
    (fun t _ => Nat.lt_succ_of_le (normRank_le descs rank t.ctor))
  have h := fuelFor_ge descs st hst (descs.length + 3) (by unfold levelCost; omega)
  exact this.mono (by omega)

/-- … the constructions Build and scope creation start directly (singletons, initializers) -/
theorem createInstance_settled (hr : Ranked descs rank) (st : State) (hst : st.descs = descs) (s : Nat) (d : Desc)
    (hd : d ∈ descs) : Settled (fun f => createInstance beh f st s d) (fuelFor st) := by
  have := hc_all beh descs rank hr d hd (Nat.lt_succ_of_le (normRank_le descs rank d.ctor)) st s hst
  have h := fuelFor_ge descs st hst 0 (Nat.zero_le _)
  exact this.mono (by omega)

end final

end Godi.Container
