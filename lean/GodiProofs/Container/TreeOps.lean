import GodiProofs.Container.Tree
/-!
# The forest invariant over histories

Every operation of a built provider — resolution, group resolution, scope creation from the provider or
from a scope (initializers that fail included), `Close` of any scope in any iteration order — keeps
`Tree` (`Tree.lean`). Hence, at every point of every history: the provider's table and every child table
hold open scopes only, an open scope's parent is open, and a closed scope has released its tables.
-/
namespace Godi.Container

/-! ### resolution touches no table -/

theorem tree_ext {A N : Nat → Prop} {st st' : State} {s : Nat} (e : Ext st st' s)
    (hopen : (st.scope s).disposed = false) (t : TreeEx A N st) : TreeEx A N st' := by
  have hd : ∀ x, (st'.scope x).disposed = (st.scope x).disposed := by
    intro x; by_cases h : x = s
    · subst h; exact e.sdisposed
    · rw [e.others x h]
  have hp : ∀ x, (st'.scope x).parent = (st.scope x).parent := by
    intro x; by_cases h : x = s
    · subst h; exact e.parent
    · rw [e.others x h]
  have hc : ∀ x, (st'.scope x).children = (st.scope x).children := by
    intro x; by_cases h : x = s
    · subst h; exact e.children
    · rw [e.others x h]
  refine ⟨?_, ?_, ?_, ?_, ?_, ?_, ?_⟩
  · intro c p hcn hpp; rw [e.nscopes] at hcn; rw [hp] at hpp; exact t.older c p hcn hpp
  · intro p C hC
    rw [hc] at hC
    refine ⟨(t.kids p C hC).1, ?_⟩
    intro c hcm
    have := (t.kids p C hC).2 c hcm
    rw [e.nscopes, hp, hd]; exact this
  · intro l hl
    rw [e.provScopes] at hl
    refine ⟨(t.tbl l hl).1, ?_⟩
    intro x hx
    have := (t.tbl l hl).2 x hx
    rw [e.nscopes, hd]; exact this
  · intro c p hcn hpp hdc
    rw [e.nscopes] at hcn; rw [hp] at hpp; rw [hd] at hdc ⊢
    exact t.up c p hcn hpp hdc
  · intro c p C hcn hpp hdc hC
    rw [e.nscopes] at hcn; rw [hp] at hpp; rw [hd] at hdc; rw [hc] at hC
    exact t.member c p C hcn hpp hdc hC
  · intro x hdx; rw [hd] at hdx; rw [hc]; exact t.openHas x hdx
  · intro x hdx hna
    rw [hd] at hdx
    have hxs : x ≠ s := by intro h; subst h; rw [hopen] at hdx; cases hdx
    rw [e.others x hxs]; exact t.released x hdx hna

/-! ### a new scope -/

/-- the tables mention scopes below `n` only -/
def TablesBelow (st : State) (n : Nat) : Prop :=
  (∀ l, st.provScopes = some l → ∀ x ∈ l, x < n) ∧ (∀ p C, (st.scope p).children = some C → ∀ c ∈ C, c < n)

theorem tablesBelow_of_tree {A N : Nat → Prop} {st : State} (t : TreeEx A N st) : TablesBelow st st.nscopes :=
  ⟨fun l hl x hx => ((t.tbl l hl).2 x hx).1, fun p C hC c hc => ((t.kids p C hC).2 c hc).1⟩

theorem alloc_scope (st : State) (par : Option Nat) (ctx x : Nat) :
    (allocScope st par ctx).scope x = if x = st.nscopes then { parent := par, ctxOf := ctx } else st.scope x := rfl

/-- `allocScope`: the new scope is open, in no table yet (exempt from `member`) -/
theorem tree_alloc {A N : Nat → Prop} {st : State} (t : TreeEx A N st) (par : Option Nat) (ctx : Nat)
    (hpar : ∀ p, par = some p → p < st.nscopes ∧ (st.scope p).disposed = false) :
    TreeEx A (fun x => N x ∨ x = st.nscopes) (allocScope st par ctx) ∧ TablesBelow (allocScope st par ctx) st.nscopes := by
  have hn : (allocScope st par ctx).nscopes = st.nscopes + 1 := rfl
  have hold : ∀ x, x ≠ st.nscopes → (allocScope st par ctx).scope x = st.scope x := by
    intro x hx; rw [alloc_scope]; simp [hx]
  have hnew : (allocScope st par ctx).scope st.nscopes = { parent := par, ctxOf := ctx } := by rw [alloc_scope]; simp
  have hpv : (allocScope st par ctx).provScopes = st.provScopes := rfl
  have tb := tablesBelow_of_tree t
  have hdn : ((allocScope st par ctx).scope st.nscopes).disposed = false := by rw [hnew]
  have hcn' : ((allocScope st par ctx).scope st.nscopes).children = some [] := by rw [hnew]
  have hpn : ((allocScope st par ctx).scope st.nscopes).parent = par := by rw [hnew]
  refine ⟨⟨?_, ?_, ?_, ?_, ?_, ?_, ?_⟩, ?_, ?_⟩
  · intro c p hcn hpp
    by_cases hc : c = st.nscopes
    · subst hc; rw [hpn] at hpp; exact (hpar p hpp).1
    · rw [hold c hc] at hpp; exact t.older c p (by rw [hn] at hcn; omega) hpp
  · intro p C hC
    by_cases hps : p = st.nscopes
    · subst hps; rw [hcn'] at hC
      simp only [Option.some.injEq] at hC; subst hC
      exact ⟨List.nodup_nil, fun c hc => by cases hc⟩
    · rw [hold p hps] at hC
      refine ⟨(t.kids p C hC).1, ?_⟩
      intro c hcm
      obtain ⟨h1, h2, h3⟩ := (t.kids p C hC).2 c hcm
      have hcn : c ≠ st.nscopes := by omega
      rw [hold c hcn]
      exact ⟨by rw [hn]; omega, h2, h3⟩
  · intro l hl
    rw [hpv] at hl
    refine ⟨(t.tbl l hl).1, ?_⟩
    intro x hx
    obtain ⟨h1, h2, h3⟩ := (t.tbl l hl).2 x hx
    have hxn : x ≠ st.nscopes := by omega
    rw [hold x hxn]
    exact ⟨by rw [hn]; omega, h2, h3⟩
  · intro c p hcn hpp hdc
    by_cases hc : c = st.nscopes
    · subst hc
      rw [hpn] at hpp
      obtain ⟨hp1, hp2⟩ := hpar p hpp
      have : p ≠ st.nscopes := by omega
      rw [hold p this]; exact Or.inl hp2
    · rw [hold c hc] at hpp hdc
      have hc' : c < st.nscopes := by rw [hn] at hcn; omega
      have hpc := t.older c p hc' hpp
      have : p ≠ st.nscopes := by omega
      rw [hold p this]
      exact t.up c p hc' hpp hdc
  · intro c p C hcn hpp hdc hC
    by_cases hc : c = st.nscopes
    · exact Or.inr (Or.inr hc)
    · rw [hold c hc] at hpp hdc
      have hc' : c < st.nscopes := by rw [hn] at hcn; omega
      have hpc := t.older c p hc' hpp
      have : p ≠ st.nscopes := by omega
      rw [hold p this] at hC
      rcases t.member c p C hc' hpp hdc hC with h | h
      · exact Or.inl h
      · exact Or.inr (Or.inl h)
  · intro x hdx
    by_cases hx : x = st.nscopes
    · subst hx; rw [hcn']; rfl
    · rw [hold x hx] at hdx ⊢; exact t.openHas x hdx
  · intro x hdx hna
    by_cases hx : x = st.nscopes
    · subst hx; rw [hdn] at hdx; cases hdx
    · rw [hold x hx] at hdx ⊢; exact t.released x hdx hna
  · intro l hl x hx; rw [hpv] at hl; exact tb.1 l hl x hx
  · intro p C hC c hc
    by_cases hps : p = st.nscopes
    · subst hps; rw [hcn'] at hC
      simp only [Option.some.injEq] at hC; subst hC; cases hc
    · rw [hold p hps] at hC; exact tb.2 p C hC c hc

theorem tree_drop_exempt {A N : Nat → Prop} {st : State} (n : Nat) (t : TreeEx A (fun x => N x ∨ x = n) st)
    (h : (st.scope n).parent = none ∨ (st.scope n).disposed = true) : TreeEx A N st := by
  refine ⟨t.older, t.kids, t.tbl, t.up, ?_, t.openHas, t.released⟩
  intro c p C hcn hpp hdc hC
  rcases t.member c p C hcn hpp hdc hC with hm | hN | hcn'
  · exact Or.inl hm
  · exact Or.inr hN
  · subst hcn'
    rcases h with h | h
    · rw [h] at hpp; cases hpp
    · rw [h] at hdc; cases hdc

theorem addChild_scope (st : State) (p n x : Nat) :
    (addChild st p n).scope x =
      if x = p then { st.scope p with children := (st.scope p).children.map (fun (l : List Nat) => l ++ [n]) } else st.scope x := rfl

/-- the new scope is entered into its parent's table -/
theorem tree_addChild {A N : Nat → Prop} {st : State} (n p : Nat) (t : TreeEx A (fun x => N x ∨ x = n) st)
    (hpn : (st.scope n).parent = some p) (hn : n < st.nscopes) (hopen : (st.scope n).disposed = false)
    (hnew : ∀ C, (st.scope p).children = some C → n ∉ C) : TreeEx A N (addChild st p n) := by
  have hd : ∀ x, ((addChild st p n).scope x).disposed = (st.scope x).disposed := by
    intro x; rw [addChild_scope]; split
    next h => subst h; rfl
    · rfl
  have hp : ∀ x, ((addChild st p n).scope x).parent = (st.scope x).parent := by
    intro x; rw [addChild_scope]; split
    next h => subst h; rfl
    · rfl
  have hi : ∀ x, ((addChild st p n).scope x).instances = (st.scope x).instances := by
    intro x; rw [addChild_scope]; split
    next h => subst h; rfl
    · rfl
  have hc : ∀ x, ((addChild st p n).scope x).children =
      if x = p then (st.scope p).children.map (fun (l : List Nat) => l ++ [n]) else (st.scope x).children := by
    intro x; rw [addChild_scope]; split
    next h => subst h; rfl
    · rfl
  have hns : (addChild st p n).nscopes = st.nscopes := rfl
  have hpv : (addChild st p n).provScopes = st.provScopes := rfl
  refine ⟨?_, ?_, ?_, ?_, ?_, ?_, ?_⟩
  · intro c q hcn hpp; rw [hp] at hpp; exact t.older c q hcn hpp
  · intro q C' hC'
    rw [hc] at hC'
    split at hC'
    next hq =>
      subst hq
      cases hrc : (st.scope q).children with
      | none => rw [hrc] at hC'; cases hC'
      | some C =>
        rw [hrc] at hC'
        simp only [Option.map_some, Option.some.injEq] at hC'
        subst hC'
        obtain ⟨hnd, hel⟩ := t.kids q C hrc
        refine ⟨?_, ?_⟩
        · rw [List.nodup_append]
          refine ⟨hnd, (by simp : [n].Nodup), ?_⟩
          intro a ha b hb
          simp only [List.mem_singleton] at hb
          subst hb
          intro e; subst e; exact hnew C hrc ha
        · intro c hcm
          rcases List.mem_append.1 hcm with h | h
          · obtain ⟨h1, h2, h3⟩ := hel c h
            exact ⟨h1, by rw [hp]; exact h2, by rw [hd]; exact h3⟩
          · simp only [List.mem_singleton] at h
            subst h
            exact ⟨hn, by rw [hp]; exact hpn, by rw [hd]; exact Or.inl hopen⟩
    next hq =>
      obtain ⟨hnd, hel⟩ := t.kids q C' hC'
      refine ⟨hnd, ?_⟩
      intro c hcm
      obtain ⟨h1, h2, h3⟩ := hel c hcm
      exact ⟨h1, by rw [hp]; exact h2, by rw [hd]; exact h3⟩
  · intro l hl
    rw [hpv] at hl
    refine ⟨(t.tbl l hl).1, ?_⟩
    intro x hx
    obtain ⟨h1, h2, h3⟩ := (t.tbl l hl).2 x hx
    exact ⟨h1, h2, by rw [hd]; exact h3⟩
  · intro c q hcn hpp hdc
    rw [hp] at hpp; rw [hd] at hdc ⊢
    exact t.up c q hcn hpp hdc
  · intro c q C' hcn hpp hdc hC'
    rw [hp] at hpp; rw [hd] at hdc; rw [hc] at hC'
    split at hC'
    next hq =>
      subst hq
      cases hrc : (st.scope q).children with
      | none => rw [hrc] at hC'; cases hC'
      | some C =>
        rw [hrc] at hC'
        simp only [Option.map_some, Option.some.injEq] at hC'
        subst hC'
        rcases t.member c q C hcn hpp hdc hrc with hm | hN | hcn'
        · exact Or.inl (List.mem_append_left _ hm)
        · exact Or.inr hN
        · subst hcn'; exact Or.inl (List.mem_append_right _ (List.mem_singleton.2 rfl))
    next hq =>
      rcases t.member c q C' hcn hpp hdc hC' with hm | hN | hcn'
      · exact Or.inl hm
      · exact Or.inr hN
      · subst hcn'
        rw [hpn] at hpp
        simp only [Option.some.injEq] at hpp
        exact absurd hpp.symm hq
  · intro x hdx
    rw [hd] at hdx; rw [hc]
    split
    next h => subst h; rw [Option.isSome_map]; exact t.openHas x hdx
    · exact t.openHas x hdx
  · intro x hdx hna
    rw [hd] at hdx; rw [hc, hi]
    obtain ⟨h1, h2⟩ := t.released x hdx hna
    split
    next h => subst h; rw [h1]; exact ⟨rfl, h2⟩
    · exact ⟨h1, h2⟩

/-- the new scope is entered into the provider's table -/
theorem tree_addProv {A N : Nat → Prop} {st : State} (n : Nat) (t : TreeEx A N st)
    (hn : n < st.nscopes) (hroot : n ≠ rootScope) (hopen : (st.scope n).disposed = false)
    (hnew : ∀ l, st.provScopes = some l → n ∉ l) : TreeEx A N (addProvScope st n) := by
  refine ⟨t.older, t.kids, ?_, t.up, t.member, t.openHas, t.released⟩
  intro l' hl'
  have : (addProvScope st n).provScopes = st.provScopes.map (fun (l : List Nat) => l ++ [n]) := rfl
  rw [this] at hl'
  cases hl : st.provScopes with
  | none => rw [hl] at hl'; cases hl'
  | some l =>
    rw [hl] at hl'
    simp only [Option.map_some, Option.some.injEq] at hl'
    subst hl'
    obtain ⟨hnd, hel⟩ := t.tbl l hl
    refine ⟨?_, ?_⟩
    · rw [List.nodup_append]
      refine ⟨hnd, (by simp : [n].Nodup), ?_⟩
      intro a ha b hb
      simp only [List.mem_singleton] at hb
      subst hb
      intro e; subst e; exact hnew l hl ha
    · intro x hx
      rcases List.mem_append.1 hx with h | h
      · exact hel x h
      · simp only [List.mem_singleton] at h
        subst h
        exact ⟨hn, hroot, Or.inl hopen⟩

theorem closeFuel_ge (st : State) (s : Nat) : (st.nscopes - s) * (st.nscopes + 1) + 1 ≤ closeFuel st := by
  unfold closeFuel
  have : (st.nscopes - s) * (st.nscopes + 1) ≤ (st.nscopes + 1) * (st.nscopes + 2) :=
    Nat.mul_le_mul (by omega) (by omega)
  omega

/-! ### initializers, `newScope` -/

theorem runInitializers_ext (beh : Beh) (s : Nat) : ∀ (ids : List Nat) (st : State), WF st.descs →
    (∀ id ∈ ids, ∀ d, findDesc st.descs id = some d → d.life = .scoped) →
    Ext st (runInitializers beh st s ids).1 s := by
  intro ids
  induction ids with
  | nil => intro st _ _; exact Ext.refl st s
  | cons id rest ih =>
    intro st wf hi
    unfold runInitializers
    split
    · exact ih st wf (fun x hx => hi x (List.mem_cons_of_mem _ hx))
    next d hfd =>
      have hl : d.life ≠ .singleton := by rw [hi id (by simp) d hfd]; simp
      have e1 := (frame beh (fuelFor st)).2.2.2.2.2 st s d wf (findDesc_mem hfd) hl
      simp only []
      split
      · exact e1.trans (ih _ (by rw [e1.descs]; exact wf)
          (by rw [e1.descs]; exact fun x hx => hi x (List.mem_cons_of_mem _ hx)))
      · exact e1

theorem tablesBelow_ext {st st' : State} {s n : Nat} (e : Ext st st' s) (h : TablesBelow st n) : TablesBelow st' n := by
  refine ⟨?_, ?_⟩
  · intro l hl; rw [e.provScopes] at hl; exact h.1 l hl
  · intro p C hC
    have : (st'.scope p).children = (st.scope p).children := by
      by_cases hp : p = s
      · subst hp; exact e.children
      · rw [e.others p hp]
    rw [this] at hC; exact h.2 p C hC

/-- `newScope` with initializers: on success the new scope is open and still in no table; on failure it has been
closed again and the invariant holds without exemption -/
theorem tree_newScope (beh : Beh) (st : State) (par : Option Nat) (ctx : Nat) (wf : WF st.descs) (i : InitOK st)
    (t : Tree st) (hpar : ∀ p, par = some p → p < st.nscopes ∧ (st.scope p).disposed = false) :
    (newScope beh st par ctx true).1.nscopes = st.nscopes + 1 ∧
    (∀ s, (newScope beh st par ctx true).2 = .ok s → s = st.nscopes ∧
      TreeEx (fun _ => False) (fun x => False ∨ x = st.nscopes) (newScope beh st par ctx true).1 ∧
      TablesBelow (newScope beh st par ctx true).1 st.nscopes ∧
      ((newScope beh st par ctx true).1.scope st.nscopes).disposed = false ∧
      ((newScope beh st par ctx true).1.scope st.nscopes).parent = par ∧
      (∀ x, x ≠ st.nscopes → ((newScope beh st par ctx true).1.scope x).disposed = (st.scope x).disposed)) ∧
    (∀ e, (newScope beh st par ctx true).2 = .error e → Tree (newScope beh st par ctx true).1) := by
  unfold newScope
  simp only [↓reduceIte]
  obtain ⟨t0, tb0⟩ := tree_alloc t par ctx hpar
  have hinit : (allocScope st par ctx).initializers = st.initializers := rfl
  have e1 := runInitializers_ext beh st.nscopes (allocScope st par ctx).initializers (allocScope st par ctx) wf
    (by rw [hinit]; exact i)
  have hopen0 : ((allocScope st par ctx).scope st.nscopes).disposed = false := by rw [alloc_scope]; simp
  have hpar0 : ((allocScope st par ctx).scope st.nscopes).parent = par := by rw [alloc_scope]; simp
  have t1 := tree_ext e1 hopen0 t0
  have tb1 := tablesBelow_ext e1 tb0
  have hn1 : (runInitializers beh (allocScope st par ctx) st.nscopes (allocScope st par ctx).initializers).1.nscopes = st.nscopes + 1 :=
    e1.nscopes
  have hopen1 := e1.sdisposed.trans hopen0
  have hpar1 := e1.parent.trans hpar0
  have hoth : ∀ x, x ≠ st.nscopes →
      ((runInitializers beh (allocScope st par ctx) st.nscopes (allocScope st par ctx).initializers).1.scope x).disposed =
        (st.scope x).disposed := by
    intro x hx; rw [e1.others x hx, alloc_scope]; simp [hx]
  generalize runInitializers beh (allocScope st par ctx) st.nscopes (allocScope st par ctx).initializers = r
    at t1 tb1 hn1 hopen1 hpar1 hoth
  split
  next hok =>
    refine ⟨hn1, ?_, ?_⟩
    · intro s hs
      simp only [Except.ok.injEq] at hs
      exact ⟨hs.symm, t1, tb1, hopen1, hpar1, hoth⟩
    · intro e he; cases he
  next e he =>
    have hb := closeFuel_ge r.1 st.nscopes
    obtain ⟨t2, f2, hd2⟩ := (tree_close beh id (fun l => List.Perm.refl l) (closeFuel r.1)).1 (fun _ => False)
      (fun x => False ∨ x = st.nscopes) r.1 st.nscopes t1 (by rw [hn1]; omega)
      (fun c hc => by rcases hc with h | h; exact h.elim; omega) hb
    refine ⟨by rw [f2.nscopes]; exact hn1, ?_, ?_⟩
    · intro s hs; cases hs
    · intro _ _; exact tree_drop_exempt st.nscopes t2 (Or.inr hd2)

/-! ### the operations -/

def validOpT (st : State) : Op → Prop
  | .get _ _ _ => True
  | .getGroup _ _ _ => True
  | .createScope none _ => True
  | .createScope (some p) _ => p < st.nscopes
  | .closeScope s order => s < st.nscopes ∧ ∀ l, (order l).Perm l

theorem tree_close_any (beh : Beh) (order : List Nat → List Nat) (hperm : ∀ l, (order l).Perm l) (st : State) (t : Tree st)
    (s : Nat) (hs : s < st.nscopes) :
    Tree (closeScope beh order (closeFuel st) st s).1 ∧ (closeScope beh order (closeFuel st) st s).1.nscopes = st.nscopes := by
  obtain ⟨a, b, _⟩ := (tree_close beh order hperm (closeFuel st)).1 (fun _ => False) (fun _ => False) st s t hs
    (fun _ h => h.elim) (closeFuel_ge st s)
  exact ⟨a, b.nscopes⟩

theorem tree_providerCreateScope (beh : Beh) (st : State) (ctx : Nat) (wf : WF st.descs) (i : InitOK st) (t : Tree st)
    (h0 : 0 < st.nscopes) :
    Tree (providerCreateScope beh st ctx).1 ∧ st.nscopes ≤ (providerCreateScope beh st ctx).1.nscopes := by
  unfold providerCreateScope
  split
  · exact ⟨t, Nat.le_refl _⟩
  · obtain ⟨hn, hok, herr⟩ := tree_newScope beh st none ctx wf i t (fun p hp => by cases hp)
    generalize newScope beh st none ctx true = r at hn hok herr
    simp only []
    split
    next e hr => exact ⟨herr e hr, by rw [hn]; omega⟩
    next s hr =>
      obtain ⟨hs, t1, tb1, hopen, hpar, _⟩ := hok s hr
      subst hs
      have t2 : Tree r.1 := tree_drop_exempt st.nscopes t1 (Or.inl hpar)
      split
      · obtain ⟨a, b⟩ := tree_close_any beh id (fun l => List.Perm.refl l) r.1 t2 st.nscopes (by rw [hn]; omega)
        exact ⟨a, by rw [b, hn]; omega⟩
      · exact ⟨tree_addProv st.nscopes t2 (by rw [hn]; omega) (by unfold rootScope; omega) hopen
          (fun l hl hm => by have := tb1.1 l hl _ hm; omega), by
            show st.nscopes ≤ r.1.nscopes
            rw [hn]; omega⟩

theorem tree_scopeCreateScope (beh : Beh) (st : State) (p ctx : Nat) (wf : WF st.descs) (i : InitOK st) (t : Tree st)
    (h0 : 0 < st.nscopes) (hp : p < st.nscopes) :
    Tree (scopeCreateScope beh st p ctx).1 ∧ st.nscopes ≤ (scopeCreateScope beh st p ctx).1.nscopes := by
  unfold scopeCreateScope
  split
  · exact ⟨t, Nat.le_refl _⟩
  next hpo =>
    have hpo' : (st.scope p).disposed = false := by simpa using hpo
    obtain ⟨hn, hok, herr⟩ := tree_newScope beh st (some p) ctx wf i t
      (fun q hq => by simp only [Option.some.injEq] at hq; subst hq; exact ⟨hp, hpo'⟩)
    generalize newScope beh st (some p) ctx true = r at hn hok herr
    simp only []
    split
    next e hr => exact ⟨herr e hr, by rw [hn]; omega⟩
    next s hr =>
      obtain ⟨hs, t1, tb1, hopen, hpar, hoth⟩ := hok s hr
      subst hs
      have hpne : p ≠ st.nscopes := by omega
      have hpopen : (r.1.scope p).disposed = false := by rw [hoth p hpne]; exact hpo'
      obtain ⟨C, hC⟩ : ∃ C, (r.1.scope p).children = some C := Option.isSome_iff_exists.1 (t1.openHas p hpopen)
      split
      next hnone => rw [hC] at hnone; cases hnone
      · have t2 : Tree (addChild r.1 p st.nscopes) :=
          tree_addChild st.nscopes p t1 hpar (by rw [hn]; omega) hopen
            (fun C' hC' hm => by have := tb1.2 p C' hC' _ hm; omega)
        have hn2 : (addChild r.1 p st.nscopes).nscopes = st.nscopes + 1 := hn
        split
        · obtain ⟨a, b⟩ := tree_close_any beh id (fun l => List.Perm.refl l) _ t2 st.nscopes (by rw [hn2]; omega)
          exact ⟨a, by rw [b, hn2]; omega⟩
        · have hopen2 : ((addChild r.1 p st.nscopes).scope st.nscopes).disposed = false := by
            rw [addChild_scope]; split
            next h => exact absurd h.symm hpne
            · exact hopen
          exact ⟨tree_addProv st.nscopes t2 (by rw [hn2]; omega)
            (by unfold rootScope; omega) hopen2
            (fun l hl hm => by
              have hl' : r.1.provScopes = some l := hl
              have := tb1.1 l hl' _ hm; omega), by
            show st.nscopes ≤ r.1.nscopes
            rw [hn]; omega⟩

theorem resolve_tree (beh : Beh) (st : State) (s ty key : Nat) (wf : WF st.descs) (t : Tree st) :
    Tree (scopeGet beh st s ty key).1 ∧ (scopeGet beh st s ty key).1.nscopes = st.nscopes := by
  by_cases hd : (st.scope s).disposed = true
  · unfold scopeGet; rw [resolve_disposed beh _ st s ty key hd]; exact ⟨t, rfl⟩
  · have e := (frame beh (fuelFor st)).1 st s ty key wf
    exact ⟨tree_ext e (by simpa using hd) t, e.nscopes⟩

theorem getGroup_tree (beh : Beh) (st : State) (s ty grp : Nat) (wf : WF st.descs) (t : Tree st) :
    Tree (scopeGetGroup beh st s ty grp).1 ∧ (scopeGetGroup beh st s ty grp).1.nscopes = st.nscopes := by
  by_cases hd : (st.scope s).disposed = true
  · unfold scopeGetGroup; rw [getGroup_disposed beh _ st s ty grp hd]; exact ⟨t, rfl⟩
  · have e := (frame beh (fuelFor st)).2.2.1 st s ty grp wf
    exact ⟨tree_ext e (by simpa using hd) t, e.nscopes⟩

theorem tree_stepOp (beh : Beh) (st : State) (op : Op) (wf : WF st.descs) (i : InitOK st) (t : Tree st)
    (h0 : 0 < st.nscopes) (hv : validOpT st op) : Tree (stepOp beh st op) ∧ 0 < (stepOp beh st op).nscopes := by
  cases op with
  | get s ty key =>
    cases s with
    | none =>
      show Tree (providerGet beh st ty key).1 ∧ 0 < (providerGet beh st ty key).1.nscopes
      unfold providerGet; split
      · exact ⟨t, h0⟩
      · obtain ⟨a, b⟩ := resolve_tree beh st rootScope ty key wf t
        exact ⟨a, by rw [b]; exact h0⟩
    | some s =>
      obtain ⟨a, b⟩ := resolve_tree beh st s ty key wf t
      exact ⟨a, by show 0 < (scopeGet beh st s ty key).1.nscopes; rw [b]; exact h0⟩
  | getGroup s ty grp =>
    cases s with
    | none =>
      show Tree (providerGetGroup beh st ty grp).1 ∧ 0 < (providerGetGroup beh st ty grp).1.nscopes
      unfold providerGetGroup; split
      · exact ⟨t, h0⟩
      · obtain ⟨a, b⟩ := getGroup_tree beh st rootScope ty grp wf t
        exact ⟨a, by rw [b]; exact h0⟩
    | some s =>
      obtain ⟨a, b⟩ := getGroup_tree beh st s ty grp wf t
      exact ⟨a, by show 0 < (scopeGetGroup beh st s ty grp).1.nscopes; rw [b]; exact h0⟩
  | createScope p ctx =>
    cases p with
    | none =>
      obtain ⟨a, b⟩ := tree_providerCreateScope beh st ctx wf i t h0
      exact ⟨a, Nat.lt_of_lt_of_le h0 b⟩
    | some p =>
      obtain ⟨a, b⟩ := tree_scopeCreateScope beh st p ctx wf i t h0 hv
      exact ⟨a, Nat.lt_of_lt_of_le h0 b⟩
  | closeScope s order =>
    obtain ⟨a, b⟩ := tree_close_any beh order hv.2 st t s hv.1
    exact ⟨a, by show 0 < (closeScope beh order (closeFuel st) st s).1.nscopes; rw [b]; exact h0⟩

def ValidHistT (beh : Beh) : State → List Op → Prop
  | _, [] => True
  | st, op :: rest => validOpT st op ∧ ValidHistT beh (stepOp beh st op) rest

/-- THE FOREST INVARIANT OVER HISTORIES -/
theorem tree_run (beh : Beh) : ∀ (ops : List Op) (st : State), WF st.descs → InitOK st → Tree st → 0 < st.nscopes →
    ValidHistT beh st ops → Tree (run beh st ops) := by
  intro ops
  induction ops with
  | nil => intro st _ _ t _ _; exact t
  | cons op rest ih =>
    intro st wf i t h0 hv
    have s1 := stepOp_stable beh st op wf i
    obtain ⟨t1, h1⟩ := tree_stepOp beh st op wf i t h0 hv.1
    exact ih _ (s1.wf wf) (s1.initOK i) t1 h1 hv.2

end Godi.Container
