import GodiProofs.Container.TreeOps
import GodiProofs.Container.Terminates
/-!
# The forest invariant holds in the state Build returns

`TFrame`: what no resolution, construction or storing of instances — of any lifetime, singletons at Build
included — ever touches: the scope count, the provider's table, and of every scope the `disposed` flag, the
parent link and the child table; a released instance cache stays released. By induction on the fuel over the
six resolution functions. Build creates the root scope, runs `createInstance` for the singletons and the root
scope's initializers; so a successful Build returns a state with `Tree`.
-/
namespace Godi.Container

structure TFrame (st st' : State) : Prop where
  nscopes : st'.nscopes = st.nscopes
  prov : st'.provScopes = st.provScopes
  disp : ∀ x, (st'.scope x).disposed = (st.scope x).disposed
  parent : ∀ x, (st'.scope x).parent = (st.scope x).parent
  children : ∀ x, (st'.scope x).children = (st.scope x).children
  instNone : ∀ x, (st.scope x).instances = none → (st'.scope x).instances = none

theorem TFrame.refl (st : State) : TFrame st st := ⟨rfl, rfl, fun _ => rfl, fun _ => rfl, fun _ => rfl, fun _ h => h⟩

theorem TFrame.trans {a b c : State} (h1 : TFrame a b) (h2 : TFrame b c) : TFrame a c :=
  ⟨h2.nscopes.trans h1.nscopes, h2.prov.trans h1.prov, fun x => (h2.disp x).trans (h1.disp x),
   fun x => (h2.parent x).trans (h1.parent x), fun x => (h2.children x).trans (h1.children x),
   fun x h => h2.instNone x (h1.instNone x h)⟩

theorem TFrame.tree {A N : Nat → Prop} {st st' : State} (f : TFrame st st') (t : TreeEx A N st) : TreeEx A N st' := by
  refine ⟨?_, ?_, ?_, ?_, ?_, ?_, ?_⟩
  · intro c p hc hp; rw [f.nscopes] at hc; rw [f.parent] at hp; exact t.older c p hc hp
  · intro p C hC
    rw [f.children] at hC
    refine ⟨(t.kids p C hC).1, ?_⟩
    intro c hc
    have := (t.kids p C hC).2 c hc
    rw [f.nscopes, f.parent, f.disp]; exact this
  · intro l hl
    rw [f.prov] at hl
    refine ⟨(t.tbl l hl).1, ?_⟩
    intro x hx
    have := (t.tbl l hl).2 x hx
    rw [f.nscopes, f.disp]; exact this
  · intro c p hc hp hd
    rw [f.nscopes] at hc; rw [f.parent] at hp; rw [f.disp] at hd ⊢
    exact t.up c p hc hp hd
  · intro c p C hc hp hd hC
    rw [f.nscopes] at hc; rw [f.parent] at hp; rw [f.disp] at hd; rw [f.children] at hC
    exact t.member c p C hc hp hd hC
  · intro x hd; rw [f.disp] at hd; rw [f.children]; exact t.openHas x hd
  · intro x hd ha
    rw [f.disp] at hd; rw [f.children]
    obtain ⟨h1, h2⟩ := t.released x hd ha
    exact ⟨h1, f.instNone x h2⟩

theorem tframe_upd (st : State) (s : Nat) (g : ScopeSt → ScopeSt) (hd : ∀ sc, (g sc).disposed = sc.disposed)
    (hp : ∀ sc, (g sc).parent = sc.parent) (hc : ∀ sc, (g sc).children = sc.children)
    (hi : ∀ sc, sc.instances = none → (g sc).instances = none) : TFrame st (updScope st s g) := by
  refine ⟨rfl, rfl, ?_, ?_, ?_, ?_⟩ <;> intro x <;> rw [scope_upd] <;> split
  next h => subst h; exact hd _
  · rfl
  next h => subst h; exact hp _
  · rfl
  next h => subst h; exact hc _
  · rfl
  next h => subst h; exact hi _
  · exact fun h => h

theorem tframe_of_eq {st st' : State} (hs : st'.scope = st.scope) (hn : st'.nscopes = st.nscopes)
    (hp : st'.provScopes = st.provScopes) : TFrame st st' :=
  ⟨hn, hp, fun x => by rw [hs], fun x => by rw [hs], fun x => by rw [hs], fun x h => by rw [hs]; exact h⟩

theorem tframe_log (st : State) (e : Event) : TFrame st (logEv st e) := tframe_of_eq rfl rfl rfl
theorem tframe_bump (st : State) (c : Nat) : TFrame st (bumpInv st c) := tframe_of_eq rfl rfl rfl
theorem tframe_alloc (st : State) (k c n : Nat) : TFrame st (alloc st k c n) := tframe_of_eq rfl rfl rfl
theorem tframe_storeSingleton (st : State) (k : Ident) (v : Val) : TFrame st (storeSingleton st k v) := tframe_of_eq rfl rfl rfl

theorem tframe_putInstance (st : State) (s : Nat) (k : Ident) (v : Val) : TFrame st (putInstance st s k v) := by
  unfold putInstance
  exact tframe_upd st s _ (fun _ => rfl) (fun _ => rfl) (fun _ => rfl) (fun sc h => by simp [h])

theorem tframe_track (st : State) (s : Nat) (v : Val) (disp : Bool) : TFrame st (track st s v disp).1 := by
  unfold track
  split
  · split
    · split
      · exact tframe_of_eq rfl rfl rfl
      · exact TFrame.refl st
    · split
      · simp only []
        refine ⟨rfl, rfl, ?_, ?_, ?_, ?_⟩ <;> intro x <;> rw [scope_upd] <;> split
        next h => subst h; rfl
        · rfl
        next h => subst h; rfl
        · rfl
        next h => subst h; rfl
        · rfl
        next h => subst h; exact fun h => h
        · exact fun h => h
      · exact TFrame.refl st
  · split <;> exact TFrame.refl st

theorem tframe_setInstance (st : State) (s : Nat) (d : Desc) (k : Ident) (v : Val) : TFrame st (setInstance st s d k v).1 := by
  unfold setInstance
  split
  · split
    · split
      · exact tframe_of_eq rfl rfl rfl
      · exact tframe_of_eq rfl rfl rfl
    · exact tframe_of_eq rfl rfl rfl
  · exact (tframe_putInstance st s k v).trans (tframe_track _ s v d.disp)
  · exact tframe_track st s v d.disp

theorem tframe_shareInstance (st : State) (s : Nat) (d : Desc) (k : Ident) (v : Val) : TFrame st (shareInstance st s d k v) := by
  unfold shareInstance
  split
  · exact tframe_of_eq rfl rfl rfl
  · exact tframe_putInstance st s k v
  · exact TFrame.refl _

theorem tframe_storeOuts (s : Nat) : ∀ (sibs : List Desc) (outs : List Inst) (st : State),
    TFrame st (storeOuts st s sibs outs).1 := by
  intro sibs
  induction sibs with
  | nil => intro outs st; simp [storeOuts]; exact TFrame.refl st
  | cons d ds ih =>
    intro outs st
    cases outs with
    | nil => simp [storeOuts]; exact TFrame.refl st
    | cons o os =>
      unfold storeOuts
      simp only []
      exact (tframe_setInstance st s d d.ident (.inst o)).trans (ih os _)

theorem tframe_shareAll (s self : Nat) (v : Val) : ∀ (sibs : List Desc) (st : State), TFrame st (shareAll st s self sibs v) := by
  intro sibs
  induction sibs with
  | nil => intro st; exact TFrame.refl st
  | cons d ds ih =>
    intro st
    unfold shareAll
    simp only [List.foldl_cons]
    have h2 := ih (if d.id = self then st else shareInstance st s d d.ident v)
    unfold shareAll at h2
    refine TFrame.trans ?_ h2
    split
    · exact TFrame.refl st
    · exact tframe_shareInstance st s d d.ident v

theorem tframe_markAbsent (st : State) (s : Nat) (sibs0 : List Desc) (nil? : Option Nat) :
    TFrame st (markAbsent st s sibs0 nil?) := by
  unfold markAbsent
  split
  · split
    · exact tframe_shareInstance _ _ _ _ _
    · exact TFrame.refl st
  · exact TFrame.refl st

/-- resolution and construction, for every lifetime, leave the forest alone -/
theorem tframe_all (beh : Beh) : ∀ fuel,
    (∀ st s ty key, TFrame st (resolve beh fuel st s ty key).1) ∧
    (∀ st s d, TFrame st (resolveDesc beh fuel st s d).1) ∧
    (∀ st s ty grp, TFrame st (getGroup beh fuel st s ty grp).1) ∧
    (∀ st s ds acc, TFrame st (resolveMembers beh fuel st s ds acc).1) ∧
    (∀ st s deps acc, TFrame st (buildArgs beh fuel st s deps acc).1) ∧
    (∀ st s d, TFrame st (createInstance beh fuel st s d).1) := by
  intro fuel
  induction fuel with
  | zero =>
    refine ⟨?_, ?_, ?_, ?_, ?_, ?_⟩ <;> intros <;>
      simp [resolve, resolveDesc, getGroup, resolveMembers, buildArgs, createInstance] <;> exact TFrame.refl _
  | succ f ih =>
    obtain ⟨ihR, ihD, ihG, ihM, ihA, ihC⟩ := ih
    refine ⟨?_, ?_, ?_, ?_, ?_, ?_⟩
    · intro st s ty key
      unfold resolve
      split; · exact TFrame.refl _
      split; · exact TFrame.refl _
      split; · exact TFrame.refl _
      split; · exact TFrame.refl _
      split
      · exact TFrame.refl _
      · exact ihD st s _
    · intro st s d
      unfold resolveDesc
      split
      · split <;> exact TFrame.refl _
      · split
        · exact TFrame.refl _
        · exact TFrame.refl _
        · exact ihC st s d
      · exact ihC st s d
    · intro st s ty grp
      unfold getGroup
      split; · exact TFrame.refl _
      exact ihM st s _ []
    · intro st s ds acc
      cases ds with
      | nil => unfold resolveMembers; exact TFrame.refl _
      | cons d rest =>
        rw [resolveMembers_cons]
        unfold membersStep
        split
        · exact (ihD st s d).trans (ihM _ s rest _)
        · exact (ihD st s d).trans (ihM _ s rest _)
        · exact ihD st s d
    · intro st s deps acc
      cases deps with
      | nil => unfold buildArgs; exact TFrame.refl _
      | cons dep rest =>
        rw [buildArgs_cons]
        have h1 : TFrame st (if dep.grp != 0 then getGroup beh f st s dep.ty dep.grp
            else resolve beh f st s dep.ty dep.key).1 := by
          split
          · exact ihG st s _ _
          · exact ihR st s _ _
        generalize (if dep.grp != 0 then getGroup beh f st s dep.ty dep.grp
            else resolve beh f st s dep.ty dep.key) = r at h1
        unfold argsStep
        split
        · exact h1.trans (ihA r.1 s rest _)
        · split
          · exact h1.trans (ihA r.1 s rest _)
          · exact h1
    · intro st s d
      unfold createInstance
      split
      · simp only []
        split
        · exact tframe_setInstance _ _ _ _ _
        · exact (tframe_setInstance _ _ _ _ _).trans (tframe_shareAll _ _ _ _ _)
      · simp only []
        have hA := ihA st s d.deps []
        generalize buildArgs beh f st s d.deps [] = ra at hA
        split
        · exact hA
        · have hB : TFrame st (bumpInv ra.1 d.ctor) := hA.trans (tframe_bump _ _)
          split
          · exact hB.trans (tframe_log _ _)
          · exact hB.trans (tframe_log _ _)
          · exact hB.trans (tframe_log _ _)
          · split
            · exact (hB.trans (tframe_log _ _)).trans (tframe_setInstance _ _ _ _ _)
            · simp only []
              exact (((hB.trans (tframe_alloc _ _ _ _)).trans (tframe_log _ _)).trans (tframe_storeOuts _ _ _ _)).trans
                (tframe_markAbsent _ _ _ _)
            · split
              · exact ((hB.trans (tframe_alloc _ _ _ _)).trans (tframe_log _ _)).trans (tframe_setInstance _ _ _ _ _)
              · exact (((hB.trans (tframe_alloc _ _ _ _)).trans (tframe_log _ _)).trans (tframe_setInstance _ _ _ _ _)).trans
                  (tframe_shareAll _ _ _ _ _)

/-! ### Build -/

theorem tree_empty (descs : List Desc) (nx : Nat) : Tree ({ descs := descs, next := nx } : State) := by
  refine ⟨?_, ?_, ?_, ?_, ?_, ?_, ?_⟩
  · intro c p hc _; exact absurd hc (Nat.not_lt_zero _)
  · intro p C hC
    have : C = [] := by
      have h : (some ([] : List Nat)) = some C := hC
      exact (Option.some.inj h).symm
    subst this
    exact ⟨List.nodup_nil, fun c hc => by cases hc⟩
  · intro l hl
    have : l = [] := by
      have h : (some ([] : List Nat)) = some l := hl
      exact (Option.some.inj h).symm
    subst this
    exact ⟨List.nodup_nil, fun c hc => by cases hc⟩
  · intro c p hc _ _; exact absurd hc (Nat.not_lt_zero _)
  · intro c p C hc _ _ _; exact absurd hc (Nat.not_lt_zero _)
  · intro x _; rfl
  · intro x hd _; cases hd

theorem createSingletons_tframe (beh : Beh) : ∀ (order : List Nat) (st : State), TFrame st (createSingletons beh st order).1 := by
  intro order
  induction order with
  | nil => intro st; exact TFrame.refl st
  | cons id rest ih =>
    intro st
    unfold createSingletons
    split
    · exact ih st
    · split
      · exact ih st
      · split
        · exact TFrame.refl st
        · split
          · exact ih st
          · simp only []
            have h1 := (tframe_all beh (fuelFor st)).2.2.2.2.2 st rootScope ‹Desc›
            split
            · exact h1.trans (ih _)
            · exact h1

theorem runInitializers_tframe (beh : Beh) (s : Nat) : ∀ (ids : List Nat) (st : State),
    TFrame st (runInitializers beh st s ids).1 := by
  intro ids
  induction ids with
  | nil => intro st; exact TFrame.refl st
  | cons id rest ih =>
    intro st
    unfold runInitializers
    split
    · exact ih st
    next d _ =>
      simp only []
      have h1 := (tframe_all beh (fuelFor st)).2.2.2.2.2 st s d
      split
      · exact h1.trans (ih _)
      · exact h1

/-- the state a successful Build returns satisfies the forest invariant (and has its root scope) -/
theorem tree_buildRuntime (beh : Beh) (descs : List Desc) (order : List Nat) (st : State)
    (h : buildRuntime beh descs order = (st, .ok ())) : Tree st ∧ 0 < st.nscopes := by
  unfold buildRuntime at h
  simp only [newScope, Bool.false_eq_true, ↓reduceIte] at h
  -- the root scope
  have t0 := tree_empty descs (firstFresh descs)
  obtain ⟨t1, _⟩ := tree_alloc t0 none 0 (fun p hp => by cases hp)
  have t1' : Tree (allocScope { descs := descs, next := firstFresh descs } none 0) :=
    tree_drop_exempt _ t1 (Or.inl (by rw [alloc_scope]; simp))
  have f2 := createSingletons_tframe beh order (allocScope { descs := descs, next := firstFresh descs } none 0)
  generalize createSingletons beh (allocScope { descs := descs, next := firstFresh descs } none 0) order = r2 at h f2
  obtain ⟨st2, res2⟩ := r2
  cases res2 with
  | error e =>
    simp only [] at h
    split at h <;> cases h
  | ok u =>
    simp only [] at h
    have t2 : Tree st2 := f2.tree t1'
    have hn2 : st2.nscopes = 1 := f2.nscopes
    have sf : SameForest st2 { st2 with initializers := (descs.filter isInitializer).map (·.id) } :=
      ⟨rfl, rfl, fun _ => rfl, fun _ => rfl, fun _ => rfl, fun _ => rfl⟩
    have t3 := t2.congr sf
    have f4 := runInitializers_tframe beh rootScope ((descs.filter isInitializer).map (·.id))
      { st2 with initializers := (descs.filter isInitializer).map (·.id) }
    generalize runInitializers beh { st2 with initializers := (descs.filter isInitializer).map (·.id) } rootScope
      ((descs.filter isInitializer).map (·.id)) = r4 at h f4
    obtain ⟨st4, res4⟩ := r4
    cases res4 with
    | error e =>
      simp only [] at h
      split at h <;> cases h
    | ok u =>
      simp only [Prod.mk.injEq] at h
      obtain ⟨rfl, _⟩ := h
      exact ⟨f4.tree t3, by rw [f4.nscopes]; show 0 < st2.nscopes; rw [hn2]; exact Nat.one_pos⟩

theorem tree_build (beh : Beh) (descs : List Desc) (order : List Nat) (st : State)
    (h : build beh descs order = (st, .ok ())) : Tree st ∧ 0 < st.nscopes := by
  unfold build at h
  split at h
  · exact tree_buildRuntime beh descs order st h
  · simp at h

end Godi.Container
