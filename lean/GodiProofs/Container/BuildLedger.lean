import GodiProofs.Container.Drain
import GodiProofs.Container.BuildOnce
/-!
# The ledger holds from the first step of Build

`buildRuntime` starts from empty tables; singletons go to the provider's disposal list — each
constructor product once, each registered instance value once (whatever the number of interface
types it is registered under). So the built provider satisfies `Ledger` and `Tidy`, and so does
the partial provider a failing Build hands to its cleanup.
-/
namespace Godi.Container

/-- the part of the state the singleton-storing tail of `createInstance` never touches -/
structure ShapeSame (st st' : State) : Prop where
  scope : st'.scope = st.scope
  provScopes : st'.provScopes = st.provScopes
  nscopes : st'.nscopes = st.nscopes
  disposed : st'.disposed = st.disposed
  descs : st'.descs = st.descs
  initializers : st'.initializers = st.initializers

theorem ShapeSame.refl (st : State) : ShapeSame st st := ⟨rfl, rfl, rfl, rfl, rfl, rfl⟩
theorem ShapeSame.trans {a b c : State} (h1 : ShapeSame a b) (h2 : ShapeSame b c) : ShapeSame a c :=
  ⟨h2.scope.trans h1.scope, h2.provScopes.trans h1.provScopes, h2.nscopes.trans h1.nscopes,
   h2.disposed.trans h1.disposed, h2.descs.trans h1.descs, h2.initializers.trans h1.initializers⟩

theorem mem_provD_append (st : State) (i j : Inst) :
    j ∈ provD { st with provDisposables := some ((st.provDisposables.getD []) ++ [i]) } ↔ j ∈ provD st ∨ j = i := by
  unfold provD; simp

/-- a singleton product enters the provider's list -/
theorem setInstance_sing_lstep (st : State) (L : Ledger st) (s : Nat) (d : Desc) (k : Ident) (i : Inst)
    (hl : d.life = .singleton) (hf : Fresh st i) (hi : i < st.next) :
    LStep st (setInstance st s d k (.inst i)).1 ∧ ShapeSame st (setInstance st s d k (.inst i)).1 ∧
    (setInstance st s d k (.inst i)).2 = .ok () ∧
    (d.disp = true → Owed (setInstance st s d k (.inst i)).1 i) := by
  unfold setInstance
  simp only [hl]
  have h1 := lstep_storeSingleton st L k (.inst i)
  by_cases hd : d.disp = true
  · simp only [hd, ↓reduceIte]
    have hm := mem_provD_append (storeSingleton st k (.inst i)) i
    have hnotS : ∀ x, i ∉ dispOf st x := fun x hx => hf.1 (Or.inl ⟨x, hx⟩)
    have hnotP : i ∉ provD st := fun hx => hf.1 (Or.inr hx)
    have htr : ∀ j, Tracked { storeSingleton st k (.inst i) with
        provDisposables := some (((storeSingleton st k (.inst i)).provDisposables.getD []) ++ [i]) } j ↔
        Tracked st j ∨ j = i := by
      intro j
      unfold Tracked
      rw [hm]
      constructor
      · rintro (h | h | h)
        · exact Or.inl (Or.inl h)
        · exact Or.inl (Or.inr h)
        · exact Or.inr h
      · rintro ((h | h) | h)
        · exact Or.inl h
        · exact Or.inr (Or.inl h)
        · exact Or.inr (Or.inr h)
    refine ⟨⟨⟨L.nodupS, ?_, L.disjS, ?_, ?_, L.once, ?_, L.pristine⟩, ?_⟩, ⟨rfl, rfl, rfl, rfl, rfl, rfl⟩, by trivial, ?_⟩
    · show (provD st ++ [i]).Nodup
      exact List.nodup_append.2 ⟨L.nodupP, by simp, by
        intro a ha b hb; simp at hb; subst hb; intro e; subst e; exact hnotP ha⟩
    · intro x j hx hp
      rcases (hm j).1 hp with h | h
      · exact L.disjP x j hx h
      · subst h; exact hnotS x hx
    · intro j hj
      rcases (htr j).1 hj with h | h
      · exact L.pending j h
      · subst h; exact hf.2
    · intro j hj
      rcases hj with hj | hj
      · rcases (htr j).1 hj with h | h
        · exact L.known j (Or.inl h)
        · subst h; exact hi
      · exact L.known j (Or.inr hj)
    · intro j hj
      unfold Owed at *
      rcases hj with h | h
      · exact Or.inl ((htr j).2 (Or.inl h))
      · exact Or.inr h
    · intro _; exact Or.inl ((htr i).2 (Or.inr rfl))
  · have hd' : d.disp = false := by simpa using hd
    simp only [hd', Bool.false_eq_true, ↓reduceIte]
    exact ⟨h1, ⟨rfl, rfl, rfl, rfl, rfl, rfl⟩, by trivial, fun h => by cases h⟩

theorem setInstance_sing_other (st : State) (L : Ledger st) (s : Nat) (d : Desc) (k : Ident) (v : Val)
    (hv : ∀ i, v ≠ .inst i) (hl : d.life = .singleton) :
    LStep st (setInstance st s d k v).1 ∧ ShapeSame st (setInstance st s d k v).1 := by
  unfold setInstance
  simp only [hl]
  cases v with
  | inst i => exact absurd rfl (hv i)
  | _ => exact ⟨lstep_storeSingleton st L k _, ⟨rfl, rfl, rfl, rfl, rfl, rfl⟩⟩

theorem shareAll_sing_shape (s self : Nat) (v : Val) : ∀ (sibs : List Desc) (st : State),
    (∀ d ∈ sibs, d.life = .singleton) → ShapeSame st (shareAll st s self sibs v) := by
  intro sibs
  induction sibs with
  | nil => intro st _; exact ShapeSame.refl st
  | cons d ds ih =>
    intro st h
    unfold shareAll
    simp only [List.foldl_cons]
    have hrest := fun st' => ih st' (fun x hx => h x (List.mem_cons_of_mem _ hx))
    unfold shareAll at hrest
    split
    · exact hrest st
    · have h1 : ShapeSame st (shareInstance st s d d.ident v) := by
        unfold shareInstance; simp only [h d (by simp)]; exact ⟨rfl, rfl, rfl, rfl, rfl, rfl⟩
      exact h1.trans (hrest _)

theorem storeOuts_sing_lstep (s : Nat) : ∀ (sibs : List Desc) (outs : List Inst) (st : State), Ledger st →
    (∀ d ∈ sibs, d.life = .singleton) → outs.Nodup → (∀ o ∈ outs, Fresh st o ∧ o < st.next) →
    LStep st (storeOuts st s sibs outs).1 ∧ ShapeSame st (storeOuts st s sibs outs).1 := by
  intro sibs
  induction sibs with
  | nil => intro outs st L _ _ _; unfold storeOuts; exact ⟨LStep.refl L, ShapeSame.refl st⟩
  | cons d ds ih =>
    intro outs st L hlife hnd hfresh
    cases outs with
    | nil => unfold storeOuts; exact ⟨LStep.refl L, ShapeSame.refl st⟩
    | cons o os =>
      unfold storeOuts
      simp only []
      obtain ⟨h1, sh1, _, _⟩ := setInstance_sing_lstep st L s d d.ident o (hlife d (by simp))
        (hfresh o (by simp)).1 (hfresh o (by simp)).2
      obtain ⟨u1, n1⟩ := setInstance_untouched st s d d.ident o
      have hnd' := List.nodup_cons.1 hnd
      obtain ⟨h2, sh2⟩ := ih os (setInstance st s d d.ident (.inst o)).1 h1.ledger
        (fun x hx => hlife x (List.mem_cons_of_mem _ hx)) hnd'.2
        (fun o' ho' => ⟨u1.fresh (fun e => hnd'.1 (e ▸ ho')) (hfresh o' (List.mem_cons_of_mem _ ho')).1,
          by rw [n1]; exact (hfresh o' (List.mem_cons_of_mem _ ho')).2⟩)
      exact ⟨h1.trans h2, sh1.trans sh2⟩

end Godi.Container

namespace Godi.Container

theorem markAbsent_sing (st : State) (L : Ledger st) (s : Nat) (sibs0 : List Desc) (nil? : Option Nat)
    (h : ∀ d ∈ sibs0, d.life = .singleton) :
    LStep st (markAbsent st s sibs0 nil?) ∧ ShapeSame st (markAbsent st s sibs0 nil?) ∧
    Grows st.singletons (markAbsent st s sibs0 nil?).singletons := by
  refine ⟨lstep_markAbsent st L s sibs0 nil?, ?_, ?_⟩
  · unfold markAbsent
    split
    · split
      next dk hk =>
        unfold shareInstance; simp only [h dk (List.mem_of_getElem? hk)]; exact ⟨rfl, rfl, rfl, rfl, rfl, rfl⟩
      · exact ShapeSame.refl st
    · exact ShapeSame.refl st
  · unfold markAbsent
    split
    · split
      next dk hk =>
        unfold shareInstance; simp only [h dk (List.mem_of_getElem? hk)]; exact grows_put _ _ _
      · exact Grows.refl _
    · exact Grows.refl _

/-- the shape of the state while Build creates the singletons: one scope (the root), nothing closed -/
structure BuildShape (descs : List Desc) (st : State) : Prop where
  descsEq : st.descs = descs
  nscopes : st.nscopes = 1
  open_ : st.disposed = false
  table : st.provScopes = some []
  noneDisposed : ∀ x, (st.scope x).disposed = false

theorem BuildShape.of_shape {descs : List Desc} {st st' : State} (B : BuildShape descs st) (h : ShapeSame st st') :
    BuildShape descs st' :=
  ⟨h.descs.trans B.descsEq, h.nscopes.trans B.nscopes, h.disposed.trans B.open_, h.provScopes.trans B.table,
   fun x => by rw [h.scope]; exact B.noneDisposed x⟩

theorem BuildShape.of_ext {descs : List Desc} {st st' : State} {s : Nat} (B : BuildShape descs st) (e : Ext st st' s) :
    BuildShape descs st' :=
  ⟨e.descs.trans B.descsEq, e.nscopes.trans B.nscopes, e.disposed.trans B.open_, e.provScopes.trans B.table, fun x => by
    by_cases hx : x = s
    · subst hx; rw [e.sdisposed]; exact B.noneDisposed x
    · rw [e.others x hx]; exact B.noneDisposed x⟩

theorem BuildShape.tidy {descs : List Desc} {st : State} (B : BuildShape descs st) : Tidy st := by
  refine ⟨?_, ?_, ?_⟩
  · intro x _ hd
    rw [B.noneDisposed x] at hd; cases hd
  · intro l _ x _ hx hroot _
    rw [B.nscopes] at hx
    have : x = rootScope := by unfold rootScope; omega
    exact absurd this hroot
  · intro _; rw [B.table]; rfl

theorem shapeSame_bumpInv (st : State) (c : Nat) : ShapeSame st (bumpInv st c) := ⟨rfl, rfl, rfl, rfl, rfl, rfl⟩
theorem shapeSame_alloc (st : State) (k c n : Nat) : ShapeSame st (alloc st k c n) := ⟨rfl, rfl, rfl, rfl, rfl, rfl⟩
theorem shapeSame_logEv (st : State) (e : Event) : ShapeSame st (logEv st e) := ⟨rfl, rfl, rfl, rfl, rfl, rfl⟩

/-- ONE SINGLETON CREATION keeps the ledger and the shape; a registered instance value must be new
to the ledger (it is: see `KInv` below) -/
theorem create_sing_lstep (beh : Beh) (f : Nat) (st : State) (d : Desc) (wf : WF st.descs) (is : InstSingleton st.descs)
    (L : Ledger st) {descs : List Desc} (B : BuildShape descs st) (hd : d ∈ st.descs) (hl : d.life = .singleton)
    (hv : ∀ v, d.kind = .inst v → Fresh st v ∧ v < st.next) :
    LStep st (createInstance beh (f + 1) st rootScope d).1 ∧ BuildShape descs (createInstance beh (f + 1) st rootScope d).1 := by
  have hsiblife : ∀ (descs' : List Desc), descs' = st.descs → ∀ sd ∈ d.sibs.filterMap (findDesc descs'), sd.life = .singleton := by
    intro descs' he sd hsd
    obtain ⟨sid, hsid, hf⟩ := List.mem_filterMap.1 hsd
    rw [he] at hf
    rw [wf.sibLife d hd sid hsid sd hf]; exact hl
  unfold createInstance
  split
  next v hk =>
    simp only []
    obtain ⟨h1, sh1, ok1, _⟩ := setInstance_sing_lstep st L rootScope d d.ident v hl (hv v hk).1 (hv v hk).2
    simp only [ok1]
    exact ⟨h1.trans (lstep_shareAll rootScope d.id _ _ _ h1.ledger),
      B.of_shape (sh1.trans (shareAll_sing_shape rootScope d.id _ _ _ (hsiblife _ rfl)))⟩
  next hk =>
    simp only []
    have hroot : rootScope < st.nscopes := by rw [B.nscopes]; exact Nat.lt_succ_self _
    have hA := (ledger_frame beh f).2.2.2.2.1 st rootScope d.deps [] wf is L hroot
    have eA := (frame beh f).2.2.2.2.1 st rootScope d.deps [] wf
    have BA := B.of_ext eA
    generalize buildArgs beh f st rootScope d.deps [] = ra at hA eA BA
    split
    · exact ⟨hA, BA⟩
    next args _ =>
      have h2 := hA.trans (lstep_bumpInv ra.1 hA.ledger d.ctor)
      have B2 : BuildShape descs (bumpInv ra.1 d.ctor) := BA.of_shape (shapeSame_bumpInv _ _)
      have hd2 : (bumpInv ra.1 d.ctor).descs = st.descs := eA.descs
      split
      · exact ⟨h2.trans (lstep_logFail _ h2.ledger _ _ _ _ _), B2.of_shape (shapeSame_logEv _ _)⟩
      · exact ⟨h2.trans (lstep_logFail _ h2.ledger _ _ _ _ _), B2.of_shape (shapeSame_logEv _ _)⟩
      · exact ⟨h2.trans (lstep_logFail _ h2.ledger _ _ _ _ _), B2.of_shape (shapeSame_logEv _ _)⟩
      · split
        · -- void
          have h3 := h2.trans (lstep_logCtor _ h2.ledger d.id d.ctor ((bumpInv ra.1 d.ctor).invs d.ctor) rootScope args [])
          obtain ⟨h4, sh4⟩ := setInstance_sing_other _ h3.ledger rootScope d d.ident .unit (fun i h => by cases h) hl
          exact ⟨h3.trans h4, B2.of_shape ((shapeSame_logEv _ _).trans sh4)⟩
        · -- multi
          have h0 : ∀ sd ∈ (if (d.sibs.filterMap (findDesc (bumpInv ra.1 d.ctor).descs)).isEmpty then [d]
              else d.sibs.filterMap (findDesc (bumpInv ra.1 d.ctor).descs)), sd.life = .singleton := by
            split
            · intro sd hsd; simp at hsd; subst hsd; exact hl
            · exact hsiblife _ hd2
          have hmulti : ∀ (sibs' sibs0 : List Desc) (nil? : Option Nat), (∀ sd ∈ sibs', sd.life = .singleton) →
              (∀ sd ∈ sibs0, sd.life = .singleton) →
              LStep st (markAbsent (storeOuts
                (logEv (alloc (bumpInv ra.1 d.ctor) sibs'.length d.ctor ((bumpInv ra.1 d.ctor).invs d.ctor))
                  (.ctor d.id d.ctor ((bumpInv ra.1 d.ctor).invs d.ctor) rootScope args
                    (allocOuts (bumpInv ra.1 d.ctor).next sibs'.length)))
                rootScope sibs' (allocOuts (bumpInv ra.1 d.ctor).next sibs'.length)).1 rootScope sibs0 nil?) ∧
              BuildShape descs (markAbsent (storeOuts
                (logEv (alloc (bumpInv ra.1 d.ctor) sibs'.length d.ctor ((bumpInv ra.1 d.ctor).invs d.ctor))
                  (.ctor d.id d.ctor ((bumpInv ra.1 d.ctor).invs d.ctor) rootScope args
                    (allocOuts (bumpInv ra.1 d.ctor).next sibs'.length)))
                rootScope sibs' (allocOuts (bumpInv ra.1 d.ctor).next sibs'.length)).1 rootScope sibs0 nil?) := by
            intro sibs' sibs0 nil? hlife' hlife0
            have h3a := lstep_alloc _ h2.ledger sibs'.length d.ctor ((bumpInv ra.1 d.ctor).invs d.ctor)
            have h3 := h3a.trans (lstep_logCtor _ h3a.ledger d.id d.ctor ((bumpInv ra.1 d.ctor).invs d.ctor) rootScope args
              (allocOuts (bumpInv ra.1 d.ctor).next sibs'.length))
            have hfr : ∀ o ∈ allocOuts (bumpInv ra.1 d.ctor).next sibs'.length,
                Fresh (logEv (alloc (bumpInv ra.1 d.ctor) sibs'.length d.ctor ((bumpInv ra.1 d.ctor).invs d.ctor))
                  (.ctor d.id d.ctor ((bumpInv ra.1 d.ctor).invs d.ctor) rootScope args
                    (allocOuts (bumpInv ra.1 d.ctor).next sibs'.length))) o ∧
                o < (logEv (alloc (bumpInv ra.1 d.ctor) sibs'.length d.ctor ((bumpInv ra.1 d.ctor).invs d.ctor))
                  (.ctor d.id d.ctor ((bumpInv ra.1 d.ctor).invs d.ctor) rootScope args
                    (allocOuts (bumpInv ra.1 d.ctor).next sibs'.length))).next := by
              intro o ho
              obtain ⟨lo, hi⟩ := mem_allocOuts ho
              have hf2 := h2.ledger.fresh_of_ge lo
              refine ⟨⟨hf2.1, ?_⟩, hi⟩
              show closedCount ((bumpInv ra.1 d.ctor).log ++ [_]) o = 0
              rw [closedCount_append, closedCount_ctor]; exact hf2.2
            obtain ⟨h4, sh4⟩ := storeOuts_sing_lstep rootScope sibs' (allocOuts (bumpInv ra.1 d.ctor).next sibs'.length) _
              h3.ledger hlife' (allocOuts_nodup _ _) hfr
            obtain ⟨h5, sh5, _⟩ := markAbsent_sing _ h4.ledger rootScope sibs0 nil? hlife0
            exact ⟨((h2.trans h3).trans h4).trans h5,
              B2.of_shape ((((shapeSame_alloc _ _ _ _).trans (shapeSame_logEv _ _)).trans sh4).trans sh5)⟩
          generalize (if (d.sibs.filterMap (findDesc (bumpInv ra.1 d.ctor).descs)).isEmpty then [d]
              else d.sibs.filterMap (findDesc (bumpInv ra.1 d.ctor).descs)) = sibs0 at h0 ⊢
          cases beh.nilField d.ctor ((bumpInv ra.1 d.ctor).invs d.ctor) with
          | none => exact hmulti sibs0 sibs0 none h0 h0
          | some k => exact hmulti (sibs0.eraseIdx k) sibs0 (some k) (fun sd hsd => h0 sd (List.mem_of_mem_eraseIdx hsd)) h0
        · -- plain
          have h3a := lstep_alloc _ h2.ledger 1 d.ctor ((bumpInv ra.1 d.ctor).invs d.ctor)
          have h3 := h3a.trans (lstep_logCtor _ h3a.ledger d.id d.ctor ((bumpInv ra.1 d.ctor).invs d.ctor) rootScope args
            [(bumpInv ra.1 d.ctor).next])
          have hf2 := h2.ledger.fresh_of_ge (Nat.le_refl (bumpInv ra.1 d.ctor).next)
          obtain ⟨h4, sh4, ok4, _⟩ := setInstance_sing_lstep
            (logEv (alloc (bumpInv ra.1 d.ctor) 1 d.ctor ((bumpInv ra.1 d.ctor).invs d.ctor))
              (.ctor d.id d.ctor ((bumpInv ra.1 d.ctor).invs d.ctor) rootScope args [(bumpInv ra.1 d.ctor).next]))
            h3.ledger rootScope d d.ident (bumpInv ra.1 d.ctor).next hl
            ⟨hf2.1, by
              show closedCount ((bumpInv ra.1 d.ctor).log ++ [_]) _ = 0
              rw [closedCount_append, closedCount_ctor]; exact hf2.2⟩
            (Nat.lt_succ_self _)
          simp only [ok4]
          exact ⟨((h2.trans h3).trans h4).trans (lstep_shareAll rootScope d.id _ _ _ h4.ledger),
            B2.of_shape ((((shapeSame_alloc _ _ _ _).trans (shapeSame_logEv _ _)).trans sh4).trans
              (shareAll_sing_shape rootScope d.id _ _ _ (hsiblife _ hd2)))⟩

end Godi.Container

namespace Godi.Container

/-- the singleton table only grows when a singleton is created -/
theorem create_sing_grows (beh : Beh) (f : Nat) (st : State) (s : Nat) (d : Desc) (wf : WF st.descs)
    (hd : d ∈ st.descs) (hl : d.life = .singleton) :
    Grows st.singletons (createInstance beh (f + 1) st s d).1.singletons := by
  have hsib : ∀ (descs' : List Desc), descs' = st.descs → ∀ sd ∈ d.sibs.filterMap (findDesc descs'),
      sd.life = .singleton ∧ (fun _ => True) sd.ident := by
    intro descs' he sd hsd
    obtain ⟨sid, hsid, hf⟩ := List.mem_filterMap.1 hsd
    rw [he] at hf
    exact ⟨by rw [wf.sibLife d hd sid hsid sd hf]; exact hl, trivial⟩
  unfold createInstance
  split
  next v hk =>
    simp only []
    obtain ⟨h1, _, ok1⟩ := setInstance_singleton (fun _ => True) st s d d.ident (.inst v) hl trivial
    simp only [ok1]
    exact h1.grows.trans (shareAll_singleton (fun _ => True) s d.id (.inst v) _ _ (hsib _ rfl)).1.grows
  next hk =>
    simp only []
    have eA := (frame beh f).2.2.2.2.1 st s d.deps [] wf
    generalize buildArgs beh f st s d.deps [] = ra at eA
    have g0 : Grows st.singletons ra.1.singletons := by rw [eA.singletons]; exact Grows.refl _
    have hd2 : (bumpInv ra.1 d.ctor).descs = st.descs := eA.descs
    split
    · exact g0
    next args _ =>
      split
      · exact g0
      · exact g0
      · exact g0
      · split
        · exact g0.trans (setInstance_singleton (fun _ => True)
            (logEv (bumpInv ra.1 d.ctor) (.ctor d.id d.ctor ((bumpInv ra.1 d.ctor).invs d.ctor) s args [])) s d d.ident .unit
            hl trivial).1.grows
        · have hmulti : ∀ (sibs' sibs0 : List Desc) (nil? : Option Nat) (outs : List Inst) (st3 : State),
              st3.singletons = ra.1.singletons → (∀ sd ∈ sibs', sd.life = .singleton) → (∀ sd ∈ sibs0, sd.life = .singleton) →
              Grows st.singletons (markAbsent (storeOuts st3 s sibs' outs).1 s sibs0 nil?).singletons := by
            intro sibs' sibs0 nil? outs st3 he hlife hlife0
            refine Grows.trans ?_ (by
              unfold markAbsent
              split
              · split
                next dk hk =>
                  unfold shareInstance; simp only [hlife0 dk (List.mem_of_getElem? hk)]; exact grows_put _ _ _
                · exact Grows.refl _
              · exact Grows.refl _)
            have : ∀ (sibs : List Desc) (outs : List Inst) (st3 : State), (∀ sd ∈ sibs, sd.life = .singleton) →
                Grows st3.singletons (storeOuts st3 s sibs outs).1.singletons := by
              intro sibs
              induction sibs with
              | nil => intro outs st3 _; unfold storeOuts; exact Grows.refl _
              | cons x xs ih =>
                intro outs st3 hl'
                cases outs with
                | nil => unfold storeOuts; exact Grows.refl _
                | cons o os =>
                  unfold storeOuts
                  simp only []
                  exact (setInstance_singleton (fun _ => True) st3 s x x.ident (.inst o) (hl' x (by simp)) trivial).1.grows.trans
                    (ih os _ (fun y hy => hl' y (List.mem_cons_of_mem _ hy)))
            have h := this sibs' outs st3 hlife
            rw [he] at h
            exact g0.trans h
          have h0 : ∀ sd ∈ (if (d.sibs.filterMap (findDesc (bumpInv ra.1 d.ctor).descs)).isEmpty then [d]
              else d.sibs.filterMap (findDesc (bumpInv ra.1 d.ctor).descs)), sd.life = .singleton := by
            split
            · intro sd hsd; simp at hsd; subst hsd; exact hl
            · exact fun sd hsd => (hsib _ hd2 sd hsd).1
          generalize (if (d.sibs.filterMap (findDesc (bumpInv ra.1 d.ctor).descs)).isEmpty then [d]
              else d.sibs.filterMap (findDesc (bumpInv ra.1 d.ctor).descs)) = sibs0 at h0 ⊢
          cases beh.nilField d.ctor ((bumpInv ra.1 d.ctor).invs d.ctor) with
          | none => exact hmulti sibs0 sibs0 none _ _ rfl h0 h0
          | some k => exact hmulti (sibs0.eraseIdx k) sibs0 (some k) _ _ rfl (fun sd hsd => h0 sd (List.mem_of_mem_eraseIdx hsd)) h0
        · obtain ⟨h1, _, ok1⟩ := setInstance_singleton (fun _ => True)
            (logEv (alloc (bumpInv ra.1 d.ctor) 1 d.ctor ((bumpInv ra.1 d.ctor).invs d.ctor))
              (.ctor d.id d.ctor ((bumpInv ra.1 d.ctor).invs d.ctor) s args [(bumpInv ra.1 d.ctor).next])) s d d.ident
            (.inst (bumpInv ra.1 d.ctor).next) hl trivial
          simp only [ok1]
          exact (g0.trans h1.grows).trans
            (shareAll_singleton (fun _ => True) s d.id _ _ _ (hsib _ hd2)).1.grows

/-- after a registered instance value has been materialised, every descriptor of its registration
answers in the singleton table -/
theorem create_inst_stored (beh : Beh) (f : Nat) (st : State) (s : Nat) (d : Desc) (v : Inst) (wf : WF st.descs)
    (rw' : RegWF st.descs) (hd : d ∈ st.descs) (hl : d.life = .singleton) (hk : d.kind = .inst v) :
    ∀ d' ∈ st.descs, d'.ctor = d.ctor → (lookup (createInstance beh (f + 1) st s d).1.singletons d'.ident).isSome := by
  have hsib : ∀ sd ∈ d.sibs.filterMap (findDesc st.descs), sd.life = .singleton ∧ (fun _ => True) sd.ident := by
    intro sd hsd
    obtain ⟨sid, hsid, hf⟩ := List.mem_filterMap.1 hsd
    exact ⟨by rw [wf.sibLife d hd sid hsid sd hf]; exact hl, trivial⟩
  unfold createInstance
  split
  next v' hk' =>
    simp only []
    obtain ⟨h1, s1, ok1⟩ := setInstance_singleton (fun _ => True) st s d d.ident (.inst v') hl trivial
    simp only [ok1]
    obtain ⟨h2, s2⟩ := shareAll_singleton (fun _ => True) s d.id (.inst v') (d.sibs.filterMap (findDesc st.descs)) _ hsib
    intro d' hd' hc
    rcases rw'.sameCtor d hd d' hd' hc with h | h
    · subst h; exact h2.grows _ s1
    · by_cases hid : d'.id = d.id
      · have : d' = d := by
          have a := wf.uniqueIds d' hd'
          have b := wf.uniqueIds d hd
          rw [hid, b] at a
          injection a with a; exact a.symm
        subst this; exact h2.grows _ s1
      · exact s2 d' (List.mem_filterMap.2 ⟨d'.id, h, wf.uniqueIds d' hd'⟩) hid
  next hne => exact absurd hk (hne v)

/-- registered instance values carry ids below the allocation counter -/
def InstBelow (st : State) : Prop := ∀ d ∈ st.descs, ∀ v, d.kind = .inst v → v < st.next

/-- two registrations never hold the same instance value (the same pointer registered twice would be
owned twice) -/
def InstDistinct (descs : List Desc) : Prop :=
  ∀ d ∈ descs, ∀ d' ∈ descs, ∀ v, d.kind = .inst v → d'.kind = .inst v → d'.ctor = d.ctor

/-- a registered instance value that the ledger already knows has been stored under every identity
of its registration — so the creation loop skips it -/
def KInv (st : State) : Prop :=
  ∀ d ∈ st.descs, ∀ v, d.kind = .inst v → ¬ Fresh st v → (lookup st.singletons d.ident).isSome

theorem fresh_of_untouched {st st' : State} {i j : Inst} (h : Untouched st st' i) (hj : j ≠ i) :
    Fresh st' j ↔ Fresh st j := by
  obtain ⟨a, b⟩ := h j hj
  unfold Fresh; rw [a, b]

theorem fresh_of_oldSame {st st' : State} {j : Inst} (h : OldSame st st') (hj : j < st.next) :
    Fresh st' j ↔ Fresh st j := by
  obtain ⟨a, b⟩ := h.same j hj
  unfold Fresh; rw [a, b]

/-- the invariants of the singleton-creation loop -/
structure BuildLedgerInv (descs : List Desc) (st : State) : Prop where
  ledger : Ledger st
  shape : BuildShape descs st
  below : InstBelow st
  kinv : KInv st

theorem buildLedger_step (beh : Beh) (descs : List Desc) (wf : WF descs) (rw' : RegWF descs) (is : InstSingleton descs)
    (idist : InstDistinct descs) (st : State) (inv : BuildLedgerInv descs st) (d : Desc) (hd : d ∈ descs)
    (hl : d.life = .singleton) (hnone : (lookup st.singletons d.ident).isSome = false) (f : Nat) :
    BuildLedgerInv descs (createInstance beh (f + 1) st rootScope d).1 ∧
    LStep st (createInstance beh (f + 1) st rootScope d).1 := by
  have hde := inv.shape.descsEq
  have wf' : WF st.descs := hde ▸ wf
  have is' : InstSingleton st.descs := hde ▸ is
  have rw'' : RegWF st.descs := hde ▸ rw'
  have hd' : d ∈ st.descs := hde ▸ hd
  have hv : ∀ v, d.kind = .inst v → Fresh st v ∧ v < st.next := by
    intro v hk
    refine ⟨?_, inv.below d hd' v hk⟩
    apply Classical.byContradiction
    intro hnf
    have := inv.kinv d hd' v hk hnf
    rw [this] at hnone; cases hnone
  obtain ⟨h1, B1⟩ := create_sing_lstep beh f st d wf' is' inv.ledger inv.shape hd' hl hv
  have g1 := create_sing_grows beh f st rootScope d wf' hd' hl
  have hdescs1 : (createInstance beh (f + 1) st rootScope d).1.descs = st.descs := B1.descsEq.trans hde.symm
  refine ⟨⟨h1.ledger, B1, ?_, ?_⟩, h1⟩
  · -- registered values stay below the counter
    intro d0 hd0 v hk0
    rw [hdescs1] at hd0
    have hlt := inv.below d0 hd0 v hk0
    by_cases hk : ∃ w, d.kind = .inst w
    · obtain ⟨w, hw⟩ := hk
      rw [(create_inst_untouched beh f st rootScope d w hw).2]; exact hlt
    · have hk' : ∀ w, d.kind ≠ .inst w := fun w hw => hk ⟨w, hw⟩
      exact Nat.lt_of_lt_of_le hlt ((old_frame beh (f + 1)).2.2.2.2.2 st rootScope d wf' is' hk').next
  · -- a known registered value is stored under all its identities
    intro d0 hd0 v hk0 hnf
    rw [hdescs1] at hd0
    by_cases hk : ∃ w, d.kind = .inst w
    · obtain ⟨w, hw⟩ := hk
      by_cases hvw : v = w
      · subst hvw
        have hc : d0.ctor = d.ctor := idist d hd d0 (hde ▸ hd0) v hw hk0
        exact create_inst_stored beh f st rootScope d v wf' rw'' hd' hl hw d0 hd0 hc
      · have hu := (create_inst_untouched beh f st rootScope d w hw).1
        have hnf' : ¬ Fresh st v := fun h => hnf ((fresh_of_untouched hu hvw).2 h)
        exact g1 _ (inv.kinv d0 hd0 v hk0 hnf')
    · have hk' : ∀ w, d.kind ≠ .inst w := fun w hw => hk ⟨w, hw⟩
      have ho := (old_frame beh (f + 1)).2.2.2.2.2 st rootScope d wf' is' hk'
      have hnf' : ¬ Fresh st v := fun h => hnf ((fresh_of_oldSame ho (inv.below d0 hd0 v hk0)).2 h)
      exact g1 _ (inv.kinv d0 hd0 v hk0 hnf')

/-- the singleton-creation loop keeps the invariants (whatever order, whatever fails) -/
theorem buildLedger_loop (beh : Beh) (descs : List Desc) (wf : WF descs) (rw' : RegWF descs) (is : InstSingleton descs)
    (idist : InstDistinct descs) : ∀ (order : List Nat) (st : State), BuildLedgerInv descs st →
    BuildLedgerInv descs (createSingletons beh st order).1 ∧ LStep st (createSingletons beh st order).1 := by
  intro order
  induction order with
  | nil => intro st inv; exact ⟨inv, LStep.refl inv.ledger⟩
  | cons id rest ih =>
    intro st inv
    unfold createSingletons
    split
    · exact ih st inv
    next d hfd =>
      have hd : d ∈ descs := by rw [← inv.shape.descsEq]; exact findDesc_mem' hfd
      split
      · exact ih st inv
      next hl =>
        have hl' : d.life = .singleton := by simpa using hl
        split
        · exact ⟨inv, LStep.refl inv.ledger⟩
        split
        · exact ih st inv
        next hn =>
          have hnone : (lookup st.singletons d.ident).isSome = false := by simpa using hn
          obtain ⟨f, hf⟩ : ∃ f, fuelFor st = f + 1 := ⟨fuelFor st - 1, by unfold fuelFor; omega⟩
          obtain ⟨i1, l1⟩ := buildLedger_step beh descs wf rw' is idist st inv d hd hl' hnone f
          rw [← hf] at i1 l1
          simp only []
          split
          · obtain ⟨i2, l2⟩ := ih _ i1
            exact ⟨i2, l1.trans l2⟩
          · exact ⟨i1, l1⟩

end Godi.Container

namespace Godi.Container

/-! ### Build as a whole -/

theorem le_foldl_max (l : List Nat) : ∀ (a : Nat), a ≤ l.foldl max a ∧ ∀ x ∈ l, x ≤ l.foldl max a := by
  induction l with
  | nil => intro a; exact ⟨Nat.le_refl _, by simp⟩
  | cons y ys ih =>
    intro a
    simp only [List.foldl_cons]
    obtain ⟨h1, h2⟩ := ih (max a y)
    refine ⟨Nat.le_trans (Nat.le_max_left a y) h1, ?_⟩
    intro x hx
    rcases List.mem_cons.1 hx with rfl | hx
    · exact Nat.le_trans (Nat.le_max_right a x) h1
    · exact h2 x hx

theorem instVal_lt_firstFresh (descs : List Desc) (d : Desc) (hd : d ∈ descs) (v : Inst) (hk : d.kind = .inst v) :
    v < firstFresh descs := by
  unfold firstFresh
  have : instVal d = v := by unfold instVal; rw [hk]
  have := (le_foldl_max (descs.map instVal) 0).2 v (by rw [← this]; exact List.mem_map_of_mem hd)
  exact Nat.lt_succ_of_le this

/-- the empty provider with its root scope -/
def buildStart (descs : List Desc) : State := allocScope { descs := descs, next := firstFresh descs } none 0

theorem buildStart_inv (descs : List Desc) : BuildLedgerInv descs (buildStart descs) := by
  have hdisp : ∀ s, dispOf (buildStart descs) s = [] := by
    intro s; unfold dispOf buildStart allocScope
    by_cases h : s = 0 <;> simp [h]
  have hnot : ∀ j, ¬ Tracked (buildStart descs) j := by
    rintro j (⟨s, hs⟩ | hp)
    · rw [hdisp s] at hs; cases hs
    · cases hp
  refine ⟨⟨?_, ?_, ?_, ?_, ?_, ?_, ?_, ?_⟩, ⟨rfl, rfl, rfl, rfl, ?_⟩, ?_, ?_⟩
  · intro s; rw [hdisp s]; exact List.nodup_nil
  · exact List.nodup_nil
  · intro s s' i h; rw [hdisp s] at h; cases h
  · intro s i h; rw [hdisp s] at h; cases h
  · intro j hj; exact absurd hj (hnot j)
  · intro j; exact Nat.zero_le _
  · intro j hj
    rcases hj with hj | hj
    · exact absurd hj (hnot j)
    · cases hj
  · intro s _; exact hdisp s
  · intro x; unfold buildStart allocScope; by_cases h : x = 0 <;> simp [h]
  · intro d hd v hk; exact instVal_lt_firstFresh descs d hd v hk
  · intro d _ v _ hnf
    exact absurd ⟨hnot v, rfl⟩ hnf

theorem initializers_scoped (descs : List Desc) (wf : WF descs) :
    ∀ id ∈ (descs.filter isInitializer).map (·.id), ∀ d, findDesc descs id = some d → d.life = .scoped := by
  intro id hid d hfd
  obtain ⟨d0, hd0, rfl⟩ := List.mem_map.1 hid
  obtain ⟨hmem, hinit⟩ := List.mem_filter.1 hd0
  rw [wf.uniqueIds d0 hmem] at hfd
  injection hfd with hfd; subst hfd
  unfold isInitializer at hinit
  simp only [Bool.and_eq_true, beq_iff_eq] at hinit
  exact hinit.1

/-- BUILD AND THE LEDGER. For every registry (with the structural guarantees of the collection),
every constructor behaviour and every creation order:
* the state Build returns satisfies the ledger — no instance is listed twice, none closed twice;
* a successful Build returns an open, tidy provider (so `never_leaked` applies to every history);
* a failed Build has closed its partial provider: no disposal list holds anything, so every
  disposable created on the way has been closed exactly once. -/
theorem build_ledger (beh : Beh) (descs : List Desc) (order : List Nat) (wf : WF descs) (rw' : RegWF descs)
    (is : InstSingleton descs) (idist : InstDistinct descs) :
    Ledger (buildRuntime beh descs order).1 ∧
    ((buildRuntime beh descs order).2 = .ok () →
      Tidy (buildRuntime beh descs order).1 ∧ (buildRuntime beh descs order).1.disposed = false ∧
      (buildRuntime beh descs order).1.descs = descs ∧ InitOK (buildRuntime beh descs order).1 ∧
      0 < (buildRuntime beh descs order).1.nscopes) ∧
    (∀ e, (buildRuntime beh descs order).2 = .error e → ∀ j, ¬ Tracked (buildRuntime beh descs order).1 j) := by
  unfold buildRuntime
  have hn : newScope beh { descs := descs, next := firstFresh descs } none 0 false = (buildStart descs, .ok 0) := by
    unfold newScope buildStart; simp
  simp only [hn]
  obtain ⟨i2, _⟩ := buildLedger_loop beh descs wf rw' is idist order (buildStart descs) (buildStart_inv descs)
  generalize createSingletons beh (buildStart descs) order = r2 at i2
  obtain ⟨st2, res2⟩ := r2
  have j2 : BuildLedgerInv descs st2 := i2
  clear i2
  have hid : ∀ (l : List Nat) (x : Nat), x ∈ l → x ∈ id l := fun _ _ h => h
  cases res2 with
  | error e =>
    simp only []
    have hL := ledger_closeProvider beh id st2 j2.ledger
    have hnone := closeProvider_all_closed beh id hid st2 j2.ledger j2.shape.tidy j2.shape.open_
    generalize closeProvider beh id st2 = r3 at hL hnone
    obtain ⟨st3, ce⟩ := r3
    exact ⟨hL.ledger, (fun h => by cases h), fun _ _ => hnone⟩
  | ok u =>
    simp only []
    -- the initializer list is installed
    have L3 : Ledger { st2 with initializers := (descs.filter isInitializer).map (·.id) } :=
      (LStep.same (st' := { st2 with initializers := (descs.filter isInitializer).map (·.id) }) j2.ledger
        (fun _ => rfl) rfl (fun _ => rfl) (Nat.le_refl _) (Nat.le_refl _)).ledger
    have B3 : BuildShape descs { st2 with initializers := (descs.filter isInitializer).map (·.id) } :=
      ⟨j2.shape.descsEq, j2.shape.nscopes, j2.shape.open_, j2.shape.table, j2.shape.noneDisposed⟩
    have wf3 : WF ({ st2 with initializers := (descs.filter isInitializer).map (·.id) } : State).descs := by
      show WF st2.descs; rw [j2.shape.descsEq]; exact wf
    have is3 : InstSingleton ({ st2 with initializers := (descs.filter isInitializer).map (·.id) } : State).descs := by
      show InstSingleton st2.descs; rw [j2.shape.descsEq]; exact is
    have hinit3 : ∀ id ∈ (descs.filter isInitializer).map (·.id), ∀ d,
        findDesc ({ st2 with initializers := (descs.filter isInitializer).map (·.id) } : State).descs id = some d →
        d.life = .scoped := by
      show ∀ id ∈ _, ∀ d, findDesc st2.descs id = some d → _
      rw [j2.shape.descsEq]; exact initializers_scoped descs wf
    have hroot : rootScope < ({ st2 with initializers := (descs.filter isInitializer).map (·.id) } : State).nscopes := by
      show rootScope < st2.nscopes; rw [j2.shape.nscopes]; exact Nat.lt_succ_self _
    have h4 := ledger_runInitializers beh rootScope ((descs.filter isInitializer).map (·.id))
      { st2 with initializers := (descs.filter isInitializer).map (·.id) } wf3 is3 L3 hroot hinit3
    obtain ⟨d4, r4, o4, n4⟩ := tidy_runInitializers beh (fun _ => False) rootScope ((descs.filter isInitializer).map (·.id))
      { st2 with initializers := (descs.filter isInitializer).map (·.id) } wf3 hinit3 (B3.noneDisposed rootScope)
      B3.tidy.drained B3.tidy.registered
    have s4 := runInitializers_stable beh rootScope ((descs.filter isInitializer).map (·.id))
      { st2 with initializers := (descs.filter isInitializer).map (·.id) } wf3 hinit3
    generalize runInitializers beh { st2 with initializers := (descs.filter isInitializer).map (·.id) } rootScope
      ((descs.filter isInitializer).map (·.id)) = r4' at h4 d4 r4 o4 n4 s4
    obtain ⟨st4, res4⟩ := r4'
    have hopen4 : st4.disposed = false := o4.pdisposed.trans B3.open_
    have T4 : Tidy st4 := ⟨d4, r4, fun _ => o4.provSome (by rw [B3.table]; rfl)⟩
    cases res4 with
    | ok u4 =>
      simp only []
      refine ⟨h4.ledger, (fun _ => ⟨T4, hopen4, ?_, ?_, ?_⟩), (fun e h => by cases h)⟩
      · exact s4.descs.trans j2.shape.descsEq
      · unfold InitOK
        rw [s4.descs, s4.initializers]
        exact hinit3
      · rw [n4]; exact hroot
    | error e4 =>
      simp only []
      have hL := ledger_closeProvider beh id st4 h4.ledger
      have hnone := closeProvider_all_closed beh id hid st4 h4.ledger T4 hopen4
      generalize closeProvider beh id st4 = r5 at hL hnone
      obtain ⟨st5, ce⟩ := r5
      exact ⟨hL.ledger, (fun h => by cases h), fun _ _ => hnone⟩

end Godi.Container
