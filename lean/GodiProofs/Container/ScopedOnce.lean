import GodiProofs.Container.BuildOnce
import GodiProofs.Container.Verdict
/-!
# One successful constructor call per scoped registration and scope

For every acyclic registry (a rank on constructors that strictly decreases along every declared
dependency — exists iff the dependency relation has no cycle, which Build checks), every behaviour and
every fuel: resolution inside an open scope never lets the constructor of a scoped registration
succeed twice in that scope; after a success every descriptor of the registration is cached there.
-/
namespace Godi.Container

/-- successful invocations of constructor `c` through scope `s` -/
def countIn (log : List Event) (c s : Nat) : Nat :=
  log.countP (fun e => match e with | .ctor _ c' _ s' _ _ => c' == c && s' == s | _ => false)

theorem countIn_append (l1 l2 : List Event) (c s : Nat) : countIn (l1 ++ l2) c s = countIn l1 c s + countIn l2 c s := by
  simp [countIn, List.countP_append]

@[simp] theorem countIn_nil (c s : Nat) : countIn [] c s = 0 := rfl

theorem countIn_ctor (d c' inv s' : Nat) (a : List Val) (o : List Inst) (c s : Nat) :
    countIn [.ctor d c' inv s' a o] c s = if c' = c ∧ s' = s then 1 else 0 := by
  simp only [countIn, List.countP_cons, List.countP_nil, Bool.and_eq_true, beq_iff_eq]
  split <;> simp_all

theorem countIn_ctorFail (d c' inv s' : Nat) (how : Outcome) (c s : Nat) :
    countIn [.ctorFail d c' inv s' how] c s = 0 := by simp [countIn, List.countP_cons]

def Cached (st : State) (s : Nat) (k : Ident) : Prop := (lookup ((st.scope s).instances.getD []) k).isSome

/-- `c` is the constructor of scoped registrations only -/
def ScopedCtor (descs : List Desc) (c : Nat) : Prop := ∀ d ∈ descs, d.ctor = c → d.life = .scoped

/-- the rank strictly decreases along every declared dependency -/
def Ranked (descs : List Desc) (rank : Nat → Nat) : Prop :=
  ∀ d ∈ descs, ∀ dep ∈ d.deps, ∀ t, Provides descs dep t → rank t.ctor < rank d.ctor

structure SInv (descs : List Desc) (st : State) : Prop where
  descsEq : st.descs = descs
  atMost : ∀ s c, ScopedCtor descs c → countIn st.log c s ≤ 1
  stored : ∀ s c, ScopedCtor descs c → countIn st.log c s = 1 → (st.scope s).disposed = false →
    ∀ d ∈ descs, d.ctor = c → Cached st s d.ident
  openOK : ∀ s, (st.scope s).disposed = false → ∃ m, (st.scope s).instances = some m
  fresh : ∀ s, st.nscopes ≤ s → ∀ c, countIn st.log c s = 0

/-- every new successful constructor event ran through scope `s` and has rank below `R` -/
def EvBound (rank : Nat → Nat) (s R : Nat) (new : List Event) : Prop :=
  ∀ e ∈ new, match e with
    | .ctor _ c _ s' _ _ => s' = s ∧ rank c < R
    | _ => True

theorem EvBound.append {rank : Nat → Nat} {s R : Nat} {a b : List Event} (h1 : EvBound rank s R a) (h2 : EvBound rank s R b) :
    EvBound rank s R (a ++ b) := by
  intro e he
  rcases List.mem_append.1 he with h | h
  · exact h1 e h
  · exact h2 e h

theorem EvBound.mono {rank : Nat → Nat} {s R R' : Nat} {a : List Event} (h : EvBound rank s R a) (hR : R ≤ R') :
    EvBound rank s R' a := by
  intro e he
  have := h e he
  cases e with
  | ctor d c inv s' a o => exact ⟨this.1, Nat.lt_of_lt_of_le this.2 hR⟩
  | ctorFail _ _ _ _ _ => trivial
  | closed _ _ _ => trivial

theorem evBound_nil (rank : Nat → Nat) (s R : Nat) : EvBound rank s R [] := by intro e he; simp at he

/-- events of rank below `rank c` are not events of `c`; events of another scope are not events of `s` -/
theorem countIn_of_bound (rank : Nat → Nat) (s R : Nat) (new : List Event) (h : EvBound rank s R new) (c s' : Nat)
    (hc : R ≤ rank c ∨ s' ≠ s) : countIn new c s' = 0 := by
  unfold countIn
  rw [List.countP_eq_zero]
  intro e he
  have := h e he
  cases e with
  | ctor d c' inv s'' a o =>
    simp only [Bool.and_eq_true, beq_iff_eq, not_and]
    intro hcc hss
    subst hcc; subst hss
    rcases hc with hc | hc
    · omega
    · exact hc this.1
  | ctorFail _ _ _ _ _ => simp
  | closed _ _ _ => simp

end Godi.Container

namespace Godi.Container

def OpenCache (st : State) (s : Nat) : Prop := (st.scope s).disposed = false ∧ ∃ m, (st.scope s).instances = some m

/-- a step that only writes scope `s`'s cache / disposal list: no event, nothing else touched -/
structure StoreStep (st st' : State) (s : Nat) : Prop where
  descs : st'.descs = st.descs
  log : st'.log = st.log
  others : ∀ x, x ≠ s → st'.scope x = st.scope x
  nscopes : st'.nscopes = st.nscopes
  before : OpenCache st s
  opened : OpenCache st' s
  grows : ∀ k, Cached st s k → Cached st' s k

theorem StoreStep.refl (st : State) (s : Nat) (h : OpenCache st s) : StoreStep st st s := ⟨rfl, rfl, fun _ _ => rfl, rfl, h, h, fun _ h => h⟩

theorem StoreStep.trans {a b c : State} {s : Nat} (h1 : StoreStep a b s) (h2 : StoreStep b c s) : StoreStep a c s :=
  ⟨h2.descs.trans h1.descs, h2.log.trans h1.log, fun x hx => (h2.others x hx).trans (h1.others x hx),
   h2.nscopes.trans h1.nscopes, h1.before, h2.opened,
   fun k h => h2.grows k (h1.grows k h)⟩

theorem track_store (st : State) (s : Nat) (v : Val) (disp : Bool) (h : OpenCache st s) :
    StoreStep st (track st s v disp).1 s ∧ (track st s v disp).2 = .ok () := by
  obtain ⟨hd, m, hm⟩ := h
  unfold track
  cases v with
  | inst i =>
    simp only [hd, Bool.false_eq_true, ↓reduceIte]
    cases disp with
    | true =>
      simp only [↓reduceIte]
      refine ⟨⟨rfl, rfl, fun x hx => updScope_other st s x _ hx, rfl, ⟨hd, m, hm⟩, ⟨by simp [updScope, hd], m, by simp [updScope, hm]⟩, ?_⟩, by trivial⟩
      intro k hk; unfold Cached at hk ⊢; simpa [updScope] using hk
    | false => simp only [Bool.false_eq_true, ↓reduceIte]; exact ⟨StoreStep.refl st s ⟨hd, m, hm⟩, by trivial⟩
  | _ => simp only [hd, Bool.false_eq_true, ↓reduceIte]; exact ⟨StoreStep.refl st s ⟨hd, m, hm⟩, by trivial⟩

theorem putInstance_store (st : State) (s : Nat) (k : Ident) (v : Val) (h : OpenCache st s) :
    StoreStep st (putInstance st s k v) s ∧ Cached (putInstance st s k v) s k := by
  obtain ⟨hd, m, hm⟩ := h
  refine ⟨⟨rfl, rfl, fun x hx => updScope_other st s x _ hx, rfl, ⟨hd, m, hm⟩,
    ⟨by simp [putInstance, updScope, hd], cachePut m k v, by simp [putInstance, updScope, hm]⟩, ?_⟩, ?_⟩
  · intro k' hk'
    unfold Cached at hk' ⊢
    rw [putInstance_instances, hm]
    rw [hm] at hk'
    exact grows_put m k v k' hk'
  · unfold Cached
    rw [putInstance_instances, hm]
    simp [lookup_put_self]

/-- storing the output of a scoped or transient descriptor in an open scope -/
theorem setInstance_store (st : State) (s : Nat) (d : Desc) (k : Ident) (v : Val) (hl : d.life ≠ .singleton)
    (h : OpenCache st s) :
    StoreStep st (setInstance st s d k v).1 s ∧ (setInstance st s d k v).2 = .ok () ∧
    (d.life = .scoped → Cached (setInstance st s d k v).1 s k) := by
  unfold setInstance
  split
  · contradiction
  · obtain ⟨h1, h1c⟩ := putInstance_store st s k v h
    obtain ⟨h2, h2ok⟩ := track_store (putInstance st s k v) s v d.disp h1.opened
    exact ⟨h1.trans h2, h2ok, fun _ => h2.grows k h1c⟩
  next hl' =>
    obtain ⟨h2, h2ok⟩ := track_store st s v d.disp h
    exact ⟨h2, h2ok, fun hh => by rw [hl'] at hh; cases hh⟩

theorem shareInstance_store (st : State) (s : Nat) (d : Desc) (k : Ident) (v : Val) (hl : d.life ≠ .singleton)
    (h : OpenCache st s) :
    StoreStep st (shareInstance st s d k v) s ∧ (d.life = .scoped → Cached (shareInstance st s d k v) s k) := by
  unfold shareInstance
  split
  · contradiction
  · obtain ⟨h1, h1c⟩ := putInstance_store st s k v h
    exact ⟨h1, fun _ => h1c⟩
  next hl' => exact ⟨StoreStep.refl st s h, fun hh => by rw [hl'] at hh; cases hh⟩

theorem storeOuts_store (s : Nat) : ∀ (sibs : List Desc) (outs : List Inst) (st : State),
    (∀ d ∈ sibs, d.life ≠ .singleton) → sibs.length ≤ outs.length → OpenCache st s →
    StoreStep st (storeOuts st s sibs outs).1 s ∧ (storeOuts st s sibs outs).2 = .ok () ∧
    ∀ d ∈ sibs, d.life = .scoped → Cached (storeOuts st s sibs outs).1 s d.ident := by
  intro sibs
  induction sibs with
  | nil => intro outs st _ _ ho; unfold storeOuts; exact ⟨StoreStep.refl st s ho, rfl, by simp⟩
  | cons d ds ih =>
    intro outs st h hlen ho
    cases outs with
    | nil => simp at hlen
    | cons o os =>
      unfold storeOuts
      obtain ⟨h1, h1ok, h1c⟩ := setInstance_store st s d d.ident (.inst o) (h d (by simp)) ho
      obtain ⟨h2, h2ok, h2c⟩ := ih os (setInstance st s d d.ident (.inst o)).1
        (fun x hx => h x (List.mem_cons_of_mem _ hx)) (by simpa using hlen) h1.opened
      refine ⟨h1.trans h2, by simp only [h1ok, h2ok], ?_⟩
      intro x hx hxl
      rcases List.mem_cons.1 hx with rfl | hx
      · exact h2.grows _ (h1c hxl)
      · exact h2c x hx hxl

theorem shareAll_store (s self : Nat) (v : Val) : ∀ (sibs : List Desc) (st : State),
    (∀ d ∈ sibs, d.life ≠ .singleton) → OpenCache st s →
    StoreStep st (shareAll st s self sibs v) s ∧
    ∀ d ∈ sibs, d.id ≠ self → d.life = .scoped → Cached (shareAll st s self sibs v) s d.ident := by
  intro sibs
  induction sibs with
  | nil => intro st _ ho; exact ⟨StoreStep.refl st s ho, by simp⟩
  | cons d ds ih =>
    intro st h ho
    unfold shareAll
    simp only [List.foldl_cons]
    have hrest := fun st' ho' => ih st' (fun x hx => h x (List.mem_cons_of_mem _ hx)) ho'
    unfold shareAll at hrest
    split
    next hself =>
      obtain ⟨h2, h2c⟩ := hrest st ho
      refine ⟨h2, ?_⟩
      intro x hx hne hxl
      rcases List.mem_cons.1 hx with rfl | hx
      · exact absurd hself hne
      · exact h2c x hx hne hxl
    next hself =>
      obtain ⟨h1, h1c⟩ := shareInstance_store st s d d.ident v (h d (by simp)) ho
      obtain ⟨h2, h2c⟩ := hrest (shareInstance st s d d.ident v) h1.opened
      refine ⟨h1.trans h2, ?_⟩
      intro x hx hne hxl
      rcases List.mem_cons.1 hx with rfl | hx
      · exact h2.grows _ (h1c hxl)
      · exact h2c x hx hne hxl

/-- the invariant survives steps that write no event -/
theorem SInv.store {descs : List Desc} {st st' : State} {s : Nat} (inv : SInv descs st) (h : StoreStep st st' s) :
    SInv descs st' := by
  refine ⟨h.descs.trans inv.descsEq, ?_, ?_, ?_, by intro s' hs' c; rw [h.log]; exact inv.fresh s' (by rw [← h.nscopes]; exact hs') c⟩
  · intro s' c hc; rw [h.log]; exact inv.atMost s' c hc
  · intro s' c hc h1 hopen d hd hdc
    rw [h.log] at h1
    by_cases hs : s' = s
    · subst hs
      have hopen0 : (st.scope s').disposed = false := h.before.1
      exact h.grows _ (inv.stored s' c hc h1 hopen0 d hd hdc)
    · have e := h.others s' hs
      unfold Cached; rw [e]
      have hopen0 : (st.scope s').disposed = false := by rw [← e]; exact hopen
      exact inv.stored s' c hc h1 hopen0 d hd hdc
  · intro s' hopen
    by_cases hs : s' = s
    · subst hs; exact h.opened.2
    · rw [h.others s' hs] at hopen ⊢; exact inv.openOK s' hopen

end Godi.Container

namespace Godi.Container

/-- result of a resolution step running in the open scope `s` with rank bound `R` -/
structure SRes (descs : List Desc) (rank : Nat → Nat) (st st' : State) (s R : Nat) : Prop where
  inv : SInv descs st'
  log : ∃ new, st'.log = st.log ++ new ∧ EvBound rank s R new
  opened : OpenCache st' s
  grows : ∀ k, Cached st s k → Cached st' s k
  nscopes : st'.nscopes = st.nscopes

theorem SRes.refl {descs : List Desc} {rank : Nat → Nat} {st : State} {s R : Nat} (inv : SInv descs st)
    (ho : OpenCache st s) : SRes descs rank st st s R :=
  ⟨inv, ⟨[], by simp, evBound_nil _ _ _⟩, ho, fun _ h => h, rfl⟩

theorem SRes.trans {descs : List Desc} {rank : Nat → Nat} {a b c : State} {s R : Nat}
    (h1 : SRes descs rank a b s R) (h2 : SRes descs rank b c s R) : SRes descs rank a c s R := by
  obtain ⟨n1, l1, e1⟩ := h1.log
  obtain ⟨n2, l2, e2⟩ := h2.log
  exact ⟨h2.inv, ⟨n1 ++ n2, by rw [l2, l1, List.append_assoc], e1.append e2⟩, h2.opened,
    fun k h => h2.grows k (h1.grows k h), h2.nscopes.trans h1.nscopes⟩

theorem SRes.mono {descs : List Desc} {rank : Nat → Nat} {a b : State} {s R R' : Nat}
    (h : SRes descs rank a b s R) (hR : R ≤ R') : SRes descs rank a b s R' := by
  obtain ⟨n, l, e⟩ := h.log
  exact ⟨h.inv, ⟨n, l, e.mono hR⟩, h.opened, h.grows, h.nscopes⟩

theorem SRes.ofStore {descs : List Desc} {rank : Nat → Nat} {st st' : State} {s R : Nat} (inv : SInv descs st)
    (h : StoreStep st st' s) : SRes descs rank st st' s R :=
  ⟨inv.store h, ⟨[], by rw [h.log]; simp, evBound_nil _ _ _⟩, h.opened, h.grows, h.nscopes⟩

/-- bumping an invocation counter / allocating ids / logging a failed call: invisible to the invariant -/
theorem sinv_bump {descs : List Desc} {st : State} (inv : SInv descs st) (c : Nat) : SInv descs (bumpInv st c) :=
  ⟨inv.descsEq, inv.atMost, inv.stored, inv.openOK, inv.fresh⟩

theorem sinv_alloc {descs : List Desc} {st : State} (inv : SInv descs st) (k c n : Nat) : SInv descs (alloc st k c n) :=
  ⟨inv.descsEq, inv.atMost, inv.stored, inv.openOK, inv.fresh⟩

theorem sinv_logFail {descs : List Desc} {st : State} (inv : SInv descs st) (d c n s : Nat) (how : Outcome) :
    SInv descs (logEv st (.ctorFail d c n s how)) := by
  refine ⟨inv.descsEq, ?_, ?_, inv.openOK, ?_⟩
  · intro s' c' hc; show countIn (st.log ++ [_]) c' s' ≤ 1
    rw [countIn_append, countIn_ctorFail]; exact inv.atMost s' c' hc
  · intro s' c' hc h1 ho d' hd' hdc
    have h1' : countIn (st.log ++ [Event.ctorFail d c n s how]) c' s' = 1 := h1
    rw [countIn_append, countIn_ctorFail] at h1'
    exact inv.stored s' c' hc h1' ho d' hd' hdc
  · intro s' hs' c'; show countIn (st.log ++ [_]) c' s' = 0
    rw [countIn_append, countIn_ctorFail]; exact inv.fresh s' hs' c'

theorem scopedCtor_of (descs : List Desc) (wf : WF descs) (rw' : RegWF descs) (d : Desc) (hd : d ∈ descs)
    (hl : d.life = .scoped) : ScopedCtor descs d.ctor := by
  intro d' hd' hc
  rcases rw'.sameCtor d hd d' hd' hc with h | h
  · subst h; exact hl
  · rw [wf.sibLife d hd d'.id h d' (wf.uniqueIds d' hd')]; exact hl

theorem not_scopedCtor_of (descs : List Desc) (d : Desc) (hd : d ∈ descs) (hl : d.life ≠ .scoped) :
    ¬ ScopedCtor descs d.ctor := fun h => hl (h d hd rfl)

end Godi.Container

namespace Godi.Container

/-- the successful constructor event of `d` in scope `s`, followed by the storing of its outputs -/
theorem sinv_event_store {descs : List Desc} {st2 st3 st4 : State} {s : Nat} (inv : SInv descs st2) (d : Desc)
    (hd : d ∈ descs) (ho : OpenCache st2 s) (hs : s < st2.nscopes)
    (hzero : d.life = .scoped → countIn st2.log d.ctor s = 0)
    (n : Nat) (args : List Val) (outs : List Inst)
    (h3log : st3.log = st2.log ++ [.ctor d.id d.ctor n s args outs]) (h3descs : st3.descs = st2.descs)
    (h3scope : st3.scope = st2.scope) (h3n : st3.nscopes = st2.nscopes)
    (hstore : StoreStep st3 st4 s)
    (hcached : d.life = .scoped → ∀ d' ∈ descs, d'.ctor = d.ctor → Cached st4 s d'.ident) :
    SInv descs st4 := by
  have hlog4 : st4.log = st2.log ++ [.ctor d.id d.ctor n s args outs] := hstore.log.trans h3log
  refine ⟨(hstore.descs.trans h3descs).trans inv.descsEq, ?_, ?_, ?_, ?_⟩
  · intro s' c hc
    rw [hlog4, countIn_append, countIn_ctor]
    by_cases hcs : d.ctor = c ∧ s = s'
    · obtain ⟨h1, h2⟩ := hcs
      subst h1; subst h2
      rw [hzero (hc d hd rfl)]; simp
    · simp only [hcs, ↓reduceIte, Nat.add_zero]; exact inv.atMost s' c hc
  · intro s' c hc h1 hopen d' hd' hdc
    rw [hlog4, countIn_append, countIn_ctor] at h1
    by_cases hcs : d.ctor = c ∧ s = s'
    · obtain ⟨h1', h2⟩ := hcs
      subst h1'; subst h2
      exact hcached (hc d hd rfl) d' hd' hdc
    · simp only [hcs, ↓reduceIte, Nat.add_zero] at h1
      by_cases hss : s' = s
      · subst hss
        have := inv.stored s' c hc h1 ho.1 d' hd' hdc
        apply hstore.grows
        unfold Cached at this ⊢; rw [h3scope]; exact this
      · have e : st4.scope s' = st2.scope s' := by rw [hstore.others s' hss, h3scope]
        have hopen2 : (st2.scope s').disposed = false := by rw [← e]; exact hopen
        unfold Cached; rw [e]
        exact inv.stored s' c hc h1 hopen2 d' hd' hdc
  · intro s' hopen
    by_cases hss : s' = s
    · subst hss; exact hstore.opened.2
    · have e : st4.scope s' = st2.scope s' := by rw [hstore.others s' hss, h3scope]
      rw [e] at hopen ⊢; exact inv.openOK s' hopen
  · intro s' hs' c
    have hn : st4.nscopes = st2.nscopes := hstore.nscopes.trans h3n
    rw [hn] at hs'
    rw [hlog4, countIn_append, countIn_ctor]
    have : ¬ (d.ctor = c ∧ s = s') := by intro ⟨_, h⟩; omega
    simp only [this, ↓reduceIte, Nat.add_zero]
    exact inv.fresh s' hs' c

end Godi.Container

namespace Godi.Container

structure Cfg (descs : List Desc) (rank : Nat → Nat) : Prop where
  wf : WF descs
  reg : RegWF descs
  ranked : Ranked descs rank

theorem openCache_same {st st' : State} {s : Nat} (h : st'.scope = st.scope) (ho : OpenCache st s) : OpenCache st' s := by
  unfold OpenCache; rw [h]; exact ho

/-- the identity of a nil result-object field is cached as constructed-without-value -/
theorem markAbsent_store (st : State) (s : Nat) (sibs0 : List Desc) (nil? : Option Nat)
    (hl : ∀ d ∈ sibs0, d.life ≠ .singleton) (h : OpenCache st s) :
    StoreStep st (markAbsent st s sibs0 nil?) s ∧
    ∀ k dk, nil? = some k → sibs0[k]? = some dk → dk.life = .scoped → Cached (markAbsent st s sibs0 nil?) s dk.ident := by
  unfold markAbsent
  split
  next k =>
    split
    next dk hk =>
      obtain ⟨h1, h1c⟩ := shareInstance_store st s dk dk.ident .absent (hl dk (List.mem_of_getElem? hk)) h
      refine ⟨h1, ?_⟩
      intro k' dk' hk' hdk' hsc
      injection hk' with hk'; subst hk'
      rw [hk] at hdk'; injection hdk' with hdk'; subst hdk'
      exact h1c hsc
    next hnone =>
      refine ⟨StoreStep.refl st s h, ?_⟩
      intro k' dk' hk' hdk' _
      injection hk' with hk'; subst hk'
      rw [hnone] at hdk'; cases hdk'
  · exact ⟨StoreStep.refl st s h, fun k dk hk => by cases hk⟩

/-- the step "log the successful event, then store" packaged as an `SRes` from the state after
argument building -/
theorem sres_event_store {descs : List Desc} {rank : Nat → Nat} {st2 st3 st4 : State} {s R : Nat} (inv : SInv descs st2)
    (d : Desc) (hd : d ∈ descs) (ho : OpenCache st2 s) (hs : s < st2.nscopes)
    (hzero : d.life = .scoped → countIn st2.log d.ctor s = 0) (hR : rank d.ctor < R)
    (n : Nat) (args : List Val) (outs : List Inst)
    (h3log : st3.log = st2.log ++ [.ctor d.id d.ctor n s args outs]) (h3descs : st3.descs = st2.descs)
    (h3scope : st3.scope = st2.scope) (h3n : st3.nscopes = st2.nscopes)
    (hstore : StoreStep st3 st4 s)
    (hcached : d.life = .scoped → ∀ d' ∈ descs, d'.ctor = d.ctor → Cached st4 s d'.ident) :
    SRes descs rank st2 st4 s R := by
  refine ⟨sinv_event_store inv d hd ho hs hzero n args outs h3log h3descs h3scope h3n hstore hcached, ?_, hstore.opened, ?_,
    hstore.nscopes.trans h3n⟩
  · refine ⟨[.ctor d.id d.ctor n s args outs], hstore.log.trans h3log, ?_⟩
    intro e he; simp at he; subst he; exact ⟨rfl, hR⟩
  · intro k hk
    apply hstore.grows
    unfold Cached at hk ⊢; rw [h3scope]; exact hk

theorem scopedOnce (beh : Beh) (descs : List Desc) (rank : Nat → Nat) (cfg : Cfg descs rank) :
    ∀ fuel,
    (∀ st s ty key R, SInv descs st → OpenCache st s → s < st.nscopes →
      (∀ t, findService descs ty key = some t → rank t.ctor < R) →
      SRes descs rank st (resolve beh fuel st s ty key).1 s R) ∧
    (∀ st s d R, SInv descs st → OpenCache st s → s < st.nscopes → d ∈ descs → rank d.ctor < R →
      SRes descs rank st (resolveDesc beh fuel st s d).1 s R) ∧
    (∀ st s ty grp R, SInv descs st → OpenCache st s → s < st.nscopes →
      (∀ t ∈ groupMembers descs ty grp, rank t.ctor < R) →
      SRes descs rank st (getGroup beh fuel st s ty grp).1 s R) ∧
    (∀ st s ds acc R, SInv descs st → OpenCache st s → s < st.nscopes →
      (∀ d ∈ ds, d ∈ descs ∧ rank d.ctor < R) →
      SRes descs rank st (resolveMembers beh fuel st s ds acc).1 s R) ∧
    (∀ st s deps acc R, SInv descs st → OpenCache st s → s < st.nscopes →
      (∀ dep ∈ deps, ∀ t, Provides descs dep t → rank t.ctor < R) →
      SRes descs rank st (buildArgs beh fuel st s deps acc).1 s R) ∧
    (∀ st s d R, SInv descs st → OpenCache st s → s < st.nscopes → d ∈ descs → d.life ≠ .singleton →
      rank d.ctor < R → (d.life = .scoped → countIn st.log d.ctor s = 0) →
      SRes descs rank st (createInstance beh fuel st s d).1 s R) := by
  intro fuel
  induction fuel with
  | zero =>
    refine ⟨?_, ?_, ?_, ?_, ?_, ?_⟩ <;> intros <;>
      simp [resolve, resolveDesc, getGroup, resolveMembers, buildArgs, createInstance] <;>
      exact SRes.refl (by assumption) (by assumption)
  | succ f ih =>
    obtain ⟨ihR, ihD, ihG, ihM, ihA, ihC⟩ := ih
    refine ⟨?_, ?_, ?_, ?_, ?_, ?_⟩
    · -- resolve
      intro st s ty key R inv ho hs hrank
      unfold resolve
      simp only [ho.1, Bool.false_eq_true, ↓reduceIte]
      split; · exact SRes.refl inv ho
      split; · exact SRes.refl inv ho
      split; · exact SRes.refl inv ho
      split
      · exact SRes.refl inv ho
      next d hfd =>
        rw [inv.descsEq] at hfd
        exact ihD st s d R inv ho hs (findService_mem hfd) (hrank d hfd)
    · -- resolveDesc
      intro st s d R inv ho hs hd hR
      unfold resolveDesc
      split
      · split <;> exact SRes.refl inv ho
      next hl =>
        split
        · exact SRes.refl inv ho
        · exact SRes.refl inv ho
        next hmiss =>
          refine ihC st s d R inv ho hs hd (by rw [hl]; simp) hR ?_
          intro _
          have hsc := scopedCtor_of descs cfg.wf cfg.reg d hd hl
          have h1 := inv.atMost s d.ctor hsc
          by_cases hone : countIn st.log d.ctor s = 1
          · have := inv.stored s d.ctor hsc hone ho.1 d hd rfl
            unfold Cached at this
            rw [hmiss] at this; cases this
          · omega
      next hl => exact ihC st s d R inv ho hs hd (by rw [hl]; simp) hR (by intro h; rw [hl] at h; cases h)
    · -- getGroup
      intro st s ty grp R inv ho hs hrank
      unfold getGroup
      simp only [ho.1, Bool.false_eq_true, ↓reduceIte]
      rw [inv.descsEq]
      exact ihM st s _ [] R inv ho hs (fun d hd => ⟨groupMembers_mem hd, hrank d hd⟩)
    · -- resolveMembers
      intro st s ds acc R inv ho hs hds
      cases ds with
      | nil => unfold resolveMembers; exact SRes.refl inv ho
      | cons d rest =>
        unfold resolveMembers
        have h1 := ihD st s d R inv ho hs (hds d (by simp)).1 (hds d (by simp)).2
        have hs1 : s < (resolveDesc beh f st s d).1.nscopes := by rw [h1.nscopes]; exact hs
        have hrest : ∀ x ∈ rest, x ∈ descs ∧ rank x.ctor < R := fun x hx => hds x (List.mem_cons_of_mem _ hx)
        simp only []
        split
        · exact h1.trans (ihM _ s rest _ R h1.inv h1.opened hs1 hrest)
        · exact h1.trans (ihM _ s rest _ R h1.inv h1.opened hs1 hrest)
        · exact h1
    · -- buildArgs
      intro st s deps acc R inv ho hs hdeps
      cases deps with
      | nil => unfold buildArgs; exact SRes.refl inv ho
      | cons dep rest =>
        unfold buildArgs
        simp only []
        generalize hr : (if dep.grp != 0 then getGroup beh f st s dep.ty dep.grp
            else resolve beh f st s dep.ty dep.key) = r
        have h1 : SRes descs rank st r.1 s R := by
          rw [← hr]
          split
          next hg =>
            have hg' : dep.grp ≠ 0 := by simpa using hg
            exact ihG st s _ _ R inv ho hs (fun t ht => hdeps dep (by simp) t (Or.inl ⟨hg', ht⟩))
          next hg =>
            have hg' : dep.grp = 0 := by simpa using hg
            exact ihR st s _ _ R inv ho hs (fun t ht => hdeps dep (by simp) t (Or.inr ⟨hg', ht⟩))
        have hs1 : s < r.1.nscopes := by rw [h1.nscopes]; exact hs
        have hrest : ∀ dep' ∈ rest, ∀ t, Provides descs dep' t → rank t.ctor < R :=
          fun dep' hd' => hdeps dep' (List.mem_cons_of_mem _ hd')
        split
        · exact h1.trans (ihA r.1 s rest _ R h1.inv h1.opened hs1 hrest)
        · split
          · exact h1.trans (ihA r.1 s rest _ R h1.inv h1.opened hs1 hrest)
          · exact h1
    · -- createInstance
      intro st s d R inv ho hs hd hl hR hzero
      unfold createInstance
      split
      next v _ =>
        simp only []
        obtain ⟨hst1, hok1, _⟩ := setInstance_store st s d d.ident (.inst v) hl ho
        simp only [hok1]
        have hsl : ∀ sd ∈ d.sibs.filterMap (findDesc st.descs), sd.life ≠ .singleton := by
          intro sd hsd
          obtain ⟨sid, hsid, hf⟩ := List.mem_filterMap.1 hsd
          rw [inv.descsEq] at hf
          rw [cfg.wf.sibLife d hd sid hsid sd hf]; exact hl
        obtain ⟨hst2, _⟩ := shareAll_store s d.id (.inst v) (d.sibs.filterMap (findDesc st.descs)) _ hsl hst1.opened
        exact SRes.ofStore inv (hst1.trans hst2)
      next hk =>
        simp only []
        have hA := ihA st s d.deps [] (rank d.ctor) inv ho hs (fun dep hdep t ht => cfg.ranked d hd dep hdep t ht)
        generalize buildArgs beh f st s d.deps [] = ra at hA
        have hAR : SRes descs rank st ra.1 s R := hA.mono (Nat.le_of_lt hR)
        split
        · exact hAR
        next args _ =>
          have ho2 : OpenCache (bumpInv ra.1 d.ctor) s := hA.opened
          have inv2 : SInv descs (bumpInv ra.1 d.ctor) := sinv_bump hA.inv d.ctor
          have hs2 : s < (bumpInv ra.1 d.ctor).nscopes := by
            show s < ra.1.nscopes; rw [hA.nscopes]; exact hs
          have hfail : ∀ how, SRes descs rank st
              (logEv (bumpInv ra.1 d.ctor) (.ctorFail d.id d.ctor ((bumpInv ra.1 d.ctor).invs d.ctor) s how)) s R := by
            intro how
            refine hAR.trans ⟨sinv_logFail inv2 _ _ _ _ _, ⟨[_], rfl, ?_⟩, ho2, fun _ h => h, rfl⟩
            intro e he; simp at he; subst he; trivial
          have hbump : SRes descs rank ra.1 (bumpInv ra.1 d.ctor) s R :=
            ⟨inv2, ⟨[], by simp [bumpInv], evBound_nil _ _ _⟩, ho2, fun _ h => h, rfl⟩
          have hzero2 : d.life = .scoped → countIn (bumpInv ra.1 d.ctor).log d.ctor s = 0 := by
            intro hsc
            obtain ⟨nested, hlog, hb⟩ := hA.log
            show countIn ra.1.log d.ctor s = 0
            rw [hlog, countIn_append, hzero hsc, countIn_of_bound rank s (rank d.ctor) nested hb d.ctor s (Or.inl (Nat.le_refl _))]
          have hdescs2 : (bumpInv ra.1 d.ctor).descs = descs := hA.inv.descsEq
          have hfind : ∀ x ∈ descs, findDesc (bumpInv ra.1 d.ctor).descs x.id = some x := by
            intro x hx; rw [hdescs2]; exact cfg.wf.uniqueIds x hx
          have hsame : ∀ d' ∈ descs, d'.ctor = d.ctor →
              d' = d ∨ d' ∈ d.sibs.filterMap (findDesc (bumpInv ra.1 d.ctor).descs) := by
            intro d' hd' hc
            rcases cfg.reg.sameCtor d hd d' hd' hc with h | h
            · exact Or.inl h
            · exact Or.inr (List.mem_filterMap.2 ⟨d'.id, h, hfind d' hd'⟩)
          have hsiblife : ∀ sd ∈ d.sibs.filterMap (findDesc (bumpInv ra.1 d.ctor).descs), sd.life = d.life := by
            intro sd hsd
            obtain ⟨sid, hsid, hf⟩ := List.mem_filterMap.1 hsd
            rw [hdescs2] at hf
            exact cfg.wf.sibLife d hd sid hsid sd hf
          have hself : d.sibs.filterMap (findDesc (bumpInv ra.1 d.ctor).descs) = [] ∨
              d ∈ d.sibs.filterMap (findDesc (bumpInv ra.1 d.ctor).descs) := by
            rcases cfg.reg.selfIn d hd with h | h
            · left; rw [h]; rfl
            · right; exact List.mem_filterMap.2 ⟨d.id, h, hfind d hd⟩
          split
          · exact hfail _
          · exact hfail _
          · exact hfail _
          · split
            next hvoid =>
              obtain ⟨hst, _, hc⟩ := setInstance_store
                (logEv (bumpInv ra.1 d.ctor) (.ctor d.id d.ctor ((bumpInv ra.1 d.ctor).invs d.ctor) s args [])) s d d.ident .unit hl
                (openCache_same rfl ho2)
              refine (hAR.trans hbump).trans (sres_event_store
                (st3 := logEv (bumpInv ra.1 d.ctor) (.ctor d.id d.ctor ((bumpInv ra.1 d.ctor).invs d.ctor) s args []))
                inv2 d hd ho2 hs2 hzero2 hR _ args [] rfl rfl rfl rfl hst ?_)
              intro hsc d' hd' hdc
              rcases hsame d' hd' hdc with h | h
              · subst h; exact hc hsc
              · rw [cfg.reg.voidAlone d hd hvoid] at h; simp at h
            next hmulti =>
              have h0life : ∀ sd ∈ (if (d.sibs.filterMap (findDesc (bumpInv ra.1 d.ctor).descs)).isEmpty then [d]
                  else d.sibs.filterMap (findDesc (bumpInv ra.1 d.ctor).descs)), sd.life = d.life := by
                split
                · intro sd hsd; simp at hsd; subst hsd; rfl
                · exact hsiblife
              have h0all : ∀ d' ∈ descs, d'.ctor = d.ctor →
                  d' ∈ (if (d.sibs.filterMap (findDesc (bumpInv ra.1 d.ctor).descs)).isEmpty then [d]
                    else d.sibs.filterMap (findDesc (bumpInv ra.1 d.ctor).descs)) := by
                intro d' hd' hdc
                rcases hsame d' hd' hdc with h | h
                · subst h
                  split
                  · simp
                  next hne =>
                    rcases hself with h | h
                    · rw [h] at hne; simp at hne
                    · exact h
                · split
                  next he => rw [List.isEmpty_iff.1 he] at h; simp at h
                  · exact h
              have hmultiS : ∀ (sibs' sibs0 : List Desc) (nil? : Option Nat), (∀ sd ∈ sibs', sd.life = d.life) →
                  (∀ sd ∈ sibs0, sd.life = d.life) →
                  (∀ d' ∈ sibs0, d' ∈ sibs' ∨ ∃ k, nil? = some k ∧ sibs0[k]? = some d') →
                  (∀ d' ∈ descs, d'.ctor = d.ctor → d' ∈ sibs0) →
                  SRes descs rank st (markAbsent (storeOuts
                    (logEv (alloc (bumpInv ra.1 d.ctor) sibs'.length d.ctor ((bumpInv ra.1 d.ctor).invs d.ctor))
                      (.ctor d.id d.ctor ((bumpInv ra.1 d.ctor).invs d.ctor) s args
                        (allocOuts (bumpInv ra.1 d.ctor).next sibs'.length)))
                    s sibs' (allocOuts (bumpInv ra.1 d.ctor).next sibs'.length)).1 s sibs0 nil?) s R := by
                intro sibs' sibs0 nil? hs'life hs0life hcover hall
                obtain ⟨hst, _, hc⟩ := storeOuts_store s sibs' (allocOuts (bumpInv ra.1 d.ctor).next sibs'.length)
                  (logEv (alloc (bumpInv ra.1 d.ctor) sibs'.length d.ctor ((bumpInv ra.1 d.ctor).invs d.ctor))
                    (.ctor d.id d.ctor ((bumpInv ra.1 d.ctor).invs d.ctor) s args (allocOuts (bumpInv ra.1 d.ctor).next sibs'.length)))
                  (fun sd hsd => by rw [hs'life sd hsd]; exact hl) (by simp [allocOuts]) (openCache_same rfl ho2)
                obtain ⟨hst2, hc2⟩ := markAbsent_store _ s sibs0 nil? (fun sd hsd => by rw [hs0life sd hsd]; exact hl) hst.opened
                refine (hAR.trans hbump).trans (sres_event_store
                  (st3 := logEv (alloc (bumpInv ra.1 d.ctor) sibs'.length d.ctor ((bumpInv ra.1 d.ctor).invs d.ctor))
                    (.ctor d.id d.ctor ((bumpInv ra.1 d.ctor).invs d.ctor) s args (allocOuts (bumpInv ra.1 d.ctor).next sibs'.length)))
                  inv2 d hd ho2 hs2 hzero2 hR _ args _ rfl rfl rfl rfl (hst.trans hst2) ?_)
                intro hsc d' hd' hdc
                have hin0 := hall d' hd' hdc
                rcases hcover d' hin0 with hin | ⟨k, hk, hget⟩
                · exact hst2.grows _ (hc d' hin (by rw [hs'life d' hin]; exact hsc))
                · exact hc2 k d' hk hget (by rw [hs0life d' hin0]; exact hsc)
              generalize (if (d.sibs.filterMap (findDesc (bumpInv ra.1 d.ctor).descs)).isEmpty then [d]
                  else d.sibs.filterMap (findDesc (bumpInv ra.1 d.ctor).descs)) = sibs0 at h0life h0all ⊢
              cases beh.nilField d.ctor ((bumpInv ra.1 d.ctor).invs d.ctor) with
              | none => exact hmultiS sibs0 sibs0 none h0life h0life (fun d' h => Or.inl h) h0all
              | some k =>
                exact hmultiS (sibs0.eraseIdx k) sibs0 (some k) (fun sd hsd => h0life sd (List.mem_of_mem_eraseIdx hsd)) h0life
                  (fun d' h => (mem_eraseIdx_or_getElem? sibs0 k d' h).imp id (fun hg => ⟨k, rfl, hg⟩)) h0all
            next hp1 hp2 =>
              obtain ⟨hst1, hok1, hc1⟩ := setInstance_store
                (logEv (alloc (bumpInv ra.1 d.ctor) 1 d.ctor ((bumpInv ra.1 d.ctor).invs d.ctor))
                  (.ctor d.id d.ctor ((bumpInv ra.1 d.ctor).invs d.ctor) s args [(bumpInv ra.1 d.ctor).next])) s d d.ident
                (.inst (bumpInv ra.1 d.ctor).next) hl (openCache_same rfl ho2)
              simp only [hok1]
              obtain ⟨hst2, hc2⟩ := shareAll_store s d.id (.inst (bumpInv ra.1 d.ctor).next)
                (d.sibs.filterMap (findDesc (bumpInv ra.1 d.ctor).descs)) _
                (fun sd hsd => by rw [hsiblife sd hsd]; exact hl) hst1.opened
              refine (hAR.trans hbump).trans (sres_event_store
                (st3 := logEv (alloc (bumpInv ra.1 d.ctor) 1 d.ctor ((bumpInv ra.1 d.ctor).invs d.ctor))
                  (.ctor d.id d.ctor ((bumpInv ra.1 d.ctor).invs d.ctor) s args [(bumpInv ra.1 d.ctor).next]))
                inv2 d hd ho2 hs2 hzero2 hR _ args _ rfl rfl rfl rfl (hst1.trans hst2) ?_)
              intro hsc d' hd' hdc
              rcases hsame d' hd' hdc with h | h
              · subst h; exact hst2.grows _ (hc1 hsc)
              · by_cases hid : d'.id = d.id
                · have : d' = d := by
                    have h1' := cfg.wf.uniqueIds d' hd'
                    have h2' := cfg.wf.uniqueIds d hd
                    rw [hid, h2'] at h1'
                    injection h1' with h1'; exact h1'.symm
                  subst this; exact hst2.grows _ (hc1 hsc)
                · exact hc2 d' h hid (by rw [hsiblife d' h]; exact hsc)

end Godi.Container
