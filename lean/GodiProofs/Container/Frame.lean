import GodiModel.Container
/-!
# The frame lemma of M5

Resolution (`resolve`, `getGroup`, argument building, `createInstance` of a scoped or transient
descriptor) — for every fuel, every constructor behaviour and every state — only ever touches the
instance cache and the disposal list of the scope it runs in, extends the log by events of
non-singleton descriptors, and never lowers the instance counter.
-/
namespace Godi.Container

/-- descriptors of one registration share their lifetime (the collection guarantees it: one `Add*`
call, one lifetime) -/
def SibLife (descs : List Desc) : Prop :=
  ∀ d ∈ descs, ∀ sid ∈ d.sibs, ∀ sd, findDesc descs sid = some sd → sd.life = d.life

def EventNonSingleton (descs : List Desc) : Event → Prop
  | .ctor d c _ _ _ _ => ∃ x, findDesc descs d = some x ∧ x.life ≠ .singleton ∧ x.ctor = c
  | .ctorFail d c _ _ _ => ∃ x, findDesc descs d = some x ∧ x.life ≠ .singleton ∧ x.ctor = c
  | .closed _ _ _ => True

/-- what a resolution running in scope `s` may change -/
structure Ext (st st' : State) (s : Nat) : Prop where
  descs : st'.descs = st.descs
  singletons : st'.singletons = st.singletons
  provDisp : st'.provDisposables = st.provDisposables
  nscopes : st'.nscopes = st.nscopes
  provScopes : st'.provScopes = st.provScopes
  disposed : st'.disposed = st.disposed
  initializers : st'.initializers = st.initializers
  others : ∀ x, x ≠ s → st'.scope x = st.scope x
  parent : (st'.scope s).parent = (st.scope s).parent
  children : (st'.scope s).children = (st.scope s).children
  sdisposed : (st'.scope s).disposed = (st.scope s).disposed
  ctxOf : (st'.scope s).ctxOf = (st.scope s).ctxOf
  log : ∃ new, st'.log = st.log ++ new ∧ ∀ e ∈ new, EventNonSingleton st.descs e
  next : st.next ≤ st'.next
  /-- who produced an instance that was handed out before is never rewritten -/
  metaStable : ∀ i, i < st.next → st'.instMeta i = st.instMeta i

theorem Ext.refl (st : State) (s : Nat) : Ext st st s :=
  ⟨rfl, rfl, rfl, rfl, rfl, rfl, rfl, fun _ _ => rfl, rfl, rfl, rfl, rfl, ⟨[], by simp, by simp⟩, Nat.le_refl _, fun _ _ => rfl⟩

theorem Ext.trans {a b c : State} {s : Nat} (h1 : Ext a b s) (h2 : Ext b c s) : Ext a c s := by
  obtain ⟨n1, l1, e1⟩ := h1.log
  obtain ⟨n2, l2, e2⟩ := h2.log
  refine ⟨h2.descs.trans h1.descs, h2.singletons.trans h1.singletons, h2.provDisp.trans h1.provDisp,
    h2.nscopes.trans h1.nscopes, h2.provScopes.trans h1.provScopes, h2.disposed.trans h1.disposed,
    h2.initializers.trans h1.initializers, fun x hx => (h2.others x hx).trans (h1.others x hx),
    h2.parent.trans h1.parent, h2.children.trans h1.children, h2.sdisposed.trans h1.sdisposed,
    h2.ctxOf.trans h1.ctxOf, ⟨n1 ++ n2, by rw [l2, l1, List.append_assoc], ?_⟩, Nat.le_trans h1.next h2.next,
    fun i hi => (h2.metaStable i (Nat.lt_of_lt_of_le hi h1.next)).trans (h1.metaStable i hi)⟩
  intro e he
  rcases List.mem_append.1 he with he | he
  · exact e1 e he
  · have := e2 e he
    rw [h1.descs] at this
    exact this

/-! ### the state-changing primitives -/

theorem updScope_same (st : State) (s : Nat) (f : ScopeSt → ScopeSt) : (updScope st s f).scope s = f (st.scope s) := by
  simp [updScope]

theorem updScope_other (st : State) (s x : Nat) (f : ScopeSt → ScopeSt) (h : x ≠ s) :
    (updScope st s f).scope x = st.scope x := by
  simp [updScope, h]

/-- an update of scope `s` that keeps its tree position is within the frame -/
theorem ext_updScope (st : State) (s : Nat) (f : ScopeSt → ScopeSt)
    (hp : ∀ sc, (f sc).parent = sc.parent) (hc : ∀ sc, (f sc).children = sc.children)
    (hd : ∀ sc, (f sc).disposed = sc.disposed) (hx : ∀ sc, (f sc).ctxOf = sc.ctxOf) :
    Ext st (updScope st s f) s := by
  refine ⟨rfl, rfl, rfl, rfl, rfl, rfl, rfl, fun x hx' => updScope_other st s x f hx', ?_, ?_, ?_, ?_,
    ⟨[], by simp [updScope], by simp⟩, Nat.le_refl _, fun _ _ => rfl⟩ <;> simp [updScope_same, hp, hc, hd, hx]

theorem ext_log (st : State) (s : Nat) (e : Event) (he : EventNonSingleton st.descs e) :
    Ext st { st with log := st.log ++ [e] } s :=
  ⟨rfl, rfl, rfl, rfl, rfl, rfl, rfl, fun _ _ => rfl, rfl, rfl, rfl, rfl,
    ⟨[e], rfl, by intro x hx; simp at hx; subst hx; exact he⟩, Nat.le_refl _, fun _ _ => rfl⟩

theorem track_ext (st : State) (s : Nat) (v : Val) (disp : Bool) : Ext st (track st s v disp).1 s := by
  unfold track
  split
  · split
    · split
      · exact ext_log st s _ trivial
      · exact Ext.refl st s
    · split
      · dsimp only
        apply ext_updScope <;> intro sc <;> rfl
      · exact Ext.refl st s
  · split <;> exact Ext.refl st s

theorem putInstance_ext (st : State) (s : Nat) (k : Ident) (v : Val) : Ext st (putInstance st s k v) s := by
  unfold putInstance
  apply ext_updScope <;> intro sc <;> rfl

theorem setInstance_ext (st : State) (s : Nat) (d : Desc) (k : Ident) (v : Val) (hl : d.life ≠ .singleton) :
    Ext st (setInstance st s d k v).1 s := by
  unfold setInstance
  split
  · contradiction
  · exact (putInstance_ext st s k v).trans (track_ext _ s v d.disp)
  · exact track_ext st s v d.disp

theorem shareInstance_ext (st : State) (s : Nat) (d : Desc) (k : Ident) (v : Val) (hl : d.life ≠ .singleton) :
    Ext st (shareInstance st s d k v) s := by
  unfold shareInstance
  split
  · contradiction
  · exact putInstance_ext st s k v
  · exact Ext.refl st s

theorem storeOuts_ext (s : Nat) : ∀ (sibs : List Desc) (outs : List Inst) (st : State),
    (∀ d ∈ sibs, d.life ≠ .singleton) → Ext st (storeOuts st s sibs outs).1 s := by
  intro sibs
  induction sibs with
  | nil => intro outs st _; unfold storeOuts; exact Ext.refl st s
  | cons d ds ih =>
    intro outs st h
    cases outs with
    | nil => unfold storeOuts; exact Ext.refl st s
    | cons o os =>
      unfold storeOuts
      have h1 := setInstance_ext st s d d.ident (.inst o) (h d (by simp))
      have h2 := ih os (setInstance st s d d.ident (.inst o)).1 (fun x hx => h x (List.mem_cons_of_mem _ hx))
      exact h1.trans h2

theorem shareAll_ext (s self : Nat) (v : Val) : ∀ (sibs : List Desc) (st : State),
    (∀ d ∈ sibs, d.life ≠ .singleton) → Ext st (shareAll st s self sibs v) s := by
  intro sibs
  induction sibs with
  | nil => intro st _; exact Ext.refl st s
  | cons d ds ih =>
    intro st h
    unfold shareAll
    simp only [List.foldl_cons]
    have hrest := fun st' => ih st' (fun x hx => h x (List.mem_cons_of_mem _ hx))
    unfold shareAll at hrest
    split
    · exact hrest st
    · exact (shareInstance_ext st s d d.ident v (h d (by simp))).trans (hrest _)

theorem markAbsent_ext (st : State) (s : Nat) (sibs0 : List Desc) (nil? : Option Nat)
    (h : ∀ d ∈ sibs0, d.life ≠ .singleton) : Ext st (markAbsent st s sibs0 nil?) s := by
  unfold markAbsent
  split
  next k =>
    split
    next dk hk => exact shareInstance_ext st s dk dk.ident .absent (h dk (List.mem_of_getElem? hk))
    · exact Ext.refl st s
  · exact Ext.refl st s

end Godi.Container

namespace Godi.Container

structure WF (descs : List Desc) : Prop where
  sibLife : SibLife descs
  uniqueIds : ∀ d ∈ descs, findDesc descs d.id = some d

theorem findService_mem {descs : List Desc} {ty key : Nat} {d : Desc} (h : findService descs ty key = some d) :
    d ∈ descs := List.mem_of_find?_eq_some h

theorem groupMembers_mem {descs : List Desc} {ty grp : Nat} {d : Desc} (h : d ∈ groupMembers descs ty grp) :
    d ∈ descs := (List.mem_filter.1 h).1

theorem bumpInv_ext (st : State) (s c : Nat) : Ext st (bumpInv st c) s :=
  ⟨rfl, rfl, rfl, rfl, rfl, rfl, rfl, fun _ _ => rfl, rfl, rfl, rfl, rfl, ⟨[], by simp [bumpInv], by simp⟩, Nat.le_refl _, fun _ _ => rfl⟩

theorem logEv_ext (st : State) (s : Nat) (e : Event) (he : EventNonSingleton st.descs e) : Ext st (logEv st e) s :=
  ⟨rfl, rfl, rfl, rfl, rfl, rfl, rfl, fun _ _ => rfl, rfl, rfl, rfl, rfl,
    ⟨[e], rfl, by intro x hx; simp at hx; subst hx; exact he⟩, Nat.le_refl _, fun _ _ => rfl⟩

theorem logCtor_ext (st : State) (s d c inv sc : Nat) (args : List Val) (outs : List Inst)
    (h : ∃ x, findDesc st.descs d = some x ∧ x.life ≠ .singleton ∧ x.ctor = c) :
    Ext st (logEv st (.ctor d c inv sc args outs)) s := logEv_ext st s _ h

theorem alloc_ext (st : State) (s k c n : Nat) : Ext st (alloc st k c n) s :=
  ⟨rfl, rfl, rfl, rfl, rfl, rfl, rfl, fun _ _ => rfl, rfl, rfl, rfl, rfl, ⟨[], by simp [alloc], by simp⟩,
    Nat.le_add_right _ _, fun i hi => by
      show (if st.next ≤ i ∧ i < st.next + k then (c, n) else st.instMeta i) = st.instMeta i
      rw [if_neg]; exact fun h => Nat.lt_irrefl _ (Nat.lt_of_lt_of_le hi h.1)⟩

@[simp] theorem bumpInv_descs (st : State) (c : Nat) : (bumpInv st c).descs = st.descs := rfl
@[simp] theorem alloc_descs (st : State) (k c n : Nat) : (alloc st k c n).descs = st.descs := rfl
@[simp] theorem logEv_descs (st : State) (e : Event) : (logEv st e).descs = st.descs := rfl

/-- THE FRAME LEMMA, by induction on fuel over the six mutually recursive functions -/
theorem frame (beh : Beh) : ∀ fuel,
    (∀ st s ty key, WF st.descs → Ext st (resolve beh fuel st s ty key).1 s) ∧
    (∀ st s d, WF st.descs → d ∈ st.descs → Ext st (resolveDesc beh fuel st s d).1 s) ∧
    (∀ st s ty grp, WF st.descs → Ext st (getGroup beh fuel st s ty grp).1 s) ∧
    (∀ st s ds acc, WF st.descs → (∀ d ∈ ds, d ∈ st.descs) → Ext st (resolveMembers beh fuel st s ds acc).1 s) ∧
    (∀ st s deps acc, WF st.descs → Ext st (buildArgs beh fuel st s deps acc).1 s) ∧
    (∀ st s d, WF st.descs → d ∈ st.descs → d.life ≠ .singleton → Ext st (createInstance beh fuel st s d).1 s) := by
  intro fuel
  induction fuel with
  | zero =>
    refine ⟨?_, ?_, ?_, ?_, ?_, ?_⟩ <;> intros <;> simp [resolve, resolveDesc, getGroup, resolveMembers, buildArgs, createInstance] <;> exact Ext.refl _ _
  | succ f ih =>
    obtain ⟨ihR, ihD, ihG, ihM, ihA, ihC⟩ := ih
    refine ⟨?_, ?_, ?_, ?_, ?_, ?_⟩
    · -- resolve
      intro st s ty key wf
      unfold resolve
      split; · exact Ext.refl _ _
      split; · exact Ext.refl _ _
      split; · exact Ext.refl _ _
      split; · exact Ext.refl _ _
      split
      · exact Ext.refl _ _
      next d hd => exact ihD st s d wf (findService_mem hd)
    · -- resolveDesc
      intro st s d wf hd
      unfold resolveDesc
      split
      · split <;> exact Ext.refl _ _
      next hl =>
        split
        · exact Ext.refl _ _
        · exact Ext.refl _ _
        · exact ihC st s d wf hd (by rw [hl]; simp)
      next hl => exact ihC st s d wf hd (by rw [hl]; simp)
    · -- getGroup
      intro st s ty grp wf
      unfold getGroup
      split; · exact Ext.refl _ _
      exact ihM st s _ [] wf (fun d hd => groupMembers_mem hd)
    · -- resolveMembers
      intro st s ds acc wf hds
      cases ds with
      | nil => unfold resolveMembers; exact Ext.refl _ _
      | cons d rest =>
        unfold resolveMembers
        have h1 := ihD st s d wf (hds d (by simp))
        have wf1 : WF (resolveDesc beh f st s d).1.descs := by rw [h1.descs]; exact wf
        have hrest : ∀ x ∈ rest, x ∈ (resolveDesc beh f st s d).1.descs := by
          intro x hx; rw [h1.descs]; exact hds x (List.mem_cons_of_mem _ hx)
        simp only []
        split
        · exact h1.trans (ihM _ s rest _ wf1 hrest)
        · exact h1.trans (ihM _ s rest _ wf1 hrest)
        · exact h1
    · -- buildArgs
      intro st s deps acc wf
      cases deps with
      | nil => unfold buildArgs; exact Ext.refl _ _
      | cons dep rest =>
        unfold buildArgs
        simp only []
        generalize hr : (if dep.grp != 0 then getGroup beh f st s dep.ty dep.grp
            else resolve beh f st s dep.ty dep.key) = r
        have h1 : Ext st r.1 s := by
          rw [← hr]
          split
          · exact ihG st s _ _ wf
          · exact ihR st s _ _ wf
        have wf1 : WF r.1.descs := by rw [h1.descs]; exact wf
        split
        · exact h1.trans (ihA r.1 s rest _ wf1)
        · split
          · exact h1.trans (ihA r.1 s rest _ wf1)
          · exact h1
    · -- createInstance
      intro st s d wf hd hl
      unfold createInstance
      split
      next v _ =>
        simp only []
        have h1 := setInstance_ext st s d d.ident (.inst v) hl
        split
        · exact h1
        · refine h1.trans (shareAll_ext s d.id _ _ _ ?_)
          intro sd hsd
          obtain ⟨sid, hsid, hf⟩ := List.mem_filterMap.1 hsd
          rw [wf.sibLife d hd sid hsid sd hf]; exact hl
      · simp only []
        have hA := ihA st s d.deps [] wf
        generalize buildArgs beh f st s d.deps [] = ra at hA
        split
        · exact hA
        next args _ =>
          have hdescs1 : ra.1.descs = st.descs := hA.descs
          have hev : ∀ (st' : State), st'.descs = st.descs → ∃ x, findDesc st'.descs d.id = some x ∧
              x.life ≠ .singleton ∧ x.ctor = d.ctor := by
            intro st' hst'
            exact ⟨d, by rw [hst']; exact wf.uniqueIds d hd, hl, rfl⟩
          have hA2 := hA.trans (bumpInv_ext ra.1 s d.ctor)
          have hd2 : (bumpInv ra.1 d.ctor).descs = st.descs := hdescs1
          have hsibs : ∀ sd ∈ d.sibs.filterMap (findDesc (bumpInv ra.1 d.ctor).descs), sd.life ≠ .singleton := by
            intro sd hsd
            obtain ⟨sid, hsid, hf⟩ := List.mem_filterMap.1 hsd
            rw [hd2] at hf
            rw [wf.sibLife d hd sid hsid sd hf]; exact hl
          split
          · exact hA2.trans (logEv_ext _ s _ (hev _ hd2))
          · exact hA2.trans (logEv_ext _ s _ (hev _ hd2))
          · exact hA2.trans (logEv_ext _ s _ (hev _ hd2))
          · split
            · -- void
              exact (hA2.trans (logCtor_ext _ s _ _ _ _ _ _ (hev _ hd2))).trans (setInstance_ext _ s d d.ident .unit hl)
            · -- multi
              have h0' : ∀ sd ∈ (if (d.sibs.filterMap (findDesc (bumpInv ra.1 d.ctor).descs)).isEmpty then [d]
                  else d.sibs.filterMap (findDesc (bumpInv ra.1 d.ctor).descs)), sd.life ≠ .singleton := by
                split
                · intro sd hsd; simp at hsd; subst hsd; exact hl
                · exact hsibs
              refine (((hA2.trans (alloc_ext _ s _ _ _)).trans (logCtor_ext _ s _ _ _ _ _ _ (hev _ hd2))).trans
                (storeOuts_ext s _ _ _ ?_)).trans (markAbsent_ext _ s _ _ h0')
              have h0 : ∀ sd ∈ (if (d.sibs.filterMap (findDesc (bumpInv ra.1 d.ctor).descs)).isEmpty then [d]
                  else d.sibs.filterMap (findDesc (bumpInv ra.1 d.ctor).descs)), sd.life ≠ .singleton := by
                split
                · intro sd hsd; simp at hsd; subst hsd; exact hl
                · exact hsibs
              split
              · intro sd hsd; exact h0 sd (List.mem_of_mem_eraseIdx hsd)
              · exact h0
            · -- plain (with aliases)
              have h34 := ((hA2.trans (alloc_ext _ s 1 d.ctor ((bumpInv ra.1 d.ctor).invs d.ctor))).trans (logCtor_ext _ s
                d.id d.ctor ((bumpInv ra.1 d.ctor).invs d.ctor) s args [(bumpInv ra.1 d.ctor).next] (hev _ hd2))).trans
                (setInstance_ext _ s d d.ident (.inst (bumpInv ra.1 d.ctor).next) hl)
              split
              · exact h34
              · exact h34.trans (shareAll_ext s d.id _ _ _ hsibs)

end Godi.Container
