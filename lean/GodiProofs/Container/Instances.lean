import GodiProofs.Container.History
/-! Local facts about `setInstance` / `track` / `createInstance` used by C02, C03, C04, C10, C15. -/
namespace Godi.Container

theorem track_disposables (st : State) (s : Nat) (i : Inst) (disp : Bool) (h : (st.scope s).disposed = false) :
    ((track st s (.inst i) disp).1.scope s).disposables =
      (if disp then some ((st.scope s).disposables.getD [] ++ [i]) else (st.scope s).disposables) ∧
    ((track st s (.inst i) disp).1.scope s).instances = (st.scope s).instances ∧
    (track st s (.inst i) disp).2 = .ok () := by
  unfold track
  cases disp <;> simp [h, updScope]

theorem lookup_put_self (m : List (Ident × Val)) (k : Ident) (v : Val) : lookup (cachePut m k v) k = some v := by
  simp [lookup, cachePut, List.find?]

theorem lookup_put_ne (m : List (Ident × Val)) (k k' : Ident) (v : Val) (h : k' ≠ k) :
    lookup (cachePut m k v) k' = lookup m k' := by
  have hbeq : ((k == k') = false) := by simp [Ne.symm h]
  simp [lookup, cachePut, List.find?, hbeq]

theorem track_instances (st : State) (s : Nat) (v : Val) (disp : Bool) :
    ((track st s v disp).1.scope s).instances = (st.scope s).instances := by
  unfold track
  split
  · split
    · split <;> simp [logClosed, logEv]
    · split <;> simp [updScope]
  · split <;> rfl

theorem putInstance_instances (st : State) (s : Nat) (k : Ident) (v : Val) :
    ((putInstance st s k v).scope s).instances = (st.scope s).instances.map (fun m => cachePut m k v) := by
  simp [putInstance, updScope]

/-- a scoped instance stored in an open scope is what the cache answers for that identity afterwards -/
theorem setInstance_scoped_cached (st : State) (s : Nat) (d : Desc) (v : Val) (hl : d.life = .scoped)
    (m : List (Ident × Val)) (hm : (st.scope s).instances = some m) :
    ((setInstance st s d d.ident v).1.scope s).instances = some (cachePut m d.ident v) := by
  unfold setInstance
  simp only [hl]
  rw [track_instances, putInstance_instances, hm]
  rfl

/-- storing a transient never touches the cache -/
theorem setInstance_transient_cache (st : State) (s : Nat) (d : Desc) (k : Ident) (v : Val) (hl : d.life = .transient) :
    ((setInstance st s d k v).1.scope s).instances = (st.scope s).instances := by
  unfold setInstance
  simp only [hl]
  exact track_instances st s v d.disp

end Godi.Container
