import GodiProofs.Container.TreeOps
import GodiModel.Ctx
/-!
# Cancelling a context closes every scope created with it (or with a context derived from it)

`CtxDerives` / `ScopeUnder` say declaratively which scopes a cancellation ends; the executable walks of M4
(`ctxUnder`, `scopeCtxChain`) decide them; `cancelCtx` closes each of these scopes, keeps the forest invariant,
and everything closed stays closed.
-/
namespace Godi.Container

/-- contexts are derived from older contexts -/
def CtxWF (st : State) : Prop := ∀ c, c ≠ 0 → st.ctxParent c < c

inductive CtxDerives (st : State) (x : Nat) : Nat → Prop
  | self : x ≠ 0 → CtxDerives st x x
  | step {c : Nat} : c ≠ 0 → c ≠ x → CtxDerives st x (st.ctxParent c) → CtxDerives st x c

theorem ctxUnder_iff (st : State) (x : Nat) (wfc : CtxWF st) : ∀ (f c : Nat), c < f →
    (ctxUnder st f c x = true ↔ CtxDerives st x c) := by
  intro f
  induction f with
  | zero => intro c hc; omega
  | succ f ih =>
    intro c hc
    unfold ctxUnder
    by_cases h0 : c = 0
    · subst h0
      simp only [beq_self_eq_true, ↓reduceIte, Bool.false_eq_true, false_iff]
      intro h; cases h with
      | self h => exact h rfl
      | step h _ _ => exact h rfl
    · have hb0 : (c == 0) = false := by simp [h0]
      simp only [hb0, Bool.false_eq_true, ↓reduceIte]
      by_cases hx : c = x
      · subst hx; simp only [beq_self_eq_true, ↓reduceIte, true_iff]; exact .self h0
      · have hbx : (c == x) = false := by simp [hx]
        simp only [hbx, Bool.false_eq_true, ↓reduceIte]
        have hp := wfc c h0
        rw [ih (st.ctxParent c) (by omega)]
        constructor
        · intro h; exact .step h0 hx h
        · intro h; cases h with
          | self _ => exact absurd rfl hx
          | step _ _ h => exact h

theorem ctxDerives_congr {st st0 : State} (h : st0.ctxParent = st.ctxParent) {x c : Nat} (d : CtxDerives st x c) :
    CtxDerives st0 x c := by
  induction d with
  | self h' => exact .self h'
  | step a b _ ih => exact .step a b (by rw [h]; exact ih)

/-- the context of scope `s` is `x` or derived from it -/
inductive ScopeUnder (st : State) (x : Nat) : Nat → Prop
  | own {s : Nat} : (st.scope s).ctxOf ≠ 0 → CtxDerives st x (st.scope s).ctxOf → ScopeUnder st x s
  | inherit {s p : Nat} : (st.scope s).ctxOf = 0 → (st.scope s).parent = some p → p ≠ rootScope →
      ScopeUnder st x p → ScopeUnder st x s

theorem scopeCtxChain_iff (st : State) (x : Nat) (wfc : CtxWF st)
    (hold : ∀ s p, s < st.nscopes → (st.scope s).parent = some p → p < s) : ∀ (f s : Nat), s < f → s < st.nscopes →
    (scopeCtxChain st f s x = true ↔ ScopeUnder st x s) := by
  intro f
  induction f with
  | zero => intro s hs; omega
  | succ f ih =>
    intro s hs hn
    unfold scopeCtxChain
    simp only []
    by_cases hc : (st.scope s).ctxOf = 0
    · have hb : ((st.scope s).ctxOf != 0) = false := by simp [hc]
      simp only [hb, Bool.false_eq_true, ↓reduceIte]
      cases hp : (st.scope s).parent with
      | none =>
        simp only [Bool.false_eq_true, false_iff]
        intro h; cases h with
        | own h _ => exact h hc
        | inherit _ h _ _ => rw [hp] at h; cases h
      | some p =>
        simp only []
        have hps := hold s p hn hp
        by_cases hr : p = rootScope
        · have : (p == rootScope) = true := by simp [hr]
          simp only [this, ↓reduceIte, Bool.false_eq_true, false_iff]
          intro h; cases h with
          | own h _ => exact h hc
          | inherit _ h h' _ => rw [hp] at h; cases h; exact h' hr
        · have : (p == rootScope) = false := by simp [hr]
          simp only [this, Bool.false_eq_true, ↓reduceIte]
          rw [ih p (by omega) (by omega)]
          constructor
          · intro h; exact .inherit hc hp hr h
          · intro h; cases h with
            | own h _ => exact absurd hc h
            | inherit _ h _ h' => rw [hp] at h; cases h; exact h'
    · have hb : ((st.scope s).ctxOf != 0) = true := by simp [hc]
      simp only [hb, ↓reduceIte]
      rw [ctxUnder_iff st x wfc _ _ (Nat.lt_succ_self _)]
      constructor
      · intro h; exact .own hc h
      · intro h; cases h with
        | own _ h => exact h
        | inherit h _ _ _ => exact absurd h hc

/-! ### closing a list of scopes -/

theorem closeFuel_succ (st : State) : ∃ f, closeFuel st = f + 1 := ⟨closeFuel st - 1, by unfold closeFuel; omega⟩

theorem closeAll_spec (beh : Beh) : ∀ (l : List Nat) (st : State), Tree st → (∀ s ∈ l, s < st.nscopes) →
    Tree (closeAll beh st l) ∧ (closeAll beh st l).nscopes = st.nscopes ∧ DispMono st (closeAll beh st l) ∧
    ∀ s ∈ l, ((closeAll beh st l).scope s).disposed = true := by
  intro l
  induction l with
  | nil => intro st t _; exact ⟨t, rfl, DispMono.refl st, fun s hs => by cases hs⟩
  | cons a rest ih =>
    intro st t hl
    have ha := hl a (List.mem_cons_self ..)
    obtain ⟨t1, n1⟩ := tree_close_any beh id (fun l => List.Perm.refl l) st t a ha
    have m1 : DispMono st (closeScope beh id (closeFuel st) st a).1 := (closeScope_dispMono beh id _).1 st a
    have d1 : (((closeScope beh id (closeFuel st) st a).1).scope a).disposed = true := by
      obtain ⟨f, hf⟩ := closeFuel_succ st
      rw [hf]; exact closeScope_disposes_self beh id f st a
    obtain ⟨t2, n2, m2, d2⟩ := ih _ t1 (fun s hs => by rw [n1]; exact hl s (List.mem_cons_of_mem _ hs))
    have e : closeAll beh st (a :: rest) = closeAll beh (closeScope beh id (closeFuel st) st a).1 rest := rfl
    rw [e]
    refine ⟨t2, n2.trans n1, m1.trans m2, ?_⟩
    intro s hs
    rcases List.mem_cons.1 hs with rfl | h
    · exact m2 s d1
    · exact d2 s h

/-- CANCELLATION CLOSES: after `cancel()` of context `x` (and the watchers it wakes), every scope other than the
root whose context is `x` or derived from it — through the context it was created with or, when it was created
without one, through the chain of scopes that created it — is closed; scopes closed before stay closed; the forest
invariant holds again -/
theorem cancel_closes_scopes_under (beh : Beh) (st : State) (t : Tree st) (wfc : CtxWF st) (x : Nat) :
    Tree (cancelCtx beh st x) ∧ DispMono st (cancelCtx beh st x) ∧
    ∀ s, s < st.nscopes → s ≠ rootScope → ScopeUnder st x s → ((cancelCtx beh st x).scope s).disposed = true := by
  unfold cancelCtx
  simp only []
  generalize hst0 : ({ st with ctxCancelled := fun c => c == x || st.ctxCancelled c } : State) = st0
  have sf : SameForest st st0 := by subst hst0; exact ⟨rfl, rfl, fun _ => rfl, fun _ => rfl, fun _ => rfl, fun _ => rfl⟩
  have t0 : Tree st0 := t.congr sf
  have hsc : st0.scope = st.scope := by subst hst0; rfl
  have hcp : st0.ctxParent = st.ctxParent := by subst hst0; rfl
  have hn0 : st0.nscopes = st.nscopes := by subst hst0; rfl
  have hl : ∀ s ∈ scopesUnder st0 x, s < st0.nscopes := by
    intro s hs; unfold scopesUnder at hs
    exact List.mem_range.1 (List.mem_filter.1 hs).1
  obtain ⟨t1, _, m1, d1⟩ := closeAll_spec beh (scopesUnder st0 x) st0 t0 hl
  refine ⟨t1, fun s hs => m1 s (by rw [sf.disp]; exact hs), ?_⟩
  intro s hs hr hu
  apply d1
  unfold scopesUnder
  rw [List.mem_filter]
  refine ⟨List.mem_range.2 (by rw [hn0]; exact hs), ?_⟩
  have wfc0 : CtxWF st0 := by intro c hc; rw [hcp]; exact wfc c hc
  have hu0 : ScopeUnder st0 x s := by
    clear hs hr
    induction hu with
    | own h1 h2 =>
      refine .own (by rw [hsc]; exact h1) ?_
      rw [hsc]
      exact ctxDerives_congr hcp h2
    | inherit h1 h2 h3 _ ih => exact .inherit (by rw [hsc]; exact h1) (by rw [hsc]; exact h2) h3 ih
  have := (scopeCtxChain_iff st0 x wfc0 (fun s p hs hp => t0.older s p hs hp) (s + 1) s (Nat.lt_succ_self _)
    (by rw [hn0]; exact hs)).2 hu0
  simp [this, hr]

end Godi.Container
