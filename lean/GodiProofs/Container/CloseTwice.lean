import GodiProofs.Container.Drain
import GodiProofs.Container.Cascade
/-!
# `Provider.Close` twice (C12)

Whatever the first `Provider.Close` did — any state, any scope tree, any failing `Close()` methods, any
iteration order — it leaves the provider disposed, so a second `Provider.Close` (with any order) returns
nil, changes nothing and logs nothing: nothing is closed a second time.
-/
namespace Godi.Container

theorem closeScope_pdisposed (beh : Beh) (order : List Nat → List Nat) (fuel : Nat) (st : State) (s : Nat) :
    (closeScope beh order fuel st s).1.disposed = st.disposed :=
  ((tidy_close beh order fuel).1 (fun _ => True) (fun _ => True) st s (fun _ h => absurd trivial h)
    (fun _ _ _ h => absurd trivial h)).2.2.pdisposed

theorem closeChildren_pdisposed (beh : Beh) (order : List Nat → List Nat) (fuel : Nat) (st : State) (l : List Nat) :
    (closeChildren beh order fuel st l).1.disposed = st.disposed :=
  ((tidy_close beh order fuel).2 (fun _ => True) (fun _ => True) st l (fun _ h => absurd trivial h)
    (fun _ _ _ h => absurd trivial h)).2.2.pdisposed

/-- after `Provider.Close` the provider is disposed, whatever state it was called in -/
theorem closeProvider_disposed (beh : Beh) (order : List Nat → List Nat) (st : State) :
    (closeProvider beh order st).1.disposed = true := by
  unfold closeProvider
  by_cases h : st.disposed = true
  · simp [h]
  · simp only [h, Bool.false_eq_true, ↓reduceIte]
    rw [(closeLoop_closeEff beh providerOwner _ _).pdisposed]
    simp only
    rw [closeScope_pdisposed, closeChildren_pdisposed]

theorem closeProvider_of_disposed (beh : Beh) (order : List Nat → List Nat) (st : State) (h : st.disposed = true) :
    closeProvider beh order st = (st, false) := by
  unfold closeProvider; simp [h]

/-- CLOSE TWICE = CLOSE ONCE -/
theorem closeProvider_twice (beh : Beh) (order order' : List Nat → List Nat) (st : State) :
    closeProvider beh order' (closeProvider beh order st).1 = ((closeProvider beh order st).1, false) :=
  closeProvider_of_disposed beh order' _ (closeProvider_disposed beh order st)

theorem closeScope_of_disposed (beh : Beh) (order : List Nat → List Nat) (f : Nat) (st : State) (s : Nat)
    (h : (st.scope s).disposed = true) : closeScope beh order f st s = (st, false) := by
  cases f with
  | zero => simp [closeScope]
  | succ f => unfold closeScope; simp [h]

/-- the same for a scope: after a `Close` that had fuel to start, a second `Close` of that scope — with any
fuel and any iteration order — returns nil and changes nothing -/
theorem closeScope_twice (beh : Beh) (order order' : List Nat → List Nat) (f f' : Nat) (st : State) (s : Nat) :
    closeScope beh order' f' (closeScope beh order (f + 1) st s).1 s = ((closeScope beh order (f + 1) st s).1, false) :=
  closeScope_of_disposed beh order' f' _ s (closeScope_disposes_self beh order f st s)

end Godi.Container
