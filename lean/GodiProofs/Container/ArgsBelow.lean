import GodiProofs.Container.Order
/-!
# What a constructor receives was created before what it produces

Instance ids are handed out by a counter after the constructor has returned. `AB st`: every instance id stored in
the singleton table or in a scope cache is below the counter, and in every constructor event of the log every id
among the arguments is smaller than every id among the products. By induction on the fuel over the six resolution
functions (values handed out are below the counter of the state they are handed out in). With `Order.lean` (a scope's
disposal list is increasing in id, `Close` walks it backwards): an instance is closed before every instance of the
same scope that it received as an argument.
-/
namespace Godi.Container

def idsOf : Val → List Inst
  | .inst i => [i]
  | .group l => l
  | _ => []

def ValBelow (v : Val) (b : Nat) : Prop := ∀ i ∈ idsOf v, i < b

def MapBelow (m : List (Ident × Val)) (b : Nat) : Prop := ∀ k v, lookup m k = some v → ValBelow v b

def EvBelow : Event → Prop
  | .ctor _ _ _ _ args outs => ∀ a ∈ outs, ∀ v ∈ args, ∀ i ∈ idsOf v, i < a
  | _ => True

structure AB (st : State) : Prop where
  sing : MapBelow st.singletons st.next
  inst : ∀ x, MapBelow ((st.scope x).instances.getD []) st.next
  evs : ∀ e ∈ st.log, EvBelow e

theorem ValBelow.mono {v : Val} {b b' : Nat} (h : ValBelow v b) (hb : b ≤ b') : ValBelow v b' :=
  fun i hi => Nat.lt_of_lt_of_le (h i hi) hb

theorem MapBelow.mono {m : List (Ident × Val)} {b b' : Nat} (h : MapBelow m b) (hb : b ≤ b') : MapBelow m b' :=
  fun k v hk => (h k v hk).mono hb

theorem mapBelow_put {m : List (Ident × Val)} {b : Nat} (h : MapBelow m b) (k : Ident) (v : Val) (hv : ValBelow v b) :
    MapBelow (cachePut m k v) b := by
  intro k' v' hk
  by_cases hkk : k' = k
  · subst hkk; rw [lookup_put_self] at hk; cases hk; exact hv
  · rw [lookup_put_ne m k k' v hkk] at hk; exact h k' v' hk

theorem mapBelow_nil (b : Nat) : MapBelow [] b := by intro k v h; simp [lookup] at h

/-- the parts of `AB` other than the log, relative to a bound -/
structure TB (st : State) (b : Nat) : Prop where
  sing : MapBelow st.singletons b
  inst : ∀ x, MapBelow ((st.scope x).instances.getD []) b

theorem TB.mono {st : State} {b b' : Nat} (h : TB st b) (hb : b ≤ b') : TB st b' :=
  ⟨h.sing.mono hb, fun x => (h.inst x).mono hb⟩

theorem tb_of_eq {st st' : State} {b : Nat} (h : TB st b) (hs : st'.singletons = st.singletons) (hsc : st'.scope = st.scope) :
    TB st' b := ⟨by rw [hs]; exact h.sing, fun x => by rw [hsc]; exact h.inst x⟩

theorem tb_upd_other (st : State) (s : Nat) (g : ScopeSt → ScopeSt) (b : Nat) (hi : ∀ sc, (g sc).instances = sc.instances)
    (h : TB st b) : TB (updScope st s g) b := by
  refine ⟨h.sing, fun x => ?_⟩
  rw [scope_upd]; split
  next hx => subst hx; rw [hi]; exact h.inst x
  · exact h.inst x

theorem tb_putInstance (st : State) (s : Nat) (k : Ident) (v : Val) (b : Nat) (h : TB st b) (hv : ValBelow v b) :
    TB (putInstance st s k v) b := by
  refine ⟨h.sing, fun x => ?_⟩
  unfold putInstance
  rw [scope_upd]; split
  next hx =>
    subst hx
    cases hm : (st.scope x).instances with
    | none => simp; exact mapBelow_nil b
    | some m =>
      have := h.inst x
      rw [hm] at this
      simp only [Option.map_some, Option.getD_some]
      exact mapBelow_put this k v hv
  · exact h.inst x

theorem tb_storeSingleton (st : State) (k : Ident) (v : Val) (b : Nat) (h : TB st b) (hv : ValBelow v b) :
    TB (storeSingleton st k v) b := ⟨mapBelow_put h.sing k v hv, h.inst⟩

theorem tb_track (st : State) (s : Nat) (v : Val) (disp : Bool) (b : Nat) (h : TB st b) : TB (track st s v disp).1 b := by
  unfold track
  split
  · split
    · split
      · exact tb_of_eq h rfl rfl
      · exact h
    · split
      · simp only []; exact tb_upd_other st s _ b (fun _ => rfl) h
      · exact h
  · split <;> exact h

theorem tb_setInstance (st : State) (s : Nat) (d : Desc) (k : Ident) (v : Val) (b : Nat) (h : TB st b) (hv : ValBelow v b) :
    TB (setInstance st s d k v).1 b := by
  unfold setInstance
  split
  · have h1 := tb_storeSingleton st k v b h hv
    split
    · split
      · exact tb_of_eq h1 rfl rfl
      · exact h1
    · exact h1
  · exact tb_track _ s v d.disp b (tb_putInstance st s k v b h hv)
  · exact tb_track st s v d.disp b h

theorem tb_shareInstance (st : State) (s : Nat) (d : Desc) (k : Ident) (v : Val) (b : Nat) (h : TB st b) (hv : ValBelow v b) :
    TB (shareInstance st s d k v) b := by
  unfold shareInstance
  split
  · exact tb_storeSingleton st k v b h hv
  · exact tb_putInstance st s k v b h hv
  · exact h

theorem tb_shareAll (s self : Nat) (v : Val) (b : Nat) (hv : ValBelow v b) : ∀ (sibs : List Desc) (st : State), TB st b →
    TB (shareAll st s self sibs v) b := by
  intro sibs
  induction sibs with
  | nil => intro st h; exact h
  | cons d ds ih =>
    intro st h
    unfold shareAll
    simp only [List.foldl_cons]
    have h2 := ih (if d.id = self then st else shareInstance st s d d.ident v) (by
      split
      · exact h
      · exact tb_shareInstance st s d d.ident v b h hv)
    unfold shareAll at h2
    exact h2

theorem tb_markAbsent (st : State) (s : Nat) (sibs0 : List Desc) (nil? : Option Nat) (b : Nat) (h : TB st b) :
    TB (markAbsent st s sibs0 nil?) b := by
  unfold markAbsent
  split
  · split
    · exact tb_shareInstance _ _ _ _ _ b h (fun i hi => by cases hi)
    · exact h
  · exact h

theorem tb_storeOuts (s : Nat) (b : Nat) : ∀ (sibs : List Desc) (outs : List Inst) (st : State), TB st b → (∀ o ∈ outs, o < b) →
    TB (storeOuts st s sibs outs).1 b := by
  intro sibs
  induction sibs with
  | nil => intro outs st h _; simp [storeOuts]; exact h
  | cons d ds ih =>
    intro outs st h ho
    cases outs with
    | nil => simp [storeOuts]; exact h
    | cons o os =>
      unfold storeOuts
      simp only []
      have h1 := tb_setInstance st s d d.ident (.inst o) b h (fun i hi => by
        simp only [idsOf, List.mem_singleton] at hi; subst hi; exact ho _ (List.mem_cons_self ..))
      exact ih os _ h1 (fun x hx => ho x (List.mem_cons_of_mem _ hx))

theorem allocOuts_bounds (n k a : Nat) (h : a ∈ allocOuts n k) : n ≤ a ∧ a < n + k := by
  unfold allocOuts at h
  obtain ⟨x, hx, rfl⟩ := List.mem_map.1 h
  have := List.mem_range.1 hx
  omega

/-! ### the induction -/

structure ABStep (st st' : State) : Prop where
  ab : AB st'
  next : st.next ≤ st'.next

theorem ABStep.refl {st : State} (h : AB st) : ABStep st st := ⟨h, Nat.le_refl _⟩
theorem ABStep.trans {a b c : State} (h1 : ABStep a b) (h2 : ABStep b c) : ABStep a c := ⟨h2.ab, Nat.le_trans h1.next h2.next⟩

def ResBelow (r : State × Except Err Val) : Prop := ∀ v, r.2 = .ok v → ValBelow v r.1.next

theorem AB.tb {st : State} (h : AB st) : TB st st.next := ⟨h.sing, h.inst⟩

theorem ab_of {st' : State} (tb : TB st' st'.next) (hl : ∀ e ∈ st'.log, EvBelow e) : AB st' := ⟨tb.sing, tb.inst, hl⟩

/-! ### storing logs `closed` events at most -/

def LogOK (st : State) : Prop := ∀ e ∈ st.log, EvBelow e

theorem logOK_of_eq {st st' : State} (l : LogOK st) (h : st'.log = st.log) : LogOK st' := by intro e he; rw [h] at he; exact l e he

theorem logOK_closed {st : State} (l : LogOK st) (o : Nat) (i : Inst) (ok : Bool) : LogOK (logClosed st o i ok) := by
  intro e he
  have : e ∈ st.log ++ [Event.closed o i ok] := he
  rcases List.mem_append.1 this with h | h
  · exact l e h
  · simp only [List.mem_singleton] at h; subst h; trivial

theorem logOK_track {st : State} (l : LogOK st) (s : Nat) (v : Val) (disp : Bool) : LogOK (track st s v disp).1 := by
  unfold track
  split
  · split
    · split
      · exact logOK_closed l _ _ _
      · exact l
    · split
      · exact logOK_of_eq l rfl
      · exact l
  · split <;> exact l

theorem logOK_setInstance {st : State} (l : LogOK st) (s : Nat) (d : Desc) (k : Ident) (v : Val) : LogOK (setInstance st s d k v).1 := by
  unfold setInstance
  split
  · split
    · split <;> exact logOK_of_eq l rfl
    · exact logOK_of_eq l rfl
  · exact logOK_track (logOK_of_eq (st' := putInstance st s k v) l rfl) s v d.disp
  · exact logOK_track l s v d.disp

theorem logOK_shareInstance {st : State} (l : LogOK st) (s : Nat) (d : Desc) (k : Ident) (v : Val) : LogOK (shareInstance st s d k v) := by
  unfold shareInstance; split <;> exact logOK_of_eq l rfl

theorem logOK_shareAll (s self : Nat) (v : Val) : ∀ (sibs : List Desc) (st : State), LogOK st → LogOK (shareAll st s self sibs v) := by
  intro sibs
  induction sibs with
  | nil => intro st l; exact l
  | cons d ds ih =>
    intro st l
    unfold shareAll
    simp only [List.foldl_cons]
    have h2 := ih (if d.id = self then st else shareInstance st s d d.ident v) (by
      split
      · exact l
      · exact logOK_shareInstance l s d d.ident v)
    unfold shareAll at h2
    exact h2

theorem logOK_storeOuts (s : Nat) : ∀ (sibs : List Desc) (outs : List Inst) (st : State), LogOK st → LogOK (storeOuts st s sibs outs).1 := by
  intro sibs
  induction sibs with
  | nil => intro outs st l; simp [storeOuts]; exact l
  | cons d ds ih =>
    intro outs st l
    cases outs with
    | nil => simp [storeOuts]; exact l
    | cons o os =>
      unfold storeOuts
      simp only []
      exact ih os _ (logOK_setInstance l s d d.ident (.inst o))

theorem logOK_markAbsent {st : State} (l : LogOK st) (s : Nat) (sibs0 : List Desc) (nil? : Option Nat) :
    LogOK (markAbsent st s sibs0 nil?) := by
  unfold markAbsent
  split
  · split
    · exact logOK_shareInstance l _ _ _ _
    · exact l
  · exact l

theorem logOK_ev {st : State} (l : LogOK st) (e : Event) (he : EvBelow e) : LogOK (logEv st e) := by
  intro x hx
  have : x ∈ st.log ++ [e] := hx
  rcases List.mem_append.1 this with h | h
  · exact l x h
  · simp only [List.mem_singleton] at h; subst h; exact he

theorem le_foldl_max_init : ∀ (l : List Nat) (init x : Nat), (x ≤ init ∨ x ∈ l) → x ≤ l.foldl max init := by
  intro l
  induction l with
  | nil => intro init x h; rcases h with h | h; exact h; cases h
  | cons a rest ih =>
    intro init x h
    simp only [List.foldl_cons]
    apply ih
    rcases h with h | h
    · exact Or.inl (Nat.le_trans h (Nat.le_max_left _ _))
    · rcases List.mem_cons.1 h with rfl | h
      · exact Or.inl (Nat.le_max_right _ _)
      · exact Or.inr h

theorem instVal_lt_firstFresh_of_mem (descs : List Desc) (d : Desc) (hd : d ∈ descs) : instVal d < firstFresh descs := by
  unfold firstFresh
  have := le_foldl_max_init (descs.map instVal) 0 (instVal d) (Or.inr (List.mem_map_of_mem hd))
  omega

theorem getD_allocOuts_lt (n L idx : Nat) (hn : 0 < n) : (allocOuts n L).getD idx 0 < n + L := by
  rw [List.getD_eq_getElem?_getD]
  cases hg : (allocOuts n L)[idx]? with
  | none => simp only [Option.getD_none]; exact Nat.lt_of_lt_of_le hn (Nat.le_add_right _ _)
  | some o => simp only [Option.getD_some]; exact (allocOuts_bounds _ _ _ (List.mem_of_getElem? hg)).2

/-- the products of one invocation: allocated above everything the arguments mention, then stored -/
theorem ab_multi (st2 : State) (s : Nat) (d : Desc) (args : List Val) (sibs' : List Desc) (t2 : TB st2 st2.next) (l2 : LogOK st2)
    (hargs : ∀ v ∈ args, ValBelow v st2.next) :
    TB (storeOuts (logEv (alloc st2 sibs'.length d.ctor (st2.invs d.ctor))
        (.ctor d.id d.ctor (st2.invs d.ctor) s args (allocOuts st2.next sibs'.length))) s sibs' (allocOuts st2.next sibs'.length)).1
      (st2.next + sibs'.length) ∧
    LogOK (storeOuts (logEv (alloc st2 sibs'.length d.ctor (st2.invs d.ctor))
        (.ctor d.id d.ctor (st2.invs d.ctor) s args (allocOuts st2.next sibs'.length))) s sibs' (allocOuts st2.next sibs'.length)).1 := by
  have hev : EvBelow (.ctor d.id d.ctor (st2.invs d.ctor) s args (allocOuts st2.next sibs'.length)) := by
    intro a ha v hv i hi
    exact Nat.lt_of_lt_of_le (hargs v hv i hi) (allocOuts_bounds _ _ _ ha).1
  have l3 := logOK_ev (st := alloc st2 sibs'.length d.ctor (st2.invs d.ctor)) (logOK_of_eq l2 rfl) _ hev
  have t3 : TB (logEv (alloc st2 sibs'.length d.ctor (st2.invs d.ctor))
      (.ctor d.id d.ctor (st2.invs d.ctor) s args (allocOuts st2.next sibs'.length))) (st2.next + sibs'.length) :=
    tb_of_eq (t2.mono (Nat.le_add_right _ _)) rfl rfl
  exact ⟨tb_storeOuts s _ sibs' _ _ t3 (fun o ho => (allocOuts_bounds _ _ _ ho).2), logOK_storeOuts s sibs' _ _ l3⟩

theorem multi_result {cond : Prop} [Decidable cond] (r : Except Err Unit) (x : Inst) (w : Val)
    (h : (if cond then okOr r (Val.inst x) else match r with
      | .error e => (.error e : Except Err Val)
      | .ok _ => .error [Layer.validation]) = .ok w) : w = .inst x := by
  split at h
  · unfold okOr at h
    split at h
    · simp only [Except.ok.injEq] at h; exact h.symm
    · cases h
  · split at h <;> cases h

theorem ab_all (beh : Beh) (descs : List Desc) : ∀ fuel,
    (∀ st s ty key, st.descs = descs → firstFresh descs ≤ st.next → AB st →
      ABStep st (resolve beh fuel st s ty key).1 ∧ ResBelow (resolve beh fuel st s ty key)) ∧
    (∀ st s d, st.descs = descs → firstFresh descs ≤ st.next → d ∈ descs → AB st →
      ABStep st (resolveDesc beh fuel st s d).1 ∧ ResBelow (resolveDesc beh fuel st s d)) ∧
    (∀ st s ty grp, st.descs = descs → firstFresh descs ≤ st.next → AB st →
      ABStep st (getGroup beh fuel st s ty grp).1 ∧ ResBelow (getGroup beh fuel st s ty grp)) ∧
    (∀ st s ds acc, st.descs = descs → firstFresh descs ≤ st.next → (∀ d ∈ ds, d ∈ descs) → AB st → (∀ i ∈ acc, i < st.next) →
      ABStep st (resolveMembers beh fuel st s ds acc).1 ∧ ResBelow (resolveMembers beh fuel st s ds acc)) ∧
    (∀ st s deps acc, st.descs = descs → firstFresh descs ≤ st.next → AB st → (∀ v ∈ acc, ValBelow v st.next) →
      ABStep st (buildArgs beh fuel st s deps acc).1 ∧
      ∀ args, (buildArgs beh fuel st s deps acc).2 = .ok args → ∀ v ∈ args, ValBelow v (buildArgs beh fuel st s deps acc).1.next) ∧
    (∀ st s d, st.descs = descs → firstFresh descs ≤ st.next → d ∈ descs → AB st →
      ABStep st (createInstance beh fuel st s d).1 ∧ ResBelow (createInstance beh fuel st s d)) := by
  intro fuel
  induction fuel with
  | zero =>
    refine ⟨?_, ?_, ?_, ?_, ?_, ?_⟩ <;> intros <;>
      simp [resolve, resolveDesc, getGroup, resolveMembers, buildArgs, createInstance, ResBelow] <;> exact ABStep.refl ‹_›
  | succ f ih =>
    obtain ⟨ihR, ihD, ihG, ihM, ihA, ihC⟩ := ih
    have okv : ∀ (st : State) (v : Val), ValBelow v st.next → ResBelow (st, .ok v) := by
      intro st v hv w hw; simp only [Except.ok.injEq] at hw; subst hw; exact hv
    have errv : ∀ (st : State) (e : Err), ResBelow (st, .error e) := by intro st e w hw; cases hw
    refine ⟨?_, ?_, ?_, ?_, ?_, ?_⟩
    · intro st s ty key hd hff h
      unfold resolve
      split; · exact ⟨ABStep.refl h, errv _ _⟩
      split; · exact ⟨ABStep.refl h, okv _ _ (fun i hi => by cases hi)⟩
      split; · exact ⟨ABStep.refl h, okv _ _ (fun i hi => by cases hi)⟩
      split; · exact ⟨ABStep.refl h, okv _ _ (fun i hi => by cases hi)⟩
      split
      · exact ⟨ABStep.refl h, errv _ _⟩
      next d hfd => exact ihD st s d hd hff (by rw [hd] at hfd; exact findService_mem hfd) h
    · intro st s d hd hff hm h
      unfold resolveDesc
      split
      · split
        · exact ⟨ABStep.refl h, errv _ _⟩
        next v _ hv => exact ⟨ABStep.refl h, okv _ _ (h.sing _ _ hv)⟩
        · exact ⟨ABStep.refl h, errv _ _⟩
      · split
        · exact ⟨ABStep.refl h, errv _ _⟩
        next v _ hv => exact ⟨ABStep.refl h, okv _ _ (h.inst s _ _ hv)⟩
        · exact ihC st s d hd hff hm h
      · exact ihC st s d hd hff hm h
    · intro st s ty grp hd hff h
      unfold getGroup
      split; · exact ⟨ABStep.refl h, errv _ _⟩
      exact ihM st s _ [] hd hff (fun d hdm => by rw [hd] at hdm; exact groupMembers_mem hdm) h (fun i hi => by cases hi)
    · intro st s ds acc hd hff hds h hacc
      cases ds with
      | nil =>
        unfold resolveMembers
        exact ⟨ABStep.refl h, okv _ _ (fun i hi => hacc i hi)⟩
      | cons d rest =>
        rw [resolveMembers_cons]
        obtain ⟨h1, r1⟩ := ihD st s d hd hff (hds d (List.mem_cons_self ..)) h
        have hd1 : (resolveDesc beh f st s d).1.descs = descs := by rw [(descs_frame beh f).2.1]; exact hd
        have hff1 : firstFresh descs ≤ (resolveDesc beh f st s d).1.next := Nat.le_trans hff h1.next
        have hrest : ∀ x ∈ rest, x ∈ descs := fun x hx => hds x (List.mem_cons_of_mem _ hx)
        have hacc1 : ∀ i ∈ acc, i < (resolveDesc beh f st s d).1.next := fun i hi => Nat.lt_of_lt_of_le (hacc i hi) h1.next
        unfold membersStep
        split
        next i hi =>
          have hib : i < (resolveDesc beh f st s d).1.next := r1 _ hi i (by simp [idsOf])
          obtain ⟨h2, r2⟩ := ihM _ s rest (acc ++ [i]) hd1 hff1 hrest h1.ab (fun x hx => by
            rcases List.mem_append.1 hx with hx | hx
            · exact hacc1 x hx
            · simp only [List.mem_singleton] at hx; subst hx; exact hib)
          exact ⟨h1.trans h2, r2⟩
        · obtain ⟨h2, r2⟩ := ihM _ s rest acc hd1 hff1 hrest h1.ab hacc1
          exact ⟨h1.trans h2, r2⟩
        · exact ⟨h1, errv _ _⟩
    · intro st s deps acc hd hff h hacc
      cases deps with
      | nil =>
        unfold buildArgs
        refine ⟨ABStep.refl h, ?_⟩
        intro args ha; simp only [Except.ok.injEq] at ha; subst ha; exact hacc
      | cons dep rest =>
        rw [buildArgs_cons]
        have h1 : (ABStep st (if dep.grp != 0 then getGroup beh f st s dep.ty dep.grp else resolve beh f st s dep.ty dep.key).1 ∧
            ResBelow (if dep.grp != 0 then getGroup beh f st s dep.ty dep.grp else resolve beh f st s dep.ty dep.key)) ∧
            (if dep.grp != 0 then getGroup beh f st s dep.ty dep.grp else resolve beh f st s dep.ty dep.key).1.descs = descs := by
          split
          · exact ⟨ihG st s _ _ hd hff h, by rw [(descs_frame beh f).2.2.1]; exact hd⟩
          · exact ⟨ihR st s _ _ hd hff h, by rw [(descs_frame beh f).1]; exact hd⟩
        generalize (if dep.grp != 0 then getGroup beh f st s dep.ty dep.grp else resolve beh f st s dep.ty dep.key) = r at h1
        obtain ⟨⟨h1, r1⟩, hd1⟩ := h1
        have hff1 : firstFresh descs ≤ r.1.next := Nat.le_trans hff h1.next
        have hacc1 : ∀ v ∈ acc, ValBelow v r.1.next := fun v hv => (hacc v hv).mono h1.next
        unfold argsStep
        split
        next v hv =>
          obtain ⟨h2, r2⟩ := ihA r.1 s rest (acc ++ [v]) hd1 hff1 h1.ab (fun x hx => by
            rcases List.mem_append.1 hx with hx | hx
            · exact hacc1 x hx
            · simp only [List.mem_singleton] at hx; subst hx; exact r1 _ hv)
          exact ⟨h1.trans h2, r2⟩
        · split
          · obtain ⟨h2, r2⟩ := ihA r.1 s rest (acc ++ [.zero]) hd1 hff1 h1.ab (fun x hx => by
              rcases List.mem_append.1 hx with hx | hx
              · exact hacc1 x hx
              · simp only [List.mem_singleton] at hx; subst hx; intro i hi; cases hi)
            exact ⟨h1.trans h2, r2⟩
          · exact ⟨h1, fun args ha => by cases ha⟩
    · intro st s d hd hff hm h
      unfold createInstance
      split
      next v hk =>
        simp only []
        have hv : ValBelow (.inst v) st.next := by
          have hvv : v < st.next := by
            have := instVal_lt_firstFresh_of_mem descs d hm
            simp only [instVal, hk] at this
            exact Nat.lt_of_lt_of_le this hff
          intro i hi
          simp only [idsOf, List.mem_singleton] at hi
          rw [hi]; exact hvv
        have t1 : TB (setInstance st s d d.ident (.inst v)).1 st.next := tb_setInstance st s d d.ident _ _ h.tb hv
        have l1 : LogOK (setInstance st s d d.ident (.inst v)).1 := logOK_setInstance h.evs s d d.ident _
        split
        · exact ⟨⟨ab_of (by rw [setInstance_next_eq]; exact t1) l1, by rw [setInstance_next_eq]; exact Nat.le_refl _⟩, errv _ _⟩
        · refine ⟨⟨ab_of (by rw [shareAll_next_eq, setInstance_next_eq]; exact tb_shareAll _ _ _ _ hv _ _ t1)
            (logOK_shareAll _ _ _ _ _ l1), by rw [shareAll_next_eq, setInstance_next_eq]; exact Nat.le_refl _⟩, ?_⟩
          apply okv
          rw [shareAll_next_eq, setInstance_next_eq]; exact hv
      · simp only []
        obtain ⟨hA, rA⟩ := ihA st s d.deps [] hd hff h (fun v hv => by cases hv)
        generalize buildArgs beh f st s d.deps [] = ra at hA rA
        -- the state in which the constructor is invoked
        have t2 : TB (bumpInv ra.1 d.ctor) (bumpInv ra.1 d.ctor).next := tb_of_eq hA.ab.tb rfl rfl
        have l2 : LogOK (bumpInv ra.1 d.ctor) := logOK_of_eq hA.ab.evs rfl
        have hn2 : st.next ≤ (bumpInv ra.1 d.ctor).next := hA.next
        split
        · exact ⟨hA, errv _ _⟩
        next args hargs =>
          have hargs' : ∀ v ∈ args, ValBelow v (bumpInv ra.1 d.ctor).next := rA args hargs
          split
          · exact ⟨⟨ab_of (tb_of_eq t2 rfl rfl) (logOK_ev l2 _ trivial), hn2⟩, errv _ _⟩
          · exact ⟨⟨ab_of (tb_of_eq t2 rfl rfl) (logOK_ev l2 _ trivial), hn2⟩, errv _ _⟩
          · exact ⟨⟨ab_of (tb_of_eq t2 rfl rfl) (logOK_ev l2 _ trivial), hn2⟩, errv _ _⟩
          · split
            · -- void: no product
              have l3 : LogOK (logEv (bumpInv ra.1 d.ctor) (.ctor d.id d.ctor ((bumpInv ra.1 d.ctor).invs d.ctor) s args [])) :=
                logOK_ev l2 _ (fun a ha => by cases ha)
              refine ⟨⟨ab_of (by rw [setInstance_next_eq]; exact tb_setInstance _ s d d.ident .unit _ (tb_of_eq t2 rfl rfl) (fun i hi => by cases hi))
                (logOK_setInstance l3 s d d.ident .unit), by rw [setInstance_next_eq]; exact hn2⟩, ?_⟩
              intro w hw
              intro i hi
              unfold okOr at hw
              split at hw
              · simp only [Except.ok.injEq] at hw; subst hw; cases hi
              · cases hw
            · -- several products
              simp only []
              have hpos : 0 < (bumpInv ra.1 d.ctor).next :=
                Nat.lt_of_lt_of_le (Nat.succ_pos _) (Nat.le_trans (by unfold firstFresh; exact Nat.le_refl _) (Nat.le_trans hff hn2))
              refine ⟨⟨ab_of (by
                  rw [markAbsent_next_eq, storeOuts_next_eq]
                  exact tb_markAbsent _ _ _ _ _ (ab_multi (bumpInv ra.1 d.ctor) s d args _ t2 l2 hargs').1)
                (logOK_markAbsent (ab_multi (bumpInv ra.1 d.ctor) s d args _ t2 l2 hargs').2 _ _ _), by
                  rw [markAbsent_next_eq, storeOuts_next_eq]; exact Nat.le_trans hn2 (Nat.le_add_right _ _)⟩, ?_⟩
              intro w hw i hi
              rw [markAbsent_next_eq, storeOuts_next_eq]
              have hw' := multi_result _ _ _ hw
              subst hw'
              simp only [idsOf, List.mem_singleton] at hi
              rw [hi]
              exact getD_allocOuts_lt _ _ _ hpos
            · -- one product
              have hev : EvBelow (.ctor d.id d.ctor ((bumpInv ra.1 d.ctor).invs d.ctor) s args [(bumpInv ra.1 d.ctor).next]) := by
                intro a ha v hv i hi
                simp only [List.mem_singleton] at ha; subst ha
                exact hargs' v hv i hi
              have l3 := logOK_ev (st := alloc (bumpInv ra.1 d.ctor) 1 d.ctor ((bumpInv ra.1 d.ctor).invs d.ctor))
                (logOK_of_eq l2 rfl) _ hev
              have hvn : ValBelow (.inst (bumpInv ra.1 d.ctor).next) ((bumpInv ra.1 d.ctor).next + 1) := by
                intro i hi; simp only [idsOf, List.mem_singleton] at hi; subst hi; exact Nat.lt_succ_self _
              have t3 : TB (logEv (alloc (bumpInv ra.1 d.ctor) 1 d.ctor ((bumpInv ra.1 d.ctor).invs d.ctor))
                  (.ctor d.id d.ctor ((bumpInv ra.1 d.ctor).invs d.ctor) s args [(bumpInv ra.1 d.ctor).next]))
                  ((bumpInv ra.1 d.ctor).next + 1) := tb_of_eq (t2.mono (Nat.le_add_right _ _)) rfl rfl
              have t4 := tb_setInstance _ s d d.ident (.inst (bumpInv ra.1 d.ctor).next) _ t3 hvn
              have l4 := logOK_setInstance l3 s d d.ident (.inst (bumpInv ra.1 d.ctor).next)
              split
              · exact ⟨⟨ab_of (by rw [setInstance_next_eq]; exact t4) l4,
                  by rw [setInstance_next_eq]; exact Nat.le_trans hn2 (Nat.le_add_right _ _)⟩, errv _ _⟩
              · refine ⟨⟨ab_of (by rw [shareAll_next_eq, setInstance_next_eq]; exact tb_shareAll _ _ _ _ hvn _ _ t4)
                  (logOK_shareAll _ _ _ _ _ l4),
                  by rw [shareAll_next_eq, setInstance_next_eq]; exact Nat.le_trans hn2 (Nat.le_add_right _ _)⟩, ?_⟩
                apply okv
                rw [shareAll_next_eq, setInstance_next_eq]; exact hvn

/-! ### `Close`, scope creation, the operations, Build -/

structure ABFrame (st st' : State) : Prop where
  next : st'.next = st.next
  sing : st'.singletons = st.singletons
  inst : ∀ x, (st'.scope x).instances = (st.scope x).instances ∨ (st'.scope x).instances = none
  log : LogOK st → LogOK st'

theorem ABFrame.refl (st : State) : ABFrame st st := ⟨rfl, rfl, fun _ => Or.inl rfl, fun h => h⟩
theorem ABFrame.trans {a b c : State} (h1 : ABFrame a b) (h2 : ABFrame b c) : ABFrame a c :=
  ⟨h2.next.trans h1.next, h2.sing.trans h1.sing, fun x => by
    rcases h2.inst x with h | h
    · rcases h1.inst x with h' | h'
      · exact Or.inl (h.trans h')
      · exact Or.inr (h.trans h')
    · exact Or.inr h, fun l => h2.log (h1.log l)⟩

theorem ABFrame.ab {st st' : State} (f : ABFrame st st') (h : AB st) : AB st' := by
  refine ⟨by rw [f.sing, f.next]; exact h.sing, fun x => ?_, f.log h.evs⟩
  rw [f.next]
  rcases f.inst x with e | e
  · rw [e]; exact h.inst x
  · rw [e]; exact mapBelow_nil _

theorem abFrame_upd (st : State) (s : Nat) (g : ScopeSt → ScopeSt)
    (hg : ∀ sc, (g sc).instances = sc.instances ∨ (g sc).instances = none) : ABFrame st (updScope st s g) := by
  refine ⟨rfl, rfl, fun x => ?_, fun l => l⟩
  rw [scope_upd]; split
  next hx => subst hx; exact hg _
  · exact Or.inl rfl

theorem abFrame_close (beh : Beh) (order : List Nat → List Nat) : ∀ fuel,
    (∀ st s, ABFrame st (closeScope beh order fuel st s).1) ∧
    (∀ st l, ABFrame st (closeChildren beh order fuel st l).1) := by
  intro fuel
  induction fuel with
  | zero => exact ⟨fun st s => by simp [closeScope]; exact ABFrame.refl st, fun st l => by simp [closeChildren]; exact ABFrame.refl st⟩
  | succ f ih =>
    obtain ⟨ihS, ihC⟩ := ih
    refine ⟨?_, ?_⟩
    · intro st s
      unfold closeScope
      split
      · exact ABFrame.refl st
      · simp only []
        have h1a : ABFrame st (markDisposed st s) := by
          unfold markDisposed; exact abFrame_upd st s _ (fun _ => Or.inl rfl)
        have h1b : ABFrame (markDisposed st s) (takeChildren (markDisposed st s) s) := by
          unfold takeChildren; exact abFrame_upd _ s _ (fun _ => Or.inl rfl)
        have h2 := ihC (takeChildren (markDisposed st s) s) (order ((st.scope s).children.getD []))
        generalize closeChildren beh order f (takeChildren (markDisposed st s) s) (order ((st.scope s).children.getD [])) = r1 at h2
        have h3 : ABFrame r1.1 (takeDisposables r1.1 s) := by
          unfold takeDisposables; exact abFrame_upd _ s _ (fun _ => Or.inl rfl)
        have h4 : ABFrame (takeDisposables r1.1 s)
            (closeLoop beh s (takeDisposables r1.1 s) ((r1.1.scope s).disposables.getD []).reverse).1 := by
          rw [closeLoop_eq]
          refine ⟨rfl, rfl, fun _ => Or.inl rfl, ?_⟩
          intro l e he
          have : e ∈ (takeDisposables r1.1 s).log ++
              (((r1.1.scope s).disposables.getD []).reverse).map (closedEv beh (takeDisposables r1.1 s) s) := he
          rcases List.mem_append.1 this with h | h
          · exact l e h
          · obtain ⟨i, _, rfl⟩ := List.mem_map.1 h; trivial
        generalize closeLoop beh s (takeDisposables r1.1 s) ((r1.1.scope s).disposables.getD []).reverse = r2 at h4
        have h5 : ABFrame r2.1 (detach r2.1 s) := by
          refine ⟨?_, ?_, fun x => Or.inl (detach_fields r2.1 s x).2.2, ?_⟩
          · unfold detach; split <;> rfl
          · unfold detach; split <;> rfl
          · intro l; exact logOK_of_eq l (detach_log r2.1 s).1
        have h6 : ABFrame (detach r2.1 s) (dropInstances (detach r2.1 s) s) := by
          unfold dropInstances; exact abFrame_upd _ s _ (fun _ => Or.inr rfl)
        exact (((((h1a.trans h1b).trans h2).trans h3).trans h4).trans h5).trans h6
    · intro st l
      cases l with
      | nil => unfold closeChildren; exact ABFrame.refl st
      | cons c rest =>
        unfold closeChildren
        exact (ihS st c).trans (ihC _ rest)

theorem ab_alloc {st : State} (h : AB st) (par : Option Nat) (ctx : Nat) : AB (allocScope st par ctx) := by
  refine ⟨h.sing, fun x => ?_, h.evs⟩
  show MapBelow (((allocScope st par ctx).scope x).instances.getD []) st.next
  rw [alloc_scope]; split
  · exact mapBelow_nil _
  · exact h.inst x

theorem ab_runInitializers (beh : Beh) (descs : List Desc) (s : Nat) :
    ∀ (ids : List Nat) (st : State), st.descs = descs → firstFresh descs ≤ st.next → AB st →
      AB (runInitializers beh st s ids).1 ∧ st.next ≤ (runInitializers beh st s ids).1.next := by
  intro ids
  induction ids with
  | nil => intro st _ _ h; exact ⟨h, Nat.le_refl _⟩
  | cons id rest ih =>
    intro st hd hff h
    unfold runInitializers
    split
    · exact ih st hd hff h
    next d hfd =>
      simp only []
      have hm : d ∈ descs := by rw [← hd]; exact findDesc_mem' hfd
      obtain ⟨h1, _⟩ := (ab_all beh descs (fuelFor st)).2.2.2.2.2 st s d hd hff hm h
      have hd1 : (createInstance beh (fuelFor st) st s d).1.descs = descs := by
        rw [(descs_frame beh _).2.2.2.2.2]; exact hd
      split
      · obtain ⟨a, b⟩ := ih _ hd1 (Nat.le_trans hff h1.next) h1.ab
        exact ⟨a, Nat.le_trans h1.next b⟩
      · exact ⟨h1.ab, h1.next⟩

theorem ab_newScope (beh : Beh) (descs : List Desc) (st : State) (par : Option Nat) (ctx : Nat) (ri : Bool)
    (hd : st.descs = descs) (hff : firstFresh descs ≤ st.next) (h : AB st) :
    AB (newScope beh st par ctx ri).1 ∧ st.next ≤ (newScope beh st par ctx ri).1.next := by
  unfold newScope
  simp only []
  split
  · obtain ⟨h1, n1⟩ := ab_runInitializers beh descs st.nscopes (allocScope st par ctx).initializers (allocScope st par ctx) hd hff
      (ab_alloc h par ctx)
    generalize runInitializers beh (allocScope st par ctx) st.nscopes (allocScope st par ctx).initializers = r at h1 n1
    split
    · exact ⟨h1, n1⟩
    · have f := (abFrame_close beh id (closeFuel r.1)).1 r.1 st.nscopes
      exact ⟨f.ab h1, by rw [f.next]; exact n1⟩
  · exact ⟨ab_alloc h par ctx, Nat.le_refl _⟩

theorem ab_of_fields {st st' : State} (hs : st'.singletons = st.singletons)
    (hi : ∀ x, (st'.scope x).instances = (st.scope x).instances) (hn : st'.next = st.next) (hl : st'.log = st.log) (h : AB st) :
    AB st' :=
  ⟨by rw [hs, hn]; exact h.sing, fun x => by rw [hi, hn]; exact h.inst x, logOK_of_eq h.evs hl⟩

theorem ab_stepOp (beh : Beh) (descs : List Desc) (st : State) (op : Op) (hd : st.descs = descs)
    (hff : firstFresh descs ≤ st.next) (h : AB st) : AB (stepOp beh st op) ∧ st.next ≤ (stepOp beh st op).next := by
  cases op with
  | get s ty key =>
    cases s with
    | none =>
      show AB (providerGet beh st ty key).1 ∧ st.next ≤ (providerGet beh st ty key).1.next
      unfold providerGet; split
      · exact ⟨h, Nat.le_refl _⟩
      · have := ((ab_all beh descs (fuelFor st)).1 st rootScope ty key hd hff h).1; exact ⟨this.ab, this.next⟩
    | some s => have := ((ab_all beh descs (fuelFor st)).1 st s ty key hd hff h).1; exact ⟨this.ab, this.next⟩
  | getGroup s ty grp =>
    cases s with
    | none =>
      show AB (providerGetGroup beh st ty grp).1 ∧ st.next ≤ (providerGetGroup beh st ty grp).1.next
      unfold providerGetGroup; split
      · exact ⟨h, Nat.le_refl _⟩
      · have := ((ab_all beh descs (fuelFor st)).2.2.1 st rootScope ty grp hd hff h).1; exact ⟨this.ab, this.next⟩
    | some s => have := ((ab_all beh descs (fuelFor st)).2.2.1 st s ty grp hd hff h).1; exact ⟨this.ab, this.next⟩
  | createScope p ctx =>
    cases p with
    | none =>
      show AB (providerCreateScope beh st ctx).1 ∧ st.next ≤ (providerCreateScope beh st ctx).1.next
      unfold providerCreateScope
      split
      · exact ⟨h, Nat.le_refl _⟩
      · obtain ⟨h1, n1⟩ := ab_newScope beh descs st none ctx true hd hff h
        generalize newScope beh st none ctx true = r at h1 n1
        simp only []
        split
        · exact ⟨h1, n1⟩
        · split
          · have f := (abFrame_close beh id (closeFuel r.1)).1 r.1 ‹Nat›
            exact ⟨f.ab h1, by rw [f.next]; exact n1⟩
          · exact ⟨ab_of_fields (st := r.1) rfl (fun _ => rfl) rfl rfl h1, n1⟩
    | some p =>
      show AB (scopeCreateScope beh st p ctx).1 ∧ st.next ≤ (scopeCreateScope beh st p ctx).1.next
      unfold scopeCreateScope
      split
      · exact ⟨h, Nat.le_refl _⟩
      · obtain ⟨h1, n1⟩ := ab_newScope beh descs st (some p) ctx true hd hff h
        generalize newScope beh st (some p) ctx true = r at h1 n1
        simp only []
        split
        · exact ⟨h1, n1⟩
        next s _ =>
          have h2 : AB (addChild r.1 p s) := by
            refine ab_of_fields (st := r.1) rfl (fun x => ?_) rfl rfl h1
            rw [addChild_scope]; split
            next hx => subst hx; rfl
            · rfl
          split
          · have f := (abFrame_close beh id (closeFuel r.1)).1 r.1 s
            exact ⟨f.ab h1, by rw [f.next]; exact n1⟩
          · split
            · have f := (abFrame_close beh id (closeFuel (addChild r.1 p s))).1 (addChild r.1 p s) s
              exact ⟨f.ab h2, by rw [f.next]; exact n1⟩
            · exact ⟨ab_of_fields (st := addChild r.1 p s) rfl (fun _ => rfl) rfl rfl h2, n1⟩
  | closeScope s order =>
    have f := (abFrame_close beh order (closeFuel st)).1 st s
    exact ⟨f.ab h, by show st.next ≤ (closeScope beh order (closeFuel st) st s).1.next; rw [f.next]; exact Nat.le_refl _⟩

theorem ab_run (beh : Beh) (descs : List Desc) : ∀ (ops : List Op) (st : State), st.descs = descs → WF st.descs → InitOK st →
    firstFresh descs ≤ st.next → AB st → AB (run beh st ops) := by
  intro ops
  induction ops with
  | nil => intro st _ _ _ _ h; exact h
  | cons op rest ih =>
    intro st hd wf i hff h
    have s1 := stepOp_stable beh st op wf i
    obtain ⟨h1, n1⟩ := ab_stepOp beh descs st op hd hff h
    exact ih _ (s1.descs.trans hd) (s1.wf wf) (s1.initOK i) (Nat.le_trans hff n1) h1

theorem ab_createSingletons (beh : Beh) (descs : List Desc) : ∀ (order : List Nat) (st : State),
    st.descs = descs → firstFresh descs ≤ st.next → AB st →
    AB (createSingletons beh st order).1 ∧ (createSingletons beh st order).1.descs = descs ∧
    st.next ≤ (createSingletons beh st order).1.next := by
  intro order
  induction order with
  | nil => intro st hd _ h; exact ⟨h, hd, Nat.le_refl _⟩
  | cons id rest ih =>
    intro st hd hff h
    unfold createSingletons
    split
    · exact ih st hd hff h
    next d hfd =>
      have hm : d ∈ descs := by rw [← hd]; exact findDesc_mem' hfd
      split
      · exact ih st hd hff h
      · split
        · exact ⟨h, hd, Nat.le_refl _⟩
        · split
          · exact ih st hd hff h
          · simp only []
            obtain ⟨h1, _⟩ := (ab_all beh descs (fuelFor st)).2.2.2.2.2 st rootScope d hd hff hm h
            have hd1 : (createInstance beh (fuelFor st) st rootScope d).1.descs = descs := by
              rw [(descs_frame beh _).2.2.2.2.2]; exact hd
            split
            · obtain ⟨a, b, c⟩ := ih _ hd1 (Nat.le_trans hff h1.next) h1.ab
              exact ⟨a, b, Nat.le_trans h1.next c⟩
            · exact ⟨h1.ab, hd1, h1.next⟩

/-- the state a successful Build returns: arguments are older than products, tables mention existing instances only -/
theorem ab_buildRuntime (beh : Beh) (descs : List Desc) (order : List Nat) (st : State)
    (h : buildRuntime beh descs order = (st, .ok ())) : AB st ∧ firstFresh descs ≤ st.next := by
  unfold buildRuntime at h
  simp only [newScope, Bool.false_eq_true, ↓reduceIte] at h
  have h0 : AB ({ descs := descs, next := firstFresh descs } : State) :=
    ⟨mapBelow_nil _, fun x => mapBelow_nil _, fun e he => by cases he⟩
  have h1 := ab_alloc h0 none 0
  obtain ⟨h2, hd2, n2⟩ := ab_createSingletons beh descs order _ rfl (Nat.le_refl _) h1
  generalize createSingletons beh (allocScope { descs := descs, next := firstFresh descs } none 0) order = r2 at h h2 hd2 n2
  obtain ⟨st2, res2⟩ := r2
  cases res2 with
  | error e => simp only [] at h; split at h <;> cases h
  | ok u =>
    simp only [] at h
    have h3 : AB { st2 with initializers := (descs.filter isInitializer).map (·.id) } :=
      ab_of_fields (st := st2) rfl (fun _ => rfl) rfl rfl h2
    obtain ⟨h4, n4⟩ := ab_runInitializers beh descs rootScope ((descs.filter isInitializer).map (·.id))
      { st2 with initializers := (descs.filter isInitializer).map (·.id) } hd2 n2 h3
    generalize runInitializers beh { st2 with initializers := (descs.filter isInitializer).map (·.id) } rootScope
      ((descs.filter isInitializer).map (·.id)) = r4 at h h4 n4
    obtain ⟨st4, res4⟩ := r4
    cases res4 with
    | error e => simp only [] at h; split at h <;> cases h
    | ok u =>
      simp only [Prod.mk.injEq] at h
      obtain ⟨rfl, _⟩ := h
      exact ⟨h4, Nat.le_trans n2 n4⟩

end Godi.Container
