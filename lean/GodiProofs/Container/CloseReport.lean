import GodiProofs.Container.Close
/-!
# What `Close` reports, end to end (C12)

`Close` of a scope — with every descendant it reaches, for every iteration order of the child tables, every
amount of fuel and every set of failing `Close()` methods — appends only `closed` events to the log, and
returns an error exactly when one of the events it appended records a failed `Close()`. The same for
`provider.Close`. This is the statement "returns a disposal error exactly when at least one of them
(anywhere in its subtree) failed and nil otherwise" without a bound on the depth or the width of the tree.
-/
namespace Godi.Container

/-- every event of the list is a `closed` event -/
def OnlyClosed (evs : List Event) : Prop := ∀ e ∈ evs, ∃ o i ok, e = Event.closed o i ok
/-- one of the events records a `Close()` that returned an error -/
def FailedIn (evs : List Event) : Prop := ∃ o i, Event.closed o i false ∈ evs

/-- what a close operation that started in `st` and returned `r` has reported -/
def Reported (st : State) (r : State × Bool) : Prop :=
  ∃ evs, r.1.log = st.log ++ evs ∧ OnlyClosed evs ∧ (r.2 = true ↔ FailedIn evs)

theorem reported_refl (st : State) : Reported st (st, false) :=
  ⟨[], by simp, fun e he => (by cases he), by simp [FailedIn]⟩

theorem failedIn_append (a b : List Event) : FailedIn (a ++ b) ↔ FailedIn a ∨ FailedIn b := by
  unfold FailedIn
  constructor
  · rintro ⟨o, i, h⟩
    rcases List.mem_append.1 h with h | h
    · exact Or.inl ⟨o, i, h⟩
    · exact Or.inr ⟨o, i, h⟩
  · rintro (⟨o, i, h⟩ | ⟨o, i, h⟩)
    · exact ⟨o, i, List.mem_append.2 (Or.inl h)⟩
    · exact ⟨o, i, List.mem_append.2 (Or.inr h)⟩

theorem onlyClosed_append {a b : List Event} (ha : OnlyClosed a) (hb : OnlyClosed b) : OnlyClosed (a ++ b) := by
  intro e he
  rcases List.mem_append.1 he with h | h
  · exact ha e h
  · exact hb e h

/-- two close operations in a row: the reports add up, the error flags are or-ed -/
theorem reported_seq {st : State} {r1 r2 : State × Bool} (st' : State) (hl : st'.log = r1.1.log)
    (h1 : Reported st r1) (h2 : Reported st' r2) : Reported st (r2.1, r1.2 || r2.2) := by
  obtain ⟨e1, l1, o1, f1⟩ := h1
  obtain ⟨e2, l2, o2, f2⟩ := h2
  refine ⟨e1 ++ e2, ?_, onlyClosed_append o1 o2, ?_⟩
  · simp only [l2, hl, l1, List.append_assoc]
  · simp only [Bool.or_eq_true, f1, f2, failedIn_append]

theorem closeLoop_reported (beh : Beh) (owner : Nat) (l : List Inst) (st : State) :
    Reported st (closeLoop beh owner st l) := by
  obtain ⟨h1, _, _, _, h5⟩ := closeLoop_spec beh owner l st
  refine ⟨l.map (closedEv beh st owner), h1, ?_, ?_⟩
  · intro e he
    obtain ⟨i, _, rfl⟩ := List.mem_map.1 he
    exact ⟨owner, i, _, rfl⟩
  · rw [h5]
    unfold FailedIn
    constructor
    · rintro ⟨i, hi, hb⟩
      refine ⟨owner, i, List.mem_map.2 ⟨i, hi, ?_⟩⟩
      simp [closedEv, hb]
    · rintro ⟨o, i, h⟩
      obtain ⟨j, hj, he⟩ := List.mem_map.1 h
      simp only [closedEv, Event.closed.injEq, Bool.not_eq_false'] at he
      exact ⟨j, hj, he.2.2⟩

theorem reported_of_log_eq {st st0 : State} {r : State × Bool} (h : st.log = st0.log) (hr : Reported st r) :
    Reported st0 r := by
  obtain ⟨e, l, o, f⟩ := hr
  exact ⟨e, by rw [l, h], o, f⟩

/-- `scope.Close` and the loop over a child table, for every fuel, state, scope and iteration order -/
theorem close_reported (beh : Beh) (order : List Nat → List Nat) : ∀ f : Nat,
    (∀ st s, Reported st (closeScope beh order f st s)) ∧
    (∀ st l, Reported st (closeChildren beh order f st l)) := by
  intro f
  induction f with
  | zero =>
    exact ⟨fun st s => by simpa [closeScope] using reported_refl st,
           fun st l => by simpa [closeChildren] using reported_refl st⟩
  | succ f ih =>
    obtain ⟨ihS, ihC⟩ := ih
    refine ⟨?_, ?_⟩
    · intro st s
      unfold closeScope
      by_cases h : (st.scope s).disposed = true
      · simpa [h] using reported_refl st
      · simp only [h, Bool.false_eq_true, ↓reduceIte]
        have hC := ihC (takeChildren (markDisposed st s) s) (order ((st.scope s).children.getD []))
        have hC' : Reported st (closeChildren beh order f (takeChildren (markDisposed st s) s)
            (order ((st.scope s).children.getD []))) :=
          reported_of_log_eq (by simp [takeChildren, markDisposed]) hC
        have hL := closeLoop_reported beh s
          ((((closeChildren beh order f (takeChildren (markDisposed st s) s)
            (order ((st.scope s).children.getD []))).1.scope s).disposables.getD []).reverse)
          (takeDisposables (closeChildren beh order f (takeChildren (markDisposed st s) s)
            (order ((st.scope s).children.getD []))).1 s)
        have hseq := reported_seq _ (by simp [takeDisposables]) hC' hL
        obtain ⟨e, l, o, fl⟩ := hseq
        exact ⟨e, by simpa [dropInstances, (detach_log _ s).1] using l, o, fl⟩
    · intro st l
      cases l with
      | nil => simpa [closeChildren] using reported_refl st
      | cons c rest =>
        unfold closeChildren
        exact reported_seq _ rfl (ihS st c) (ihC _ rest)

/-- `provider.Close` -/
theorem closeProvider_reported (beh : Beh) (order : List Nat → List Nat) (st : State) :
    Reported st (closeProvider beh order st) := by
  unfold closeProvider
  by_cases h : st.disposed = true
  · simpa [h] using reported_refl st
  · simp only [h, Bool.false_eq_true, ↓reduceIte]
    have h1 := (close_reported beh order
      (closeFuel { st with disposed := true, provScopes := none } + (order (st.provScopes.getD [])).length + 2)).2
      { st with disposed := true, provScopes := none } (order (st.provScopes.getD []))
    have h1' : Reported st (closeChildren beh order
        (closeFuel { st with disposed := true, provScopes := none } + (order (st.provScopes.getD [])).length + 2)
        { st with disposed := true, provScopes := none } (order (st.provScopes.getD []))) :=
      reported_of_log_eq rfl h1
    have h2 := (close_reported beh order (closeFuel (closeChildren beh order
        (closeFuel { st with disposed := true, provScopes := none } + (order (st.provScopes.getD [])).length + 2)
        { st with disposed := true, provScopes := none } (order (st.provScopes.getD []))).1)).1
      (closeChildren beh order
        (closeFuel { st with disposed := true, provScopes := none } + (order (st.provScopes.getD [])).length + 2)
        { st with disposed := true, provScopes := none } (order (st.provScopes.getD []))).1 rootScope
    have h12 := reported_seq _ rfl h1' h2
    have h3 := closeLoop_reported beh providerOwner
      (((closeScope beh order (closeFuel (closeChildren beh order
        (closeFuel { st with disposed := true, provScopes := none } + (order (st.provScopes.getD [])).length + 2)
        { st with disposed := true, provScopes := none } (order (st.provScopes.getD []))).1)
        (closeChildren beh order
        (closeFuel { st with disposed := true, provScopes := none } + (order (st.provScopes.getD [])).length + 2)
        { st with disposed := true, provScopes := none } (order (st.provScopes.getD []))).1 rootScope).1.provDisposables.getD []).reverse)
      { (closeScope beh order (closeFuel (closeChildren beh order
        (closeFuel { st with disposed := true, provScopes := none } + (order (st.provScopes.getD [])).length + 2)
        { st with disposed := true, provScopes := none } (order (st.provScopes.getD []))).1)
        (closeChildren beh order
        (closeFuel { st with disposed := true, provScopes := none } + (order (st.provScopes.getD [])).length + 2)
        { st with disposed := true, provScopes := none } (order (st.provScopes.getD []))).1 rootScope).1 with provDisposables := none }
    have h123 := reported_seq _ rfl h12 h3
    obtain ⟨e, l, o, fl⟩ := h123
    exact ⟨e, l, o, fl⟩

end Godi.Container
