import GodiProofs.Container.Verdict
/-!
# Build's verdict does not depend on the order of the registration calls

`verdict descs` (phases 1–3 of `doBuild`) is characterised by membership statements only, so every
permutation of the registration list — the order of the `Add*` calls — gets the same verdict, provided
identities are unique (which the collection guarantees) so that "the registration providing an
identity" does not depend on who comes first.
-/
namespace Godi.Container
open Godi.Graph Godi.Spec
open Godi.Kahn (Key)

/-! ### the graph phase 1 builds, by membership -/

theorem addAllDeferred_nodes : ∀ (l : List (Nat × Nat × List Nat)) (g : Graph), Base g → ∀ x,
    x ∈ (addAllDeferred g l).nodes ↔ x ∈ g.nodes ∨ ∃ e ∈ l, x = e.1 ∨ x ∈ e.2.2 := by
  intro l
  induction l with
  | nil => intro g _ x; simp [addAllDeferred]
  | cons r rest ih =>
    intro g b x
    obtain ⟨k, p, ds⟩ := r
    unfold addAllDeferred
    rw [ih _ (addProviderDeferred_base g k p ds b) x, addProviderDeferred_nodes g k p ds b x]
    simp only [List.mem_cons, exists_eq_or_imp]
    constructor
    · rintro ((h | h | h) | h)
      · exact Or.inl h
      · exact Or.inr (Or.inl (Or.inl h))
      · exact Or.inr (Or.inl (Or.inr h))
      · exact Or.inr (Or.inr h)
    · rintro (h | (h | h) | h)
      · exact Or.inl (Or.inl h)
      · exact Or.inl (Or.inr (Or.inl h))
      · exact Or.inl (Or.inr (Or.inr h))
      · exact Or.inr h

/-- with pairwise distinct keys, the adjacency list of a key is the dependency list it was added with -/
theorem addAllDeferred_edges : ∀ (l : List (Nat × Nat × List Nat)) (g : Graph), Base g →
    (l.map (·.1)).Nodup →
    (∀ e ∈ l, (addAllDeferred g l).edges e.1 = e.2.2) ∧
    (∀ x, x ∉ l.map (·.1) → (addAllDeferred g l).edges x = g.edges x) := by
  intro l
  induction l with
  | nil => intro g _ _; exact ⟨by simp, fun x _ => rfl⟩
  | cons r rest ih =>
    intro g b hnd
    obtain ⟨k, p, ds⟩ := r
    simp only [List.map_cons, List.nodup_cons] at hnd
    obtain ⟨hk, hnd'⟩ := hnd
    obtain ⟨h1, h2⟩ := ih _ (addProviderDeferred_base g k p ds b) hnd'
    unfold addAllDeferred
    refine ⟨?_, ?_⟩
    · intro e he
      rcases List.mem_cons.1 he with rfl | he
      · rw [h2 _ hk, addProviderDeferred_edges g k p ds b]; simp
      · exact h1 e he
    · intro x hx
      simp only [List.map_cons, List.mem_cons, not_or] at hx
      rw [h2 x hx.2, addProviderDeferred_edges g k p ds b, upd_ne _ _ hx.1]

theorem mem_groupKeys_aux : ∀ (l : List Desc) (acc : List (Nat × Nat)) (x : Nat × Nat),
    x ∈ l.foldl (fun acc d => if (d.ident.ty, d.ident.grp) ∈ acc then acc else acc ++ [(d.ident.ty, d.ident.grp)]) acc ↔
      x ∈ acc ∨ ∃ d ∈ l, (d.ident.ty, d.ident.grp) = x := by
  intro l
  induction l with
  | nil => intro acc x; simp
  | cons d rest ih =>
    intro acc x
    simp only [List.foldl_cons]
    rw [ih]
    by_cases hm : (d.ident.ty, d.ident.grp) ∈ acc
    · simp only [hm, ↓reduceIte, List.mem_cons, exists_eq_or_imp]
      constructor
      · rintro (h | h); exact Or.inl h; exact Or.inr (Or.inr h)
      · rintro (h | h | h)
        · exact Or.inl h
        · exact Or.inl (h ▸ hm)
        · exact Or.inr h
    · simp only [hm, ↓reduceIte]
      constructor
      · rintro (h | ⟨d', hd', he⟩)
        · rcases List.mem_append.1 h with h | h
          · exact Or.inl h
          · exact Or.inr ⟨d, List.mem_cons_self, (List.mem_singleton.1 h).symm⟩
        · exact Or.inr ⟨d', List.mem_cons_of_mem _ hd', he⟩
      · rintro (h | ⟨d', hd', he⟩)
        · exact Or.inl (List.mem_append_left _ h)
        · rcases List.mem_cons.1 hd' with rfl | hd'
          · exact Or.inl (List.mem_append_right _ (List.mem_singleton.2 he.symm))
          · exact Or.inr ⟨d', hd', he⟩

theorem mem_groupKeys (descs : List Desc) (x : Nat × Nat) :
    x ∈ groupKeys descs ↔ ∃ d ∈ descs, d.ident.grp ≠ 0 ∧ (d.ident.ty, d.ident.grp) = x := by
  unfold groupKeys
  rw [mem_groupKeys_aux]
  simp only [List.not_mem_nil, false_or, List.mem_filter, bne_iff_ne, ne_eq]
  constructor
  · rintro ⟨d, ⟨hd, hg⟩, he⟩; exact ⟨d, hd, hg, he⟩
  · rintro ⟨d, hd, hg, he⟩; exact ⟨d, ⟨hd, hg⟩, he⟩

/-- the entries phase 1 adds, described by membership in the registration list -/
theorem mem_graphInput (descs : List Desc) (e : Nat × Nat × List Nat) :
    e ∈ graphInput descs ↔
      (∃ d ∈ descs, e = (encode d.ident, d.id + 1, d.deps.map (fun dep => encode (depIdent dep)))) ∨
      (∃ g ∈ groupKeys descs, e = (encode ⟨g.1, 0, g.2⟩, 0, (groupMembers descs g.1 g.2).map (fun m => encode m.ident))) := by
  unfold graphInput
  simp only [List.mem_append, List.mem_map]
  constructor
  · rintro (⟨d, hd, rfl⟩ | ⟨g, hg, rfl⟩)
    · exact Or.inl ⟨d, hd, rfl⟩
    · exact Or.inr ⟨g, hg, rfl⟩
  · rintro (⟨d, hd, rfl⟩ | ⟨g, hg, rfl⟩)
    · exact Or.inl ⟨d, hd, rfl⟩
    · exact Or.inr ⟨g, hg, rfl⟩

theorem eq_of_nodup_keys : ∀ {l : List (Nat × Nat × List Nat)}, (l.map (·.1)).Nodup →
    ∀ {e e' : Nat × Nat × List Nat}, e ∈ l → e' ∈ l → e'.1 = e.1 → e' = e := by
  intro l
  induction l with
  | nil => intro _ e e' he; cases he
  | cons r rest ih =>
    intro hnd e e' he he' hk
    simp only [List.map_cons, List.nodup_cons] at hnd
    rcases List.mem_cons.1 he with h1 | h1
    · rcases List.mem_cons.1 he' with h2 | h2
      · rw [h1, h2]
      · have : e'.1 ∈ rest.map (·.1) := List.mem_map_of_mem h2
        rw [hk, h1] at this
        exact absurd this hnd.1
    · rcases List.mem_cons.1 he' with h2 | h2
      · have : e.1 ∈ rest.map (·.1) := List.mem_map_of_mem h1
        rw [← hk, h2] at this
        exact absurd this hnd.1
      · exact ih hnd.2 h1 h2 hk

/-- the keys phase 1 uses are pairwise distinct (unique identities, group nodes apart from services) -/
def KeysDistinct (descs : List Desc) : Prop := ((graphInput descs).map (·.1)).Nodup

/-- EDGES BY MEMBERSHIP: `b` is a dependency of `a` in the built graph iff some entry with key `a`
lists `b` -/
theorem buildGraph_edge_mem (descs : List Desc) (hk : KeysDistinct descs) (a b : Key) :
    b ∈ (buildGraph descs).edges a ↔ ∃ e ∈ graphInput descs, e.1 = a ∧ b ∈ e.2.2 := by
  obtain ⟨h1, h2⟩ := addAllDeferred_edges (graphInput descs) {} base_empty hk
  unfold buildGraph
  by_cases ha : a ∈ (graphInput descs).map (·.1)
  · obtain ⟨e, he, rfl⟩ := List.mem_map.1 ha
    rw [h1 e he]
    constructor
    · intro hb; exact ⟨e, he, rfl, hb⟩
    · rintro ⟨e', he', hkey, hb⟩
      -- distinct keys: e' = e
      have : e' = e := eq_of_nodup_keys hk he he' hkey
      rw [this] at hb; exact hb
  · rw [h2 a ha]
    constructor
    · intro hb; cases hb
    · rintro ⟨e, he, rfl, _⟩; exact absurd (List.mem_map_of_mem he) ha

theorem buildGraph_node_mem (descs : List Desc) (x : Key) :
    x ∈ (buildGraph descs).nodes ↔ ∃ e ∈ graphInput descs, x = e.1 ∨ x ∈ e.2.2 := by
  unfold buildGraph
  rw [addAllDeferred_nodes _ _ base_empty]
  simp

end Godi.Container

namespace Godi.Container
open Godi.Graph Godi.Spec
open Godi.Kahn (Key)

/-! ### the same relation for every order of the registration calls -/

/-- the dependency relation phase 1 records, as a predicate on the registration *set* -/
def EdgeRel (descs : List Desc) (a b : Key) : Prop :=
  (∃ d ∈ descs, encode d.ident = a ∧ ∃ dep ∈ d.deps, encode (depIdent dep) = b) ∨
  (∃ d ∈ descs, d.ident.grp ≠ 0 ∧ encode ⟨d.ident.ty, 0, d.ident.grp⟩ = a ∧
    ∃ m ∈ descs, m.ident.ty = d.ident.ty ∧ m.ident.grp = d.ident.grp ∧ encode m.ident = b)

theorem mem_groupMembers (descs : List Desc) (ty grp : Nat) (m : Desc) :
    m ∈ groupMembers descs ty grp ↔ m ∈ descs ∧ m.ident.ty = ty ∧ m.ident.grp = grp ∧ grp ≠ 0 := by
  unfold groupMembers
  simp only [List.mem_filter, Bool.and_eq_true, beq_iff_eq, bne_iff_ne, ne_eq, and_assoc]

theorem graphInput_edge_iff (descs : List Desc) (a b : Key) :
    (∃ e ∈ graphInput descs, e.1 = a ∧ b ∈ e.2.2) ↔ EdgeRel descs a b := by
  unfold EdgeRel
  constructor
  · rintro ⟨e, he, hka, hb⟩
    rcases (mem_graphInput descs e).1 he with ⟨d, hd, rfl⟩ | ⟨g, hg, rfl⟩
    · obtain ⟨dep, hdep, rfl⟩ := List.mem_map.1 hb
      exact Or.inl ⟨d, hd, hka, dep, hdep, rfl⟩
    · obtain ⟨d, hd, hgrp, hdg⟩ := (mem_groupKeys descs g).1 hg
      obtain ⟨m, hm, rfl⟩ := List.mem_map.1 hb
      obtain ⟨hm1, hm2, hm3, _⟩ := (mem_groupMembers descs g.1 g.2 m).1 hm
      subst hdg
      exact Or.inr ⟨d, hd, hgrp, hka, m, hm1, hm2, hm3, rfl⟩
  · rintro (⟨d, hd, hka, dep, hdep, rfl⟩ | ⟨d, hd, hgrp, hka, m, hm, hm2, hm3, rfl⟩)
    · exact ⟨_, (mem_graphInput descs _).2 (Or.inl ⟨d, hd, rfl⟩), hka, List.mem_map_of_mem hdep⟩
    · refine ⟨_, (mem_graphInput descs _).2 (Or.inr ⟨(d.ident.ty, d.ident.grp),
        (mem_groupKeys descs _).2 ⟨d, hd, hgrp, rfl⟩, rfl⟩), hka, ?_⟩
      exact List.mem_map_of_mem ((mem_groupMembers descs _ _ m).2 ⟨hm, hm2, hm3, hgrp⟩)

theorem edgeRel_perm {descs descs' : List Desc} (hp : descs'.Perm descs) (a b : Key) :
    EdgeRel descs' a b ↔ EdgeRel descs a b := by
  unfold EdgeRel
  simp only [hp.mem_iff]

def NodeRel (descs : List Desc) (x : Key) : Prop :=
  (∃ a, EdgeRel descs a x) ∨ (∃ d ∈ descs, encode d.ident = x) ∨
  (∃ d ∈ descs, d.ident.grp ≠ 0 ∧ encode ⟨d.ident.ty, 0, d.ident.grp⟩ = x)

theorem buildGraph_node_iff (descs : List Desc) (x : Key) : x ∈ (buildGraph descs).nodes ↔ NodeRel descs x := by
  rw [buildGraph_node_mem]
  unfold NodeRel
  constructor
  · rintro ⟨e, he, h | h⟩
    · rcases (mem_graphInput descs e).1 he with ⟨d, hd, rfl⟩ | ⟨g, hg, rfl⟩
      · exact Or.inr (Or.inl ⟨d, hd, h.symm⟩)
      · obtain ⟨d, hd, hgrp, hdg⟩ := (mem_groupKeys descs g).1 hg
        subst hdg
        exact Or.inr (Or.inr ⟨d, hd, hgrp, h.symm⟩)
    · exact Or.inl ⟨e.1, (graphInput_edge_iff descs e.1 x).1 ⟨e, he, rfl, h⟩⟩
  · rintro (⟨a, ha⟩ | ⟨d, hd, rfl⟩ | ⟨d, hd, hgrp, rfl⟩)
    · obtain ⟨e, he, _, hb⟩ := (graphInput_edge_iff descs a x).2 ha
      exact ⟨e, he, Or.inr hb⟩
    · exact ⟨_, (mem_graphInput descs _).2 (Or.inl ⟨d, hd, rfl⟩), Or.inl rfl⟩
    · exact ⟨_, (mem_graphInput descs _).2 (Or.inr ⟨(d.ident.ty, d.ident.grp),
        (mem_groupKeys descs _).2 ⟨d, hd, hgrp, rfl⟩, rfl⟩), Or.inl rfl⟩

theorem nodeRel_perm {descs descs' : List Desc} (hp : descs'.Perm descs) (x : Key) :
    NodeRel descs' x ↔ NodeRel descs x := by
  unfold NodeRel
  simp only [edgeRel_perm hp, hp.mem_iff]

theorem reach_congr {E E' : Key → List Key} (h : ∀ a b, b ∈ E a ↔ b ∈ E' a) {x y : Key} (r : Reach E x y) : Reach E' x y := by
  induction r with
  | single hab => exact .single ((h _ _).1 hab)
  | cons hab _ ih => exact .cons ((h _ _).1 hab) ih

/-- the built graph has a cycle iff the dependency relation of the registration set has one -/
theorem buildGraph_hasCycle_perm {descs descs' : List Desc} (hp : descs'.Perm descs)
    (hk : KeysDistinct descs) (hk' : KeysDistinct descs') :
    HasCycle (abs (buildGraph descs')) ↔ HasCycle (abs (buildGraph descs)) := by
  have he : ∀ a b, b ∈ (buildGraph descs').edges a ↔ b ∈ (buildGraph descs).edges a := by
    intro a b
    rw [buildGraph_edge_mem descs' hk', buildGraph_edge_mem descs hk, graphInput_edge_iff, graphInput_edge_iff,
      edgeRel_perm hp]
  have hn : ∀ x, x ∈ (buildGraph descs').nodes ↔ x ∈ (buildGraph descs).nodes := by
    intro x; rw [buildGraph_node_iff, buildGraph_node_iff, nodeRel_perm hp]
  unfold HasCycle abs
  constructor
  · rintro ⟨k, hkn, hr⟩; exact ⟨k, (hn k).1 hkn, reach_congr he hr⟩
  · rintro ⟨k, hkn, hr⟩; exact ⟨k, (hn k).2 hkn, reach_congr (fun a b => (he a b).symm) hr⟩

/-- one registration per (type, key) among the non-group services -/
def ServiceUnique (descs : List Desc) : Prop :=
  ∀ d ∈ descs, ∀ d' ∈ descs, d.ident.grp = 0 → d'.ident.grp = 0 → d'.ident.ty = d.ident.ty →
    d'.ident.key = d.ident.key → d' = d

theorem findService_iff (descs : List Desc) (hu : ServiceUnique descs) (ty key : Nat) (t : Desc) :
    findService descs ty key = some t ↔ t ∈ descs ∧ t.ident.ty = ty ∧ t.ident.key = key ∧ t.ident.grp = 0 := by
  unfold findService
  constructor
  · intro h
    have hm := List.mem_of_find?_eq_some h
    have hp := List.find?_some h
    simp only [Bool.and_eq_true, beq_iff_eq] at hp
    exact ⟨hm, hp.1.1, hp.1.2, hp.2⟩
  · rintro ⟨hm, h1, h2, h3⟩
    cases hf : descs.find? (fun d => d.ident.ty == ty && d.ident.key == key && d.ident.grp == 0) with
    | none =>
      have := List.find?_eq_none.1 hf t hm
      simp [h1, h2, h3] at this
    | some t' =>
      have hm' := List.mem_of_find?_eq_some hf
      have hp := List.find?_some hf
      simp only [Bool.and_eq_true, beq_iff_eq] at hp
      rw [hu t hm t' hm' h3 hp.2 (hp.1.1.trans h1.symm) (hp.1.2.trans h2.symm)]

theorem serviceUnique_perm {descs descs' : List Desc} (hp : descs'.Perm descs) (hu : ServiceUnique descs) :
    ServiceUnique descs' := by
  intro d hd d' hd'
  exact hu d (hp.mem_iff.1 hd) d' (hp.mem_iff.1 hd')

theorem findService_perm {descs descs' : List Desc} (hp : descs'.Perm descs) (hu : ServiceUnique descs)
    (ty key : Nat) : findService descs' ty key = findService descs ty key := by
  have hu' := serviceUnique_perm hp hu
  cases hf : findService descs ty key with
  | some t =>
    rw [findService_iff descs' hu']
    obtain ⟨a, b⟩ := (findService_iff descs hu ty key t).1 hf
    exact ⟨hp.mem_iff.2 a, b⟩
  | none =>
    cases hf' : findService descs' ty key with
    | none => rfl
    | some t =>
      obtain ⟨a, b⟩ := (findService_iff descs' hu' ty key t).1 hf'
      have := (findService_iff descs hu ty key t).2 ⟨hp.mem_iff.1 a, b⟩
      rw [hf] at this; cases this

theorem provides_perm {descs descs' : List Desc} (hp : descs'.Perm descs) (hu : ServiceUnique descs)
    (dep : Dep) (t : Desc) : Provides descs' dep t ↔ Provides descs dep t := by
  unfold Provides
  rw [findService_perm hp hu, mem_groupMembers, mem_groupMembers, hp.mem_iff]

/-- ORDER INDEPENDENCE: permuting the registration calls does not change Build's verdict -/
theorem verdict_perm {descs descs' : List Desc} (hp : descs'.Perm descs) (hu : ServiceUnique descs)
    (hk : KeysDistinct descs) (hk' : KeysDistinct descs') : verdict descs' = verdict descs := by
  have hc : (detectCycles (buildGraph descs')).2 = .ok ↔ (detectCycles (buildGraph descs)).2 = .ok := by
    rw [cycle_phase_exact, cycle_phase_exact, buildGraph_hasCycle_perm hp hk hk']
  have hl : lifetimeConflict descs' = lifetimeConflict descs := by
    rw [Bool.eq_iff_iff, lifetimeConflict_iff, lifetimeConflict_iff]
    simp only [hp.mem_iff, provides_perm hp hu]
  have hm : missingDependency descs' = missingDependency descs := by
    rw [Bool.eq_iff_iff, missingDependency_iff, missingDependency_iff]
    simp only [hp.mem_iff, findService_perm hp hu]
  unfold verdict
  rw [hl, hm]
  cases h1 : (detectCycles (buildGraph descs)).2 with
  | ok => rw [hc.2 h1]
  | cycle n path =>
    cases h2 : (detectCycles (buildGraph descs')).2 with
    | ok => rw [hc.1 h2] at h1; cases h1
    | cycle _ _ => rfl
    | fuel => rfl
  | fuel =>
    cases h2 : (detectCycles (buildGraph descs')).2 with
    | ok => rw [hc.1 h2] at h1; cases h1
    | cycle _ _ => rfl
    | fuel => rfl

end Godi.Container

namespace Godi.Container

theorem groupKeys_nodup_aux : ∀ (l : List Desc) (acc : List (Nat × Nat)), acc.Nodup →
    (l.foldl (fun acc d => if (d.ident.ty, d.ident.grp) ∈ acc then acc else acc ++ [(d.ident.ty, d.ident.grp)]) acc).Nodup := by
  intro l
  induction l with
  | nil => intro acc h; exact h
  | cons d rest ih =>
    intro acc h
    simp only [List.foldl_cons]
    apply ih
    split
    · exact h
    next hm =>
      exact List.nodup_append.2 ⟨h, by simp, by
        intro a ha b hb; simp at hb; subst hb; intro e; subst e; exact hm ha⟩

theorem groupKeys_nodup (descs : List Desc) : (groupKeys descs).Nodup := groupKeys_nodup_aux _ [] List.nodup_nil

theorem groupKeys_perm {descs descs' : List Desc} (hp : descs'.Perm descs) : (groupKeys descs').Perm (groupKeys descs) := by
  rw [List.perm_ext_iff_of_nodup (groupKeys_nodup _) (groupKeys_nodup _)]
  intro x
  rw [mem_groupKeys, mem_groupKeys]
  simp only [hp.mem_iff]

theorem graphInput_keys (descs : List Desc) :
    (graphInput descs).map (·.1) = descs.map (fun d => encode d.ident) ++
      (groupKeys descs).map (fun g => encode ⟨g.1, 0, g.2⟩) := by
  unfold graphInput
  simp [List.map_append, List.map_map, Function.comp_def]

/-- the distinctness of the graph keys is a property of the registration set, not of its order -/
theorem keysDistinct_perm {descs descs' : List Desc} (hp : descs'.Perm descs) (hk : KeysDistinct descs) :
    KeysDistinct descs' := by
  unfold KeysDistinct at *
  rw [graphInput_keys] at hk ⊢
  exact ((hp.map _).append ((groupKeys_perm hp).map _)).nodup_iff.2 hk

/-- ORDER INDEPENDENCE, final form -/
theorem verdict_order_independent {descs descs' : List Desc} (hp : descs'.Perm descs) (hu : ServiceUnique descs)
    (hk : KeysDistinct descs) : verdict descs' = verdict descs :=
  verdict_perm hp hu hk (keysDistinct_perm hp hk)

theorem serviceUnique_of_identUnique {descs : List Desc}
    (h : ∀ d ∈ descs, ∀ d' ∈ descs, d'.ident = d.ident → d' = d) : ServiceUnique descs := by
  intro d hd d' hd' hg hg' hty hkey
  apply h d hd d' hd'
  cases hd1 : d.ident; cases hd2 : d'.ident
  simp_all

end Godi.Container
