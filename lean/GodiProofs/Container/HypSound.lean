import GodiModel.Hyp
import GodiProofs.Container.BuildLedger
import GodiProofs.Container.BuildOrder
import GodiProofs.Container.NoCaptive
import GodiProofs.Container.TransientFresh
import GodiProofs.Container.RankOfVerdict
/-! The executable hypothesis checkers are sound: `failedHyps descs = []` gives every structural
hypothesis the container theorems assume. -/
namespace Godi.Container

theorem isInstKind_iff (k : Kind) (v : Inst) : isInstKind k v = true ↔ k = .inst v := by
  cases k <;> simp [isInstKind]

theorem sibLifeB_sound {descs : List Desc} (h : sibLifeB descs = true) : SibLife descs := by
  intro d hd sid hsid sd hf
  unfold sibLifeB at h
  have := (List.all_eq_true.1 ((List.all_eq_true.1 h) d hd)) sid hsid
  rw [hf] at this
  simpa using this

theorem uniqueIdsB_sound {descs : List Desc} (h : uniqueIdsB descs = true) : ∀ d ∈ descs, findDesc descs d.id = some d := by
  intro d hd
  unfold uniqueIdsB at h
  simpa using (List.all_eq_true.1 h) d hd

theorem wf_of_check {descs : List Desc} (h1 : sibLifeB descs = true) (h2 : uniqueIdsB descs = true) : WF descs :=
  ⟨sibLifeB_sound h1, uniqueIdsB_sound h2⟩

theorem regWF_of_check {descs : List Desc} (h1 : sameCtorB descs = true) (h2 : selfInB descs = true)
    (h3 : voidAloneB descs = true) (h4 : sibCtorB descs = true) (h5 : identUniqueB descs = true)
    (h6 : instSibsB descs = true) : RegWF descs := by
  refine ⟨?_, ?_, ?_, ?_, ?_, ?_⟩
  · intro d hd d' hd' hc
    unfold sameCtorB at h1
    have := (List.all_eq_true.1 ((List.all_eq_true.1 h1) d hd)) d' hd'
    simp only [Bool.or_eq_true, Bool.not_eq_true', beq_eq_false_iff_ne, ne_eq, beq_iff_eq, List.contains_eq_mem,
      decide_eq_true_eq] at this
    rcases this with (h | h) | h
    · exact absurd hc h
    · exact Or.inl h
    · exact Or.inr h
  · intro d hd
    unfold selfInB at h2
    have := (List.all_eq_true.1 h2) d hd
    simp only [Bool.or_eq_true, List.isEmpty_iff, List.contains_eq_mem, decide_eq_true_eq] at this
    exact this
  · intro d hd hk
    unfold voidAloneB at h3
    have := (List.all_eq_true.1 h3) d hd
    simp only [Bool.or_eq_true, Bool.not_eq_true', beq_eq_false_iff_ne, ne_eq, List.isEmpty_iff] at this
    rcases this with h | h
    · exact absurd hk h
    · exact h
  · intro d hd sid hsid sd hf
    unfold sibCtorB at h4
    have := (List.all_eq_true.1 ((List.all_eq_true.1 h4) d hd)) sid hsid
    rw [hf] at this
    simpa using this
  · intro d hd d' hd' hi
    unfold identUniqueB at h5
    have := (List.all_eq_true.1 ((List.all_eq_true.1 h5) d hd)) d' hd'
    simp only [Bool.or_eq_true, Bool.not_eq_true', beq_eq_false_iff_ne, ne_eq, beq_iff_eq] at this
    rcases this with h | h
    · exact absurd hi h
    · exact h
  · intro d hd v hk d' hd' hc
    unfold instSibsB at h6
    have := (List.all_eq_true.1 h6) d hd
    rw [hk] at this
    have := (List.all_eq_true.1 this) d' hd'
    simp only [Bool.or_eq_true, Bool.not_eq_true', beq_eq_false_iff_ne, ne_eq, isInstKind_iff] at this
    rcases this with h | h
    · exact absurd hc h
    · exact h

theorem instSingleton_of_check {descs : List Desc} (h : instSingletonB descs = true) : InstSingleton descs := by
  intro d hd v hk
  unfold instSingletonB at h
  have := (List.all_eq_true.1 h) d hd
  rw [hk] at this
  simpa using this

theorem instDistinct_of_check {descs : List Desc} (h : instDistinctB descs = true) : InstDistinct descs := by
  intro d hd d' hd' v hk hk'
  unfold instDistinctB at h
  have := (List.all_eq_true.1 h) d hd
  rw [hk] at this
  have := (List.all_eq_true.1 this) d' hd'
  simp only [Bool.or_eq_true, Bool.not_eq_true', beq_iff_eq] at this
  rcases this with h | h
  · have : isInstKind d'.kind v = true := (isInstKind_iff _ _).2 hk'
    rw [h] at this; cases this
  · exact h

/-- THE TIE OF THE HYPOTHESES: when the driver's `p hyp` answers `ok` for the descriptors dumped from
godi's collection, every structural hypothesis of the container theorems holds for them -/
theorem hyps_of_check {descs : List Desc} (h : failedHyps descs = []) :
    WF descs ∧ RegWF descs ∧ InstSingleton descs ∧ InstDistinct descs ∧ KeysDistinct descs ∧ ServiceUnique descs ∧
    LongCtor descs 0 ∧ ¬ TransCtor descs 0 ∧ SibDeps descs ∧ DepKeys descs := by
  unfold failedHyps at h
  have e : ∀ (b : Bool) (s : String), (if b then ([] : List String) else [s]) = [] → b = true := by
    intro b s hb; cases b <;> simp at hb ⊢
  simp only [List.append_eq_nil_iff] at h
  obtain ⟨⟨⟨⟨⟨⟨⟨⟨⟨⟨⟨⟨⟨a1, a2⟩, a3⟩, a4⟩, a5⟩, a6⟩, a7⟩, a8⟩, a9⟩, a10⟩, a11⟩, a12⟩, a13⟩, a14⟩ := h
  have rw' := regWF_of_check (e _ _ a3) (e _ _ a4) (e _ _ a5) (e _ _ a6) (e _ _ a7) (e _ _ a8)
  exact ⟨wf_of_check (e _ _ a1) (e _ _ a2), rw',
    instSingleton_of_check (e _ _ a9), instDistinct_of_check (e _ _ a10),
    by have := e _ _ a11; unfold keysDistinctB at this; unfold KeysDistinct; exact of_decide_eq_true this,
    serviceUnique_of_identUnique rw'.identUnique, by
      have := e _ _ a12
      unfold ctorZeroB at this
      intro d hd hc hs
      have := (List.all_eq_true.1 this) d hd
      simp [hc] at this, by
      have := e _ _ a12
      unfold ctorZeroB at this
      rintro ⟨d, hd, hc, _⟩
      have := (List.all_eq_true.1 this) d hd
      simp [hc] at this, by
      have := e _ _ a13
      unfold sibDepsB at this
      intro d hd d' hd' hc
      have := (List.all_eq_true.1 ((List.all_eq_true.1 this) d hd)) d' hd'
      simp [hc] at this
      exact this, by
      have := e _ _ a14
      unfold depKeysB at this
      intro d hd dep hdep hg
      have := (List.all_eq_true.1 ((List.all_eq_true.1 this) d hd)) dep hdep
      simp [hg] at this
      exact this⟩

end Godi.Container
