import GodiProofs.Container.ScopedHistory
/-!
# One instance per scope — registries with scope initializers

`ScopedHistory.lean` proves the scoped-once invariant over histories for states without initializer functions. Here the
hypothesis is lifted: `newScope` runs every registered initializer (a scoped registration without a result) in the fresh
scope, and closes that scope again when one fails. The only extra fact needed is that an initializer's constructor is
not run *before its turn* in the new scope — by an earlier initializer or one of its dependencies. Nothing depends on a
registration that provides no service, so the rank that witnesses acyclicity can be chosen to increase strictly along
the initializer list (`InitsRanked`); every constructor event an initializer causes has a rank at most its own.
-/
namespace Godi.Container

/-- every initializer id names scoped registrations only, and ranks increase strictly along the list -/
def InitsRanked (descs : List Desc) (rank : Nat → Nat) : List Nat → Prop
  | [] => True
  | id :: rest =>
    (∀ d, findDesc descs id = some d → d.life = .scoped ∧
      ∀ id' ∈ rest, ∀ d', findDesc descs id' = some d' → rank d.ctor < rank d'.ctor) ∧ InitsRanked descs rank rest

theorem initsRanked_scoped {descs : List Desc} {rank : Nat → Nat} : ∀ {l : List Nat}, InitsRanked descs rank l →
    ∀ id ∈ l, ∀ d, findDesc descs id = some d → d.life = .scoped := by
  intro l
  induction l with
  | nil => intro _ id h; cases h
  | cons x rest ih =>
    intro h id hid d hd
    rcases List.mem_cons.1 hid with e | e
    · subst e; exact (h.1 d hd).1
    · exact ih h.2 id e d hd

theorem sinv_runInitializers (beh : Beh) (descs : List Desc) (rank : Nat → Nat) (cfg : Cfg descs rank) (s : Nat) :
    ∀ (inits : List Nat) (st : State), SInv descs st → OpenCache st s → s < st.nscopes → InitsRanked descs rank inits →
      (∀ id ∈ inits, ∀ d, findDesc descs id = some d → countIn st.log d.ctor s = 0) →
      SInv descs (runInitializers beh st s inits).1 ∧ (runInitializers beh st s inits).1.nscopes = st.nscopes := by
  intro inits
  induction inits with
  | nil => intro st inv _ _ _ _; exact ⟨inv, rfl⟩
  | cons id rest ih =>
    intro st inv ho hs hr hz
    have hzr : ∀ id ∈ rest, ∀ d, findDesc descs id = some d → countIn st.log d.ctor s = 0 :=
      fun x hx => hz x (List.mem_cons_of_mem _ hx)
    unfold runInitializers
    rw [inv.descsEq]
    cases hf : findDesc descs id with
    | none => simp only []; exact ih st inv ho hs hr.2 hzr
    | some d =>
      simp only []
      obtain ⟨hsc, hlt⟩ := hr.1 d hf
      have hd : d ∈ descs := findDesc_mem hf
      have hl : d.life ≠ .singleton := by rw [hsc]; simp
      have res := (scopedOnce beh descs rank cfg (fuelFor st)).2.2.2.2.2 st s d (rank d.ctor + 1) inv ho hs hd hl
        (Nat.lt_succ_self _) (fun _ => hz id (List.mem_cons_self ..) d hf)
      cases hres : (createInstance beh (fuelFor st) st s d).2 with
      | error e => simp only []; exact ⟨res.inv, res.nscopes⟩
      | ok v =>
        simp only []
        obtain ⟨new, hlog, hb⟩ := res.log
        have hz' : ∀ id' ∈ rest, ∀ d', findDesc descs id' = some d' →
            countIn (createInstance beh (fuelFor st) st s d).1.log d'.ctor s = 0 := by
          intro id' hid' d' hd'
          rw [hlog, countIn_append, hzr id' hid' d' hd',
            countIn_of_bound rank s (rank d.ctor + 1) new hb d'.ctor s (Or.inl (hlt id' hid' d' hd'))]
        obtain ⟨h1, h2⟩ := ih _ res.inv res.opened (by rw [res.nscopes]; exact hs) hr.2 hz'
        exact ⟨h1, h2.trans res.nscopes⟩

/-- `newScope` with initializers keeps the invariant, whether they succeed or one fails (the scope is closed again) -/
theorem sinv_newScope (beh : Beh) (descs : List Desc) (rank : Nat → Nat) (cfg : Cfg descs rank) (st : State)
    (inv : SInv descs st) (hi : InitsRanked descs rank st.initializers) (parent : Option Nat) (ctx : Nat) :
    SInv descs (newScope beh st parent ctx true).1 ∧ (newScope beh st parent ctx true).1.initializers = st.initializers := by
  have wf : WF st.descs := by rw [inv.descsEq]; exact cfg.wf
  have inv1 := sinv_allocScope inv parent ctx
  have ho : OpenCache (allocScope st parent ctx) st.nscopes := by
    unfold OpenCache allocScope; simp
  have hs : st.nscopes < (allocScope st parent ctx).nscopes := Nat.lt_succ_self _
  have hz : ∀ id ∈ st.initializers, ∀ d, findDesc descs id = some d →
      countIn (allocScope st parent ctx).log d.ctor st.nscopes = 0 :=
    fun _ _ d _ => inv.fresh st.nscopes (Nat.le_refl _) d.ctor
  obtain ⟨h1, _⟩ := sinv_runInitializers beh descs rank cfg st.nscopes st.initializers (allocScope st parent ctx) inv1 ho hs hi hz
  have hst : Stable (allocScope st parent ctx) (runInitializers beh (allocScope st parent ctx) st.nscopes st.initializers).1 :=
    runInitializers_stable beh st.nscopes st.initializers (allocScope st parent ctx) wf
      (fun id hid d hd => initsRanked_scoped hi id hid d (by rw [← inv.descsEq]; exact hd))
  unfold newScope
  simp only [↓reduceIte]
  have e0 : (allocScope st parent ctx).initializers = st.initializers := rfl
  rw [e0]
  split
  · exact ⟨h1, hst.initializers⟩
  · refine ⟨h1.close ((closeFrame_close beh id _).1 _ _), ?_⟩
    rw [((closeScope_stable beh id _).1 _ _).initializers]; exact hst.initializers

theorem sinv_providerCreateScope_init (beh : Beh) (descs : List Desc) (rank : Nat → Nat) (cfg : Cfg descs rank) (st : State)
    (inv : SInv descs st) (hi : InitsRanked descs rank st.initializers) (ctx : Nat) :
    SInv descs (providerCreateScope beh st ctx).1 ∧ (providerCreateScope beh st ctx).1.initializers = st.initializers := by
  unfold providerCreateScope
  split
  · exact ⟨inv, rfl⟩
  · obtain ⟨h1, h2⟩ := sinv_newScope beh descs rank cfg st inv hi none ctx
    simp only []
    cases hr : (newScope beh st none ctx true).2 with
    | error e => simp only []; exact ⟨h1, h2⟩
    | ok s =>
      simp only []
      split
      · refine ⟨h1.close ((closeFrame_close beh id _).1 _ _), ?_⟩
        rw [((closeScope_stable beh id _).1 _ _).initializers]; exact h2
      · exact ⟨sinv_tables h1 rfl rfl rfl (fun _ => ⟨rfl, rfl⟩), h2⟩

theorem sinv_scopeCreateScope_init (beh : Beh) (descs : List Desc) (rank : Nat → Nat) (cfg : Cfg descs rank) (st : State)
    (inv : SInv descs st) (hi : InitsRanked descs rank st.initializers) (p ctx : Nat) :
    SInv descs (scopeCreateScope beh st p ctx).1 ∧ (scopeCreateScope beh st p ctx).1.initializers = st.initializers := by
  unfold scopeCreateScope
  split
  · exact ⟨inv, rfl⟩
  · obtain ⟨h1, h2⟩ := sinv_newScope beh descs rank cfg st inv hi (some p) ctx
    simp only []
    cases hr : (newScope beh st (some p) ctx true).2 with
    | error e => simp only []; exact ⟨h1, h2⟩
    | ok s =>
      simp only []
      split
      · refine ⟨h1.close ((closeFrame_close beh id _).1 _ _), ?_⟩
        rw [((closeScope_stable beh id _).1 _ _).initializers]; exact h2
      · have h5 : SInv descs (addChild (newScope beh st (some p) ctx true).1 p s) := by
          refine sinv_tables h1 rfl rfl rfl ?_
          intro x
          by_cases hx : x = p
          · subst hx; simp [addChild, updScope]
          · simp [addChild, updScope, hx]
        have hi5 : (addChild (newScope beh st (some p) ctx true).1 p s).initializers = st.initializers := h2
        split
        · refine ⟨h5.close ((closeFrame_close beh id _).1 _ _), ?_⟩
          rw [((closeScope_stable beh id _).1 _ _).initializers]; exact hi5
        · exact ⟨sinv_tables h5 rfl rfl rfl (fun _ => ⟨rfl, rfl⟩), hi5⟩

theorem sinv_stepOp_init (beh : Beh) (descs : List Desc) (rank : Nat → Nat) (cfg : Cfg descs rank)
    (st : State) (inv : SInv descs st) (hi : InitsRanked descs rank st.initializers) (op : Op) (hv : validOp st op) :
    SInv descs (stepOp beh st op) ∧ (stepOp beh st op).initializers = st.initializers := by
  have wf : WF st.descs := by rw [inv.descsEq]; exact cfg.wf
  cases op with
  | get s ty key =>
    cases s with
    | none =>
      refine ⟨?_, (providerGet_stable beh st ty key wf).initializers⟩
      show SInv descs (providerGet beh st ty key).1
      unfold providerGet; split
      · exact inv
      · exact sinv_scopeGet beh descs rank cfg st inv rootScope ty key hv
    | some s =>
      exact ⟨sinv_scopeGet beh descs rank cfg st inv s ty key hv, (scopeGet_stable beh st s ty key wf).initializers⟩
  | getGroup s ty grp =>
    cases s with
    | none =>
      refine ⟨?_, (providerGetGroup_stable beh st ty grp wf).initializers⟩
      show SInv descs (providerGetGroup beh st ty grp).1
      unfold providerGetGroup; split
      · exact inv
      · exact sinv_scopeGetGroup beh descs rank cfg st inv rootScope ty grp hv
    | some s =>
      exact ⟨sinv_scopeGetGroup beh descs rank cfg st inv s ty grp hv, (scopeGetGroup_stable beh st s ty grp wf).initializers⟩
  | createScope p ctx =>
    cases p with
    | none => exact sinv_providerCreateScope_init beh descs rank cfg st inv hi ctx
    | some p => exact sinv_scopeCreateScope_init beh descs rank cfg st inv hi p ctx
  | closeScope s order =>
    exact ⟨inv.close ((closeFrame_close beh order _).1 st s), (closeScope_stable' beh order _ st s).initializers⟩

theorem sinv_run_init (beh : Beh) (descs : List Desc) (rank : Nat → Nat) (cfg : Cfg descs rank) :
    ∀ (ops : List Op) (st : State), SInv descs st → InitsRanked descs rank st.initializers → ValidHist beh st ops →
      SInv descs (run beh st ops) := by
  intro ops
  induction ops with
  | nil => intro st inv _ _; exact inv
  | cons op rest ih =>
    intro st inv hi hv
    obtain ⟨h1, h2⟩ := sinv_stepOp_init beh descs rank cfg st inv hi op hv.1
    exact ih _ h1 (by rw [h2]; exact hi) hv.2

end Godi.Container
