import GodiProofs.Container.TreeBuild
import GodiProofs.Container.NoNotFound
import GodiProofs.Container.HypSound
/-!
# Build succeeds on every valid registration set whose constructors succeed

The converse half of C08. `GoodBeh`: every constructor invocation succeeds and no result-object field is left
nil. Under it, for a registry that passed validation (no cycle, no missing required dependency) with the
structural guarantees of the collection:

* `Keep`: resolution and construction never cache a "constructed without value" marker and never lose an entry
  of the singleton table;
* `okOrFuel`: a resolution / construction in an open scope, all of whose singleton dependencies (reached through
  non-singleton registrations) are stored, either succeeds or runs out of fuel — and it does not run out of fuel
  (`Terminates.lean`), so it succeeds;
* the singleton-creation loop of Build, walking a creation order in which every singleton comes after the
  singletons it reaches, and the initializers of the root scope therefore succeed: `build … = ok`.
-/
namespace Godi.Container

structure GoodBeh (beh : Beh) : Prop where
  ctor : ∀ c n, beh.ctor c n = .ok
  nilField : ∀ c n, beh.nilField c n = none

def NoAbs (m : List (Ident × Val)) : Prop := ∀ k, lookup m k ≠ some .absent

structure NoAbsent (st : State) : Prop where
  sing : NoAbs st.singletons
  inst : ∀ x, NoAbs ((st.scope x).instances.getD [])

theorem noAbs_put {m : List (Ident × Val)} (h : NoAbs m) (k : Ident) (v : Val) (hv : v ≠ .absent) : NoAbs (cachePut m k v) := by
  intro k'
  by_cases hk : k' = k
  · subst hk; rw [lookup_put_self]; intro e; exact hv (Option.some.inj e)
  · rw [lookup_put_ne m k k' v hk]; exact h k'

/-- what resolution keeps: no absent marker anywhere, the singleton table only grows -/
structure Keep (st st' : State) : Prop where
  noAbs : NoAbsent st → NoAbsent st'
  grows : Grows st.singletons st'.singletons

theorem Keep.refl (st : State) : Keep st st := ⟨fun h => h, Grows.refl _⟩
theorem Keep.trans {a b c : State} (h1 : Keep a b) (h2 : Keep b c) : Keep a c :=
  ⟨fun h => h2.noAbs (h1.noAbs h), h1.grows.trans h2.grows⟩

theorem keep_of_eq {st st' : State} (hs : st'.singletons = st.singletons) (hsc : st'.scope = st.scope) : Keep st st' :=
  ⟨fun h => ⟨by rw [hs]; exact h.sing, fun x => by rw [hsc]; exact h.inst x⟩, by rw [hs]; exact Grows.refl _⟩

theorem keep_upd_other (st : State) (s : Nat) (g : ScopeSt → ScopeSt) (hi : ∀ sc, (g sc).instances = sc.instances) :
    Keep st (updScope st s g) := by
  refine ⟨fun h => ⟨h.sing, fun x => ?_⟩, Grows.refl _⟩
  rw [scope_upd]; split
  next hx => subst hx; rw [hi]; exact h.inst x
  · exact h.inst x

theorem keep_putInstance (st : State) (s : Nat) (k : Ident) (v : Val) (hv : v ≠ .absent) : Keep st (putInstance st s k v) := by
  refine ⟨fun h => ⟨h.sing, fun x => ?_⟩, Grows.refl _⟩
  unfold putInstance
  rw [scope_upd]; split
  next hx =>
    subst hx
    cases hm : (st.scope x).instances with
    | none => simp; intro k'; simp [lookup]
    | some m =>
      have := h.inst x
      rw [hm] at this
      simp only [Option.map_some, Option.getD_some]
      exact noAbs_put this k v hv
  · exact h.inst x

theorem keep_storeSingleton (st : State) (k : Ident) (v : Val) (hv : v ≠ .absent) : Keep st (storeSingleton st k v) :=
  ⟨fun h => ⟨noAbs_put h.sing k v hv, h.inst⟩, grows_put _ _ _⟩

theorem keep_track (st : State) (s : Nat) (v : Val) (disp : Bool) : Keep st (track st s v disp).1 := by
  unfold track
  split
  · split
    · split
      · exact keep_of_eq rfl rfl
      · exact Keep.refl st
    · split
      · simp only []; exact keep_upd_other st s _ (fun _ => rfl)
      · exact Keep.refl st
  · split <;> exact Keep.refl st

theorem keep_setInstance (st : State) (s : Nat) (d : Desc) (k : Ident) (v : Val) (hv : v ≠ .absent) :
    Keep st (setInstance st s d k v).1 := by
  unfold setInstance
  split
  · have h1 := keep_storeSingleton st k v hv
    split
    · split
      · exact h1.trans (keep_of_eq rfl rfl)
      · exact h1
    · exact h1
  · exact (keep_putInstance st s k v hv).trans (keep_track _ s v d.disp)
  · exact keep_track st s v d.disp

theorem keep_shareInstance (st : State) (s : Nat) (d : Desc) (k : Ident) (v : Val) (hv : v ≠ .absent) :
    Keep st (shareInstance st s d k v) := by
  unfold shareInstance
  split
  · exact keep_storeSingleton st k v hv
  · exact keep_putInstance st s k v hv
  · exact Keep.refl st

theorem keep_storeOuts (s : Nat) : ∀ (sibs : List Desc) (outs : List Inst) (st : State), Keep st (storeOuts st s sibs outs).1 := by
  intro sibs
  induction sibs with
  | nil => intro outs st; simp [storeOuts]; exact Keep.refl st
  | cons d ds ih =>
    intro outs st
    cases outs with
    | nil => simp [storeOuts]; exact Keep.refl st
    | cons o os =>
      unfold storeOuts
      simp only []
      exact (keep_setInstance st s d d.ident (.inst o) (by intro h; cases h)).trans (ih os _)

theorem keep_shareAll (s self : Nat) (v : Val) (hv : v ≠ .absent) : ∀ (sibs : List Desc) (st : State),
    Keep st (shareAll st s self sibs v) := by
  intro sibs
  induction sibs with
  | nil => intro st; exact Keep.refl st
  | cons d ds ih =>
    intro st
    unfold shareAll
    simp only [List.foldl_cons]
    have h2 := ih (if d.id = self then st else shareInstance st s d d.ident v)
    unfold shareAll at h2
    refine Keep.trans ?_ h2
    split
    · exact Keep.refl st
    · exact keep_shareInstance st s d d.ident v hv

theorem keep_all (beh : Beh) (gb : GoodBeh beh) : ∀ fuel,
    (∀ st s ty key, Keep st (resolve beh fuel st s ty key).1) ∧
    (∀ st s d, Keep st (resolveDesc beh fuel st s d).1) ∧
    (∀ st s ty grp, Keep st (getGroup beh fuel st s ty grp).1) ∧
    (∀ st s ds acc, Keep st (resolveMembers beh fuel st s ds acc).1) ∧
    (∀ st s deps acc, Keep st (buildArgs beh fuel st s deps acc).1) ∧
    (∀ st s d, Keep st (createInstance beh fuel st s d).1) := by
  intro fuel
  induction fuel with
  | zero =>
    refine ⟨?_, ?_, ?_, ?_, ?_, ?_⟩ <;> intros <;>
      simp [resolve, resolveDesc, getGroup, resolveMembers, buildArgs, createInstance] <;> exact Keep.refl _
  | succ f ih =>
    obtain ⟨ihR, ihD, ihG, ihM, ihA, ihC⟩ := ih
    refine ⟨?_, ?_, ?_, ?_, ?_, ?_⟩
    · intro st s ty key
      unfold resolve
      split; · exact Keep.refl _
      split; · exact Keep.refl _
      split; · exact Keep.refl _
      split; · exact Keep.refl _
      split
      · exact Keep.refl _
      · exact ihD st s _
    · intro st s d
      unfold resolveDesc
      split
      · split <;> exact Keep.refl _
      · split
        · exact Keep.refl _
        · exact Keep.refl _
        · exact ihC st s d
      · exact ihC st s d
    · intro st s ty grp
      unfold getGroup
      split; · exact Keep.refl _
      exact ihM st s _ []
    · intro st s ds acc
      cases ds with
      | nil => unfold resolveMembers; exact Keep.refl _
      | cons d rest =>
        rw [resolveMembers_cons]
        unfold membersStep
        split
        · exact (ihD st s d).trans (ihM _ s rest _)
        · exact (ihD st s d).trans (ihM _ s rest _)
        · exact ihD st s d
    · intro st s deps acc
      cases deps with
      | nil => unfold buildArgs; exact Keep.refl _
      | cons dep rest =>
        rw [buildArgs_cons]
        have h1 : Keep st (if dep.grp != 0 then getGroup beh f st s dep.ty dep.grp
            else resolve beh f st s dep.ty dep.key).1 := by
          split
          · exact ihG st s _ _
          · exact ihR st s _ _
        generalize (if dep.grp != 0 then getGroup beh f st s dep.ty dep.grp
            else resolve beh f st s dep.ty dep.key) = r at h1
        unfold argsStep
        split
        · exact h1.trans (ihA r.1 s rest _)
        · split
          · exact h1.trans (ihA r.1 s rest _)
          · exact h1
    · intro st s d
      unfold createInstance
      split
      · simp only []
        split
        · exact keep_setInstance _ _ _ _ (.inst _) (by intro h; cases h)
        · exact (keep_setInstance _ _ _ _ (.inst _) (by intro h; cases h)).trans
            (keep_shareAll _ _ (.inst _) (by intro h; cases h) _ _)
      · simp only []
        have hA := ihA st s d.deps []
        generalize buildArgs beh f st s d.deps [] = ra at hA
        split
        · exact hA
        · have hB : Keep st (bumpInv ra.1 d.ctor) := hA.trans (keep_of_eq rfl rfl)
          split
          · exact hB.trans (keep_of_eq rfl rfl)
          · exact hB.trans (keep_of_eq rfl rfl)
          · exact hB.trans (keep_of_eq rfl rfl)
          · split
            · refine Keep.trans ?_ (keep_setInstance _ _ _ _ .unit (by intro h; cases h))
              exact hB.trans (keep_of_eq rfl rfl)
            · simp only []
              rw [gb.nilField]
              simp only [markAbsent_none]
              refine Keep.trans ?_ (keep_storeOuts _ _ _ _)
              exact hB.trans (keep_of_eq rfl rfl)
            · split
              · refine Keep.trans ?_ (keep_setInstance _ _ _ _ (.inst _) (by intro h; cases h))
                exact hB.trans (keep_of_eq rfl rfl)
              · refine Keep.trans (Keep.trans ?_ (keep_setInstance _ _ _ _ (.inst _) (by intro h; cases h)))
                  (keep_shareAll _ _ (.inst _) (by intro h; cases h) _ _)
                exact hB.trans (keep_of_eq rfl rfl)

/-! ### storing succeeds in an open scope -/

theorem track_ok_of_open (st : State) (s : Nat) (v : Val) (disp : Bool) (h : (st.scope s).disposed = false) :
    (track st s v disp).2 = .ok () := by
  unfold track
  split
  · simp only [h, Bool.false_eq_true, ↓reduceIte]
    split <;> rfl
  · simp [h]

theorem setInstance_ok_of_open (st : State) (s : Nat) (d : Desc) (k : Ident) (v : Val) (h : (st.scope s).disposed = false) :
    (setInstance st s d k v).2 = .ok () := by
  unfold setInstance
  split
  · split
    · split <;> rfl
    · rfl
  · exact track_ok_of_open _ s v d.disp (by rw [(tframe_putInstance st s k v).disp]; exact h)
  · exact track_ok_of_open st s v d.disp h

theorem storeOuts_ok_of_open (s : Nat) : ∀ (sibs : List Desc) (outs : List Inst) (st : State),
    (st.scope s).disposed = false → (storeOuts st s sibs outs).2 = .ok () := by
  intro sibs
  induction sibs with
  | nil => intro outs st _; simp [storeOuts]
  | cons d ds ih =>
    intro outs st h
    cases outs with
    | nil => simp [storeOuts]
    | cons o os =>
      unfold storeOuts
      simp only []
      have h1 := setInstance_ok_of_open st s d d.ident (.inst o) h
      have h2 := ih os (setInstance st s d d.ident (.inst o)).1
        (by rw [(tframe_setInstance st s d d.ident (.inst o)).disp]; exact h)
      rw [h1, h2]

/-! ### the success lemma -/

/-- succeeded, or ran out of fuel -/
def okf {α} : Except Err α → Bool
  | .ok _ => true
  | .error e => e.contains Layer.fuel

theorem okf_cons {α β} (l : Layer) (e : Err) (h : okf (.error e : Except Err β) = true) :
    okf (.error (l :: e) : Except Err α) = true := by
  unfold okf at *
  simp only [List.contains_cons, Bool.or_eq_true]
  exact Or.inr h

def StoredS (st : State) (t : Desc) : Prop := (lookup st.singletons t.ident).isSome

/-- `t` is reached from `d` along declared dependencies that pass through non-singleton registrations only -/
inductive ReachLong (descs : List Desc) : Desc → Desc → Prop
  | direct {d t : Desc} {dep : Dep} : dep ∈ d.deps → Provides descs dep t → ReachLong descs d t
  | via {d m t : Desc} {dep : Dep} : dep ∈ d.deps → Provides descs dep m → m.life ≠ .singleton → ReachLong descs m t →
      ReachLong descs d t

def SingReady (descs : List Desc) (st : State) (d : Desc) : Prop :=
  ∀ t, ReachLong descs d t → t.life = .singleton → StoredS st t

def ReadyDesc (descs : List Desc) (st : State) (t : Desc) : Prop :=
  (t.life = .singleton → StoredS st t) ∧ (t.life ≠ .singleton → SingReady descs st t)

theorem StoredS.keep {st st' : State} {t : Desc} (k : Keep st st') (h : StoredS st t) : StoredS st' t := k.grows _ h

theorem SingReady.keep {descs : List Desc} {st st' : State} {d : Desc} (k : Keep st st') (h : SingReady descs st d) :
    SingReady descs st' d := fun t ht hl => (h t ht hl).keep k

theorem ReadyDesc.keep {descs : List Desc} {st st' : State} {d : Desc} (k : Keep st st') (h : ReadyDesc descs st d) :
    ReadyDesc descs st' d := ⟨fun hl => (h.1 hl).keep k, fun hl => (h.2 hl).keep k⟩

theorem readyDesc_of_singReady {descs : List Desc} {st : State} {d t : Desc} {dep : Dep} (h : SingReady descs st d)
    (hdep : dep ∈ d.deps) (hp : Provides descs dep t) : ReadyDesc descs st t :=
  ⟨fun hl => h t (.direct hdep hp) hl, fun hl u hu hul => h u (.via hdep hp hl hu) hul⟩

structure Cond (descs : List Desc) (st : State) (s : Nat) : Prop where
  descsEq : st.descs = descs
  isOpen : (st.scope s).disposed = false
  noAbs : NoAbsent st

theorem Cond.next {descs : List Desc} {st st' : State} {s : Nat} (c : Cond descs st s) (hd : st'.descs = st.descs)
    (tf : TFrame st st') (k : Keep st st') : Cond descs st' s :=
  ⟨hd.trans c.descsEq, by rw [tf.disp]; exact c.isOpen, k.noAbs c.noAbs⟩

theorem self_in_sibs (descs : List Desc) (wf : WF descs) (rw' : RegWF descs) (d : Desc) (hd : d ∈ descs) :
    ((if (d.sibs.filterMap (findDesc descs)).isEmpty then [d] else d.sibs.filterMap (findDesc descs)).map (·.id)).contains d.id = true := by
  rcases rw'.selfIn d hd with h | h
  · simp [h]
  · have hm : d ∈ d.sibs.filterMap (findDesc descs) := List.mem_filterMap.2 ⟨d.id, h, wf.uniqueIds d hd⟩
    have hne : (d.sibs.filterMap (findDesc descs)).isEmpty = false := by
      cases hl : d.sibs.filterMap (findDesc descs) with
      | nil => rw [hl] at hm; cases hm
      | cons _ _ => rfl
    simp only [hne, Bool.false_eq_true, ↓reduceIte, List.contains_eq_mem, decide_eq_true_eq]
    exact List.mem_map_of_mem hm

theorem total (beh : Beh) (gb : GoodBeh beh) (descs : List Desc) (wf : WF descs) (rw' : RegWF descs) (hp : Present descs) :
    ∀ fuel,
    (∀ st s ty key, Cond descs st s → (∀ t, findService descs ty key = some t → ReadyDesc descs st t) →
      (((findService descs ty key).isSome ∨ (key = 0 ∧ ty < 3)) → okf (resolve beh fuel st s ty key).2 = true) ∧
      (okf (resolve beh fuel st s ty key).2 = true ∨
        ∃ e, (resolve beh fuel st s ty key).2 = .error e ∧ isConstruction e = false)) ∧
    (∀ st s t, Cond descs st s → t ∈ descs → ReadyDesc descs st t → okf (resolveDesc beh fuel st s t).2 = true) ∧
    (∀ st s ty grp, Cond descs st s → (∀ m ∈ groupMembers descs ty grp, ReadyDesc descs st m) →
      okf (getGroup beh fuel st s ty grp).2 = true) ∧
    (∀ st s ms acc, Cond descs st s → (∀ m ∈ ms, m ∈ descs ∧ ReadyDesc descs st m) →
      okf (resolveMembers beh fuel st s ms acc).2 = true) ∧
    (∀ st s deps acc, Cond descs st s →
      (∀ dep ∈ deps, DepPresent descs dep ∧ ∀ t, Provides descs dep t → ReadyDesc descs st t) →
      okf (buildArgs beh fuel st s deps acc).2 = true) ∧
    (∀ st s d, Cond descs st s → d ∈ descs → SingReady descs st d → okf (createInstance beh fuel st s d).2 = true) := by
  intro fuel
  induction fuel with
  | zero =>
    refine ⟨?_, ?_, ?_, ?_, ?_, ?_⟩ <;> intros <;>
      simp [resolve, resolveDesc, getGroup, resolveMembers, buildArgs, createInstance, okf]
  | succ f ih =>
    obtain ⟨ihR, ihD, ihG, ihM, ihA, ihC⟩ := ih
    refine ⟨?_, ?_, ?_, ?_, ?_, ?_⟩
    · -- resolve
      intro st s ty key c hready
      unfold resolve
      split
      next h => rw [c.isOpen] at h; cases h
      split
      · exact ⟨fun _ => rfl, Or.inl rfl⟩
      split
      · exact ⟨fun _ => rfl, Or.inl rfl⟩
      split
      · exact ⟨fun _ => rfl, Or.inl rfl⟩
      next h0 h1 h2 =>
        split
        next hf =>
          rw [c.descsEq] at hf
          refine ⟨?_, Or.inr ⟨_, rfl, nf_not_construction⟩⟩
          rintro (hs | ⟨hk, ht⟩)
          · rw [hf] at hs; cases hs
          · have : ty = 0 ∨ ty = 1 ∨ ty = 2 := by omega
            rcases this with h | h | h
            · exact absurd ⟨hk, h⟩ h0
            · exact absurd ⟨hk, h⟩ h1
            · exact absurd ⟨hk, h⟩ h2
        next d hd =>
          rw [c.descsEq] at hd
          have := ihD st s d c (findService_mem hd) (hready d hd)
          exact ⟨fun _ => this, Or.inl this⟩
    · -- resolveDesc
      intro st s t c ht hready
      unfold resolveDesc
      split
      next hl =>
        split
        next h => exact absurd h (c.noAbs.sing t.ident)
        · rfl
        next h =>
          have := hready.1 hl
          unfold StoredS at this
          rw [h] at this; cases this
      next hl =>
        split
        next h => exact absurd h (c.noAbs.inst s t.ident)
        · rfl
        · exact ihC st s t c ht (hready.2 (by rw [hl]; simp))
      next hl => exact ihC st s t c ht (hready.2 (by rw [hl]; simp))
    · -- getGroup
      intro st s ty grp c hready
      unfold getGroup
      split
      next h => rw [c.isOpen] at h; cases h
      · rw [c.descsEq]
        exact ihM st s _ [] c (fun m hm => ⟨groupMembers_mem hm, hready m hm⟩)
    · -- resolveMembers
      intro st s ms acc c hms
      cases ms with
      | nil => unfold resolveMembers; rfl
      | cons d rest =>
        rw [resolveMembers_cons]
        have h1 := ihD st s d c (hms d (List.mem_cons_self ..)).1 (hms d (List.mem_cons_self ..)).2
        have c1 : Cond descs (resolveDesc beh f st s d).1 s :=
          c.next ((descs_frame beh f).2.1 st s d) ((tframe_all beh f).2.1 st s d) ((keep_all beh gb f).2.1 st s d)
        have hrest : ∀ m ∈ rest, m ∈ descs ∧ ReadyDesc descs (resolveDesc beh f st s d).1 m := fun m hm =>
          ⟨(hms m (List.mem_cons_of_mem _ hm)).1, (hms m (List.mem_cons_of_mem _ hm)).2.keep ((keep_all beh gb f).2.1 st s d)⟩
        unfold membersStep
        split
        · exact ihM _ s rest _ c1 hrest
        · exact ihM _ s rest _ c1 hrest
        next e he => rw [he] at h1; exact okf_cons _ _ h1
    · -- buildArgs
      intro st s deps acc c hdeps
      cases deps with
      | nil => unfold buildArgs; rfl
      | cons dep rest =>
        rw [buildArgs_cons]
        obtain ⟨hpres, hprov⟩ := hdeps dep (List.mem_cons_self ..)
        have hfact : (okf (if dep.grp != 0 then getGroup beh f st s dep.ty dep.grp else resolve beh f st s dep.ty dep.key).2 = true ∨
            (dep.optional = true ∧ ∃ e, (if dep.grp != 0 then getGroup beh f st s dep.ty dep.grp
              else resolve beh f st s dep.ty dep.key).2 = .error e ∧ isConstruction e = false)) ∧
            Cond descs (if dep.grp != 0 then getGroup beh f st s dep.ty dep.grp else resolve beh f st s dep.ty dep.key).1 s ∧
            Keep st (if dep.grp != 0 then getGroup beh f st s dep.ty dep.grp else resolve beh f st s dep.ty dep.key).1 := by
          by_cases hg : dep.grp = 0
          · have hb : (dep.grp != 0) = false := by simp [hg]
            simp only [hb, Bool.false_eq_true, ↓reduceIte]
            have hR := ihR st s dep.ty dep.key c (fun t ht => hprov t (Or.inr ⟨hg, ht⟩))
            refine ⟨?_, c.next ((descs_frame beh f).1 st s _ _) ((tframe_all beh f).1 st s _ _) ((keep_all beh gb f).1 st s _ _),
              (keep_all beh gb f).1 st s _ _⟩
            rcases hpres with ho | hgn | hbi | hfs
            · rcases hR.2 with h | h
              · exact Or.inl h
              · exact Or.inr ⟨ho, h⟩
            · exact absurd hg hgn
            · unfold isBuiltin at hbi
              simp only [Bool.and_eq_true, beq_iff_eq, decide_eq_true_eq] at hbi
              exact Or.inl (hR.1 (Or.inr ⟨hbi.1.1, hbi.2⟩))
            · exact Or.inl (hR.1 (Or.inl hfs))
          · have hb : (dep.grp != 0) = true := by simp [hg]
            simp only [hb, ↓reduceIte]
            exact ⟨Or.inl (ihG st s dep.ty dep.grp c (fun m hm => hprov m (Or.inl ⟨hg, hm⟩))),
              c.next ((descs_frame beh f).2.2.1 st s _ _) ((tframe_all beh f).2.2.1 st s _ _) ((keep_all beh gb f).2.2.1 st s _ _),
              (keep_all beh gb f).2.2.1 st s _ _⟩
        generalize (if dep.grp != 0 then getGroup beh f st s dep.ty dep.grp else resolve beh f st s dep.ty dep.key) = r at hfact
        obtain ⟨hf, c1, k1⟩ := hfact
        have hrest : ∀ x ∈ rest, DepPresent descs x ∧ ∀ t, Provides descs x t → ReadyDesc descs r.1 t := fun x hx =>
          ⟨(hdeps x (List.mem_cons_of_mem _ hx)).1, fun t ht => ((hdeps x (List.mem_cons_of_mem _ hx)).2 t ht).keep k1⟩
        unfold argsStep
        split
        · exact ihA r.1 s rest _ c1 hrest
        next e he =>
          split
          · exact ihA r.1 s rest _ c1 hrest
          next hns =>
            rcases hf with h | ⟨ho, e', he', hc⟩
            · rw [he] at h; exact h
            · rw [he] at he'; cases he'
              simp [ho, hc] at hns
    · -- createInstance
      intro st s d c hd hready
      unfold createInstance
      split
      · simp only []
        rw [setInstance_ok_of_open st s d d.ident _ c.isOpen]
        rfl
      · simp only []
        have hA := ihA st s d.deps [] c (fun dep hdep => ⟨hp d hd dep hdep, fun t ht => readyDesc_of_singReady hready hdep ht⟩)
        have cA : Cond descs (buildArgs beh f st s d.deps []).1 s :=
          c.next ((descs_frame beh f).2.2.2.2.1 st s _ _) ((tframe_all beh f).2.2.2.2.1 st s _ _) ((keep_all beh gb f).2.2.2.2.1 st s _ _)
        generalize buildArgs beh f st s d.deps [] = ra at hA cA
        split
        next e he => rw [he] at hA; exact okf_cons _ _ hA
        · rw [gb.ctor]
          simp only []
          split
          · rw [setInstance_ok_of_open]
            · rfl
            · exact cA.isOpen
          · simp only []
            rw [gb.nilField]
            simp only []
            rw [storeOuts_ok_of_open]
            · have hdq : (bumpInv ra.1 d.ctor).descs = descs := cA.descsEq
              rw [hdq, self_in_sibs descs wf rw' d hd]
              rfl
            · exact cA.isOpen
          · rw [setInstance_ok_of_open]
            · rfl
            · exact cA.isOpen

/-! ### success, for real: not out of fuel either -/

theorem ok_of_okf_noFuel {α} (r : Except Err α) (h1 : okf r = true) (h2 : noFuel r = true) : ∃ v, r = .ok v := by
  cases r with
  | ok v => exact ⟨v, rfl⟩
  | error e =>
    have a : e.contains Layer.fuel = true := h1
    have b : (!e.contains Layer.fuel) = true := h2
    rw [a] at b; cases b

theorem reachLong_mem {descs : List Desc} {d t : Desc} (h : ReachLong descs d t) : t ∈ descs := by
  induction h with
  | direct _ hp => exact provides_mem hp
  | via _ _ _ _ ih => exact ih

/-- the hypotheses on the registry, bundled -/
structure Valid (descs : List Desc) : Prop where
  wf : WF descs
  reg : RegWF descs
  present : Present descs
  ranked : ∃ rank, Ranked descs rank

theorem valid_of_check (descs : List Desc) (hyp : failedHyps descs = []) (hv : verdict descs = .ok) : Valid descs := by
  obtain ⟨wf, rw', _, _, hk, _, _, _, hs, hdk⟩ := hyps_of_check hyp
  exact ⟨wf, rw', present_of_verdict descs hv, ⟨_, ranked_of_verdict descs hk hs hdk (by rw [hv]; intro h; cases h)⟩⟩

/-- a construction whose singleton dependencies are stored succeeds -/
theorem createInstance_succeeds (beh : Beh) (gb : GoodBeh beh) (descs : List Desc) (V : Valid descs) (st : State) (s : Nat)
    (c : Cond descs st s) (d : Desc) (hd : d ∈ descs) (hr : SingReady descs st d) :
    ∃ v, (createInstance beh (fuelFor st) st s d).2 = .ok v := by
  obtain ⟨rank, hrk⟩ := V.ranked
  exact ok_of_okf_noFuel _ ((total beh gb descs V.wf V.reg V.present (fuelFor st)).2.2.2.2.2 st s d c hd hr)
    (createInstance_settled beh descs rank hrk st c.descsEq s d hd).2

theorem findDesc_id {descs : List Desc} {id : Nat} {d : Desc} (h : findDesc descs id = some d) : d.id = id := by
  have := List.find?_some h
  simpa using this

/-- the singleton-creation loop -/
theorem createSingletons_succeeds (beh : Beh) (gb : GoodBeh beh) (descs : List Desc) (V : Valid descs) (order : List Nat)
    (hord : ∀ pre id post, order = pre ++ id :: post → ∀ d, findDesc descs id = some d → d.life = .singleton →
      ∀ t, ReachLong descs d t → t.life = .singleton → t.id ∈ pre) :
    ∀ (rest pre : List Nat) (st : State), order = pre ++ rest → Cond descs st rootScope →
      (∀ id ∈ pre, ∀ d, findDesc descs id = some d → d.life = .singleton → StoredS st d) →
      (createSingletons beh st rest).2 = .ok () ∧ Cond descs (createSingletons beh st rest).1 rootScope ∧
      TFrame st (createSingletons beh st rest).1 ∧
      (∀ id ∈ order, ∀ d, findDesc descs id = some d → d.life = .singleton → StoredS (createSingletons beh st rest).1 d) := by
  intro rest
  induction rest with
  | nil =>
    intro pre st ho c hst
    have : order = pre := by rw [ho]; simp
    subst this
    exact ⟨rfl, c, TFrame.refl st, hst⟩
  | cons id rest ih =>
    intro pre st ho c hst
    have ho' : order = (pre ++ [id]) ++ rest := by rw [ho]; simp
    -- what the induction hypothesis needs when `id` has been dealt with in a state `st'` that keeps `st`
    have step : ∀ st', Cond descs st' rootScope → Keep st st' → TFrame st st' →
        (∀ d, findDesc descs id = some d → d.life = .singleton → StoredS st' d) →
        (createSingletons beh st' rest).2 = .ok () ∧ Cond descs (createSingletons beh st' rest).1 rootScope ∧
        TFrame st (createSingletons beh st' rest).1 ∧
        (∀ id ∈ order, ∀ d, findDesc descs id = some d → d.life = .singleton → StoredS (createSingletons beh st' rest).1 d) := by
      intro st' c' k' tf' hid
      obtain ⟨a, b, tf2, e⟩ := ih (pre ++ [id]) st' ho' c' (by
        intro x hx d hfd hl
        rcases List.mem_append.1 hx with h | h
        · exact (hst x h d hfd hl).keep k'
        · simp only [List.mem_singleton] at h; subst h; exact hid d hfd hl)
      exact ⟨a, b, tf'.trans tf2, e⟩
    unfold createSingletons
    rw [c.descsEq]
    cases hfd : findDesc descs id with
    | none =>
      simp only []
      exact step st c (Keep.refl st) (TFrame.refl st) (fun d h => by rw [hfd] at h; cases h)
    | some d =>
      simp only []
      have hd : d ∈ descs := findDesc_mem' hfd
      by_cases hl : d.life = .singleton
      · have hne : (d.life != .singleton) = false := by simp [hl]
        simp only [hne, Bool.false_eq_true, ↓reduceIte]
        have hna : (lookup st.singletons d.ident == some .absent) = false := by
          have := c.noAbs.sing d.ident
          simpa using this
        simp only [hna, Bool.false_eq_true, ↓reduceIte]
        by_cases hs : (lookup st.singletons d.ident).isSome = true
        · simp only [hs, ↓reduceIte]
          exact step st c (Keep.refl st) (TFrame.refl st) (fun d' h _ => by rw [hfd] at h; cases h; exact hs)
        · simp only [hs, Bool.false_eq_true, ↓reduceIte]
          have hready : SingReady descs st d := by
            intro t ht htl
            have htid := hord pre id rest ho d hfd hl t ht htl
            have htd : t ∈ descs := reachLong_mem ht
            exact hst t.id htid t (V.wf.uniqueIds t htd) htl
          obtain ⟨v, hv⟩ := createInstance_succeeds beh gb descs V st rootScope c d hd hready
          have k1 := (keep_all beh gb (fuelFor st)).2.2.2.2.2 st rootScope d
          have tf1 := (tframe_all beh (fuelFor st)).2.2.2.2.2 st rootScope d
          have c1 := c.next ((descs_frame beh (fuelFor st)).2.2.2.2.2 st rootScope d) tf1 k1
          -- the construction has stored the singleton
          have hstored : StoredS (createInstance beh (fuelFor st) st rootScope d).1 d := by
            obtain ⟨f, hf⟩ : ∃ f, fuelFor st = f + 1 := ⟨fuelFor st - 1, by unfold fuelFor; omega⟩
            have cs := createInstance_singleton beh f st rootScope d (by rw [c.descsEq]; exact V.wf)
              (by rw [c.descsEq]; exact V.reg) (by rw [c.descsEq]; exact hd) hl
            rw [← hf] at cs
            obtain ⟨nested, fired, _, _, _, h4⟩ := cs.count
            exact (h4 (Or.inr ⟨v, hv⟩)).2 d (by rw [c.descsEq]; exact hd) rfl
          simp only [hv]
          exact step _ c1 k1 tf1 (fun d' h _ => by rw [hfd] at h; cases h; exact hstored)
      · have hne : (d.life != .singleton) = true := by simp [hl]
        simp only [hne, ↓reduceIte]
        exact step st c (Keep.refl st) (TFrame.refl st) (fun d' h hl' => by rw [hfd] at h; cases h; exact absurd hl' hl)

/-- the initializers of a scope: every one succeeds once all singletons are stored -/
theorem runInitializers_succeeds (beh : Beh) (gb : GoodBeh beh) (descs : List Desc) (V : Valid descs) (s : Nat) :
    ∀ (ids : List Nat) (st : State), Cond descs st s → (∀ t ∈ descs, t.life = .singleton → StoredS st t) →
      (runInitializers beh st s ids).2 = .ok () := by
  intro ids
  induction ids with
  | nil => intro st _ _; rfl
  | cons id rest ih =>
    intro st c hall
    unfold runInitializers
    rw [c.descsEq]
    cases hfd : findDesc descs id with
    | none => simp only []; exact ih st c hall
    | some d =>
      simp only []
      have hd : d ∈ descs := findDesc_mem' hfd
      have hready : SingReady descs st d := by
        intro t ht htl
        have htd : t ∈ descs := reachLong_mem ht
        exact hall t htd htl
      obtain ⟨v, hv⟩ := createInstance_succeeds beh gb descs V st s c d hd hready
      have k1 := (keep_all beh gb (fuelFor st)).2.2.2.2.2 st s d
      have tf1 := (tframe_all beh (fuelFor st)).2.2.2.2.2 st s d
      have c1 := c.next ((descs_frame beh (fuelFor st)).2.2.2.2.2 st s d) tf1 k1
      simp only [hv]
      exact ih _ c1 (fun t ht htl => (hall t ht htl).keep k1)

/-- BUILD SUCCEEDS: a registry that passed validation, constructors that succeed, a creation order that lists every
singleton after the singletons it reaches (what the topological sort delivers) — then `doBuild` returns a provider -/
theorem build_succeeds (beh : Beh) (gb : GoodBeh beh) (descs : List Desc) (order : List Nat)
    (hyp : failedHyps descs = []) (hv : verdict descs = .ok)
    (hall : ∀ d ∈ descs, d.life = .singleton → d.id ∈ order)
    (hord : ∀ pre id post, order = pre ++ id :: post → ∀ d, findDesc descs id = some d → d.life = .singleton →
      ∀ t, ReachLong descs d t → t.life = .singleton → t.id ∈ pre) :
    (build beh descs order).2 = .ok () := by
  have V := valid_of_check descs hyp hv
  unfold build
  rw [hv]
  simp only []
  unfold buildRuntime
  simp only [newScope, Bool.false_eq_true, ↓reduceIte]
  -- the root scope
  have c0 : Cond descs (allocScope { descs := descs, next := firstFresh descs } none 0) rootScope :=
    ⟨rfl, by rw [alloc_scope]; simp [rootScope], ⟨fun k => by simp [allocScope, lookup], fun x => by
      rw [alloc_scope]; split <;> (intro k; simp [lookup])⟩⟩
  obtain ⟨h1, c1, _, hst1⟩ := createSingletons_succeeds beh gb descs V order hord order [] _ rfl c0
    (fun id hid => by cases hid)
  generalize createSingletons beh (allocScope { descs := descs, next := firstFresh descs } none 0) order = r2 at h1 c1 hst1
  obtain ⟨st2, res2⟩ := r2
  simp only at h1
  subst h1
  simp only []
  have c3 : Cond descs { st2 with initializers := (descs.filter isInitializer).map (·.id) } rootScope :=
    ⟨c1.descsEq, c1.isOpen, ⟨c1.noAbs.sing, c1.noAbs.inst⟩⟩
  have hall3 : ∀ t ∈ descs, t.life = .singleton →
      StoredS { st2 with initializers := (descs.filter isInitializer).map (·.id) } t :=
    fun t ht htl => hst1 t.id (hall t ht htl) t (V.wf.uniqueIds t ht) htl
  have h4 := runInitializers_succeeds beh gb descs V rootScope ((descs.filter isInitializer).map (·.id)) _ c3 hall3
  generalize runInitializers beh { st2 with initializers := (descs.filter isInitializer).map (·.id) } rootScope
    ((descs.filter isInitializer).map (·.id)) = r4 at h4
  obtain ⟨st4, res4⟩ := r4
  simp only at h4
  subst h4
  rfl

end Godi.Container
