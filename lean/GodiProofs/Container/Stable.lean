import GodiProofs.Container.Frame
/-!
`Stable`: what every operation of a built provider other than `Provider.Close` preserves —
the registry, the singleton table and the provider's disposal list — while the log only grows by
events that are not constructions of singleton registrations.
-/
namespace Godi.Container

structure Stable (st st' : State) : Prop where
  descs : st'.descs = st.descs
  singletons : st'.singletons = st.singletons
  provDisp : st'.provDisposables = st.provDisposables
  initializers : st'.initializers = st.initializers
  log : ∃ new, st'.log = st.log ++ new ∧ ∀ e ∈ new, EventNonSingleton st.descs e
  next : st.next ≤ st'.next

theorem Stable.refl (st : State) : Stable st st := ⟨rfl, rfl, rfl, rfl, ⟨[], by simp, by simp⟩, Nat.le_refl _⟩

theorem Stable.trans {a b c : State} (h1 : Stable a b) (h2 : Stable b c) : Stable a c := by
  obtain ⟨n1, l1, e1⟩ := h1.log
  obtain ⟨n2, l2, e2⟩ := h2.log
  refine ⟨h2.descs.trans h1.descs, h2.singletons.trans h1.singletons, h2.provDisp.trans h1.provDisp,
    h2.initializers.trans h1.initializers, ⟨n1 ++ n2, by rw [l2, l1, List.append_assoc], ?_⟩, Nat.le_trans h1.next h2.next⟩
  intro e he
  rcases List.mem_append.1 he with he | he
  · exact e1 e he
  · have := e2 e he; rw [h1.descs] at this; exact this

theorem Ext.stable {st st' : State} {s : Nat} (h : Ext st st' s) : Stable st st' :=
  ⟨h.descs, h.singletons, h.provDisp, h.initializers, h.log, h.next⟩

theorem updScope_stable (st : State) (s : Nat) (f : ScopeSt → ScopeSt) : Stable st (updScope st s f) :=
  ⟨rfl, rfl, rfl, rfl, ⟨[], by simp [updScope], by simp⟩, Nat.le_refl _⟩

/-! ### Close only logs `closed` events -/

theorem logClosed_stable (st : State) (o : Nat) (i : Inst) (ok : Bool) : Stable st (logClosed st o i ok) :=
  ⟨rfl, rfl, rfl, rfl, ⟨[_], rfl, by intro e he; simp at he; subst he; trivial⟩, Nat.le_refl _⟩

theorem closeLoop_stable (beh : Beh) (owner : Nat) : ∀ (l : List Inst) (st : State),
    Stable st (closeLoop beh owner st l).1 := by
  intro l
  induction l with
  | nil => intro st; exact Stable.refl st
  | cons i rest ih =>
    intro st
    unfold closeLoop
    exact (logClosed_stable st owner i _).trans (ih _)

theorem detach_stable (st : State) (s : Nat) : Stable st (detach st s) := by
  unfold detach
  have h1 : Stable st (match (st.scope s).parent with
      | some p => updScope st p (fun sc => { sc with children := sc.children.map (fun (l : List Nat) => List.erase l s) })
      | none => st) := by
    split
    · exact updScope_stable _ _ _
    · exact Stable.refl _
  exact h1.trans ⟨rfl, rfl, rfl, rfl, ⟨[], (List.append_nil _).symm, by simp⟩, Nat.le_refl _⟩

theorem closeScope_stable (beh : Beh) (order : List Nat → List Nat) : ∀ fuel,
    (∀ st s, Stable st (closeScope beh order fuel st s).1) ∧
    (∀ st l, Stable st (closeChildren beh order fuel st l).1) := by
  intro fuel
  induction fuel with
  | zero => exact ⟨fun st s => by simp [closeScope]; exact Stable.refl st, fun st l => by simp [closeChildren]; exact Stable.refl st⟩
  | succ f ih =>
    obtain ⟨ihS, ihC⟩ := ih
    refine ⟨?_, ?_⟩
    · intro st s
      unfold closeScope
      split
      · exact Stable.refl st
      · simp only []
        exact ((((((updScope_stable st s _).trans (updScope_stable _ s _)).trans (ihC _ _)).trans
          (updScope_stable _ s _)).trans (closeLoop_stable beh s _ _)).trans (detach_stable _ s)).trans
          (updScope_stable _ s _)
    · intro st l
      cases l with
      | nil => unfold closeChildren; exact Stable.refl st
      | cons c rest =>
        unfold closeChildren
        exact (ihS st c).trans (ihC _ rest)

end Godi.Container
