import GodiProofs.Middleware.Refine
import GodiProofs.Middleware.SpecProps
/-! Helper lemmas for `Props/C16.lean`: the five generated integrations meet `specTrace`; request
sequences on one provider (the scope counter only grows, closed scopes are below it). -/
namespace Godi.Mw

/-- the integration also publishes the scope through the framework's locals -/
def usesLocals (I : Integration) : Bool := decide (Stmt.attachLocals ∈ I.mw)

theorem usesLocals_style : ∀ I ∈ integrations, usesLocals I = decide (styleOf I = .inline) := by decide

/-- the trace of any request against any of the five integrations is the specified one -/
theorem trace_eq {I : Integration} (hI : I ∈ integrations) (rq : Req) (hw : rq.WF) (base : Sid) :
    I.trace rq base = specTrace (styleOf I) rq base :=
  (all_refine I hI rq base [] (by simp) hw).1

def SysOk (sys : Sys) : Prop := ∀ x ∈ sys.closed, x < sys.nextSid

theorem step_spec {I : Integration} (hI : I ∈ integrations) (sys : Sys) (hs : SysOk sys) (rq : Req) (hw : rq.WF) :
    (I.step sys rq).2 = specTrace (styleOf I) rq sys.nextSid ∧
    SysOk (I.step sys rq).1 ∧ sys.nextSid ≤ (I.step sys rq).1.nextSid := by
  have hb : sys.nextSid ∉ sys.closed := fun h => Nat.lt_irrefl _ (hs _ h)
  obtain ⟨h1, h2, h3⟩ := all_refine I hI rq sys.nextSid sys.closed hb hw
  refine ⟨h1, ?_, ?_⟩
  · intro x hx
    simp only [Integration.step] at hx ⊢
    rw [h3] at hx
    rw [h2]
    cases hc : created rq
    · simp only [hc, Bool.false_eq_true, if_false] at hx ⊢
      exact hs x hx
    · simp only [hc, if_true, List.mem_cons] at hx ⊢
      rcases hx with rfl | hx
      · exact Nat.lt_succ_self _
      · exact Nat.lt_succ_of_lt (hs x hx)
  · simp only [Integration.step]; rw [h2]; split
    · exact Nat.le_succ _
    · exact Nat.le_refl _

theorem seq_aux {I : Integration} (hI : I ∈ integrations) : ∀ (rqs : List Req) (sys : Sys), SysOk sys → (∀ rq ∈ rqs, rq.WF) →
    (I.runSeq sys rqs).length = rqs.length ∧
    ((I.runSeq sys rqs).flatMap createdScopes).Pairwise (· < ·) ∧
    (∀ x ∈ (I.runSeq sys rqs).flatMap createdScopes, sys.nextSid ≤ x) ∧
    (∀ t ∈ I.runSeq sys rqs, ∀ e ∈ t, ∀ x ∈ e.seen, createdScopes t = [x] ∧ closes t x = 1)
  | [], _, _, _ => by simp [Integration.runSeq]
  | rq :: rqs, sys, hs, hw => by
    have hw0 : rq.WF := hw rq (List.mem_cons_self ..)
    obtain ⟨h1, h2, h3⟩ := step_spec hI sys hs rq hw0
    obtain ⟨l, p, lo, own⟩ := seq_aux hI rqs (I.step sys rq).1 h2 (fun r hr => hw r (List.mem_cons_of_mem _ hr))
    have hcr : createdScopes (I.step sys rq).2 = if created rq then [sys.nextSid] else [] := by
      rw [h1]; exact spec_created _ rq _
    have hnext : created rq = true → sys.nextSid < (I.step sys rq).1.nextSid := by
      intro hc
      have := (all_refine I hI rq sys.nextSid sys.closed (fun h => Nat.lt_irrefl _ (hs _ h)) hw0).2.1
      simp only [Integration.step]; rw [this, hc]; simp
    refine ⟨by rw [Integration.runSeq, List.length_cons, l, List.length_cons], ?_, ?_, ?_⟩
    · simp only [Integration.runSeq, List.flatMap_cons, List.pairwise_append]
      refine ⟨?_, p, ?_⟩
      · rw [hcr]; split <;> simp
      · intro a ha b hb
        rw [hcr] at ha
        cases hc : created rq
        · simp [hc] at ha
        · simp only [hc, if_true, List.mem_singleton] at ha
          subst ha
          exact Nat.lt_of_lt_of_le (hnext hc) (lo b hb)
    · intro x hx
      simp only [Integration.runSeq, List.flatMap_cons, List.mem_append] at hx
      rcases hx with hx | hx
      · rw [hcr] at hx
        cases hc : created rq
        · simp [hc] at hx
        · simp only [hc, if_true, List.mem_singleton] at hx; rw [hx]; exact Nat.le_refl _
      · exact Nat.le_trans h3 (lo x hx)
    · intro t ht e he x hx
      simp only [Integration.runSeq, List.mem_cons] at ht
      rcases ht with rfl | ht
      · have hseen := spec_seen (styleOf I) rq sys.nextSid
        simp only [List.all_eq_true, beq_iff_eq] at hseen
        rw [h1] at he ⊢
        have hxe : x = sys.nextSid := hseen e he x hx
        subst hxe
        -- a scope is mentioned only if it was created
        have hc : created rq = true := by
          cases hc : created rq
          · have hu := spec_unseen (styleOf I) rq sys.nextSid hc
            simp only [List.all_eq_true, List.isEmpty_iff] at hu
            rw [hu e he] at hx
            cases hx
          · rfl
        exact ⟨by rw [spec_created, hc]; rfl, by rw [spec_closes, hc]; simp⟩
      · exact own t ht e he x hx

end Godi.Mw
