import GodiProofs.Middleware.Trace
/-! What C16 says, proved once about `specTrace`, for every request and both styles. -/
namespace Godi.Mw
set_option maxRecDepth 4000
set_option linter.unusedSimpArgs false

/-- does the request get as far as the routed handler -/
def reaches (rq : Req) : Bool := !rq.installed || (rq.create = .ok && !mwFails rq)

/-- does the handler body / controller method itself run -/
def invoked (rq : Req) : Bool :=
  match rq.down with
  | .plain => reaches rq
  | .handle _ rf => reaches rq && rq.installed && !rf

/-- does a panic of the handler leave the whole stack -/
def panicEscapes (rq : Req) : Bool :=
  invoked rq && rq.outcome = .panic && (match rq.down with | .plain => true | .handle r _ => !r)

/-- is a handler panic swallowed by `Handle`'s recovery -/
def panicRecovered (rq : Req) : Bool :=
  invoked rq && rq.outcome = .panic && (match rq.down with | .plain => false | .handle r _ => r)

section counts
variable (a c l : Option Sid) (i k : Nat)
@[simp] theorem cnt_attempt : (mwEvs a c l i k).countP Ev.isAttempt = 0 := countP_mwEvs _ _ _ _ (fun _ => rfl) _ _
@[simp] theorem cnt_close (s : Sid) : (mwEvs a c l i k).countP (Ev.isClose s) = 0 := countP_mwEvs _ _ _ _ (fun _ => rfl) _ _
@[simp] theorem cnt_anyclose : (mwEvs a c l i k).countP Ev.isAnyClose = 0 := countP_mwEvs _ _ _ _ (fun _ => rfl) _ _
@[simp] theorem cnt_eh : (mwEvs a c l i k).countP Ev.isErrorHandler = 0 := countP_mwEvs _ _ _ _ (fun _ => rfl) _ _
@[simp] theorem cnt_down : (mwEvs a c l i k).countP Ev.isDownEntry = 0 := countP_mwEvs _ _ _ _ (fun _ => rfl) _ _
@[simp] theorem cnt_method : (mwEvs a c l i k).countP Ev.isMethod = 0 := countP_mwEvs _ _ _ _ (fun _ => rfl) _ _
@[simp] theorem cnt_seh : (mwEvs a c l i k).countP Ev.isScopeErr = 0 := countP_mwEvs _ _ _ _ (fun _ => rfl) _ _
@[simp] theorem cnt_reh : (mwEvs a c l i k).countP Ev.isResolutionErr = 0 := countP_mwEvs _ _ _ _ (fun _ => rfl) _ _
@[simp] theorem cnt_pout : (mwEvs a c l i k).countP Ev.isPanicOut = 0 := countP_mwEvs _ _ _ _ (fun _ => rfl) _ _
@[simp] theorem cnt_ph : (mwEvs a c l i k).countP Ev.isPanicHandler = 0 := countP_mwEvs _ _ _ _ (fun _ => rfl) _ _
@[simp] theorem cnt_bad : (mwEvs a c l i k).countP Ev.isBad = 0 := countP_mwEvs _ _ _ _ (fun _ => rfl) _ _
end counts

/-- evaluate a statement about `specTail` on every combination of the finite request components -/
macro "tail_cases" rq:ident sty:ident " with " extra:Lean.Parser.Tactic.simpLemma,* : tactic => `(tactic| (
  cases hm : mwFails $rq <;> cases $sty:ident <;>
    rcases hd : ($rq).down with _ | ⟨r, rf⟩ <;> cases ho : ($rq).outcome <;> cases hce : ($rq).closeErr <;>
    try (cases r <;> cases rf)
  all_goals
    simp [specTail, downSpec, closeEvs, locOf, reaches, invoked, panicEscapes, panicRecovered, hm, hd, ho, hce,
      List.countP_cons, List.countP_append, $extra,*]))

/-- reduce a statement about `specTrace` to `specTail` (scope created) or evaluate it (otherwise);
goals that remain are split on the handler kind / outcome / failing middleware and retried -/
macro "trace_cases" rq:ident _sty:ident " with " extra:Lean.Parser.Tactic.simpLemma,* : tactic => `(tactic| (
  cases hI : ($rq).installed <;> cases hc : ($rq).create <;>
    rcases hd : ($rq).down with _ | ⟨r, rf⟩ <;> cases ho : ($rq).outcome <;> cases hm : mwFails $rq <;>
    try (cases r <;> cases rf)
  all_goals
    simp [specTrace, downSpec, created, reaches, invoked, panicEscapes, panicRecovered, hI, hc, hd, ho, hm,
      List.countP_cons, List.countP_append, $extra,*]))

/-! ### counts on the tail -/

theorem tail_attempts (sty : Style) (rq : Req) (s : Sid) : (specTail sty rq s).countP Ev.isAttempt = 0 := by
  tail_cases rq sty with Ev.isAttempt

theorem tail_closes (sty : Style) (rq : Req) (s x : Sid) :
    (specTail sty rq s).countP (Ev.isClose x) = if s = x then 1 else 0 := by
  by_cases hx : s = x
  · subst hx; tail_cases rq sty with Ev.isClose
  · tail_cases rq sty with Ev.isClose, hx

theorem tail_eh (sty : Style) (rq : Req) (s : Sid) :
    (specTail sty rq s).countP Ev.isErrorHandler = if mwFails rq then 1 else 0 := by
  tail_cases rq sty with Ev.isErrorHandler

theorem tail_down (sty : Style) (rq : Req) (s : Sid) :
    (specTail sty rq s).countP Ev.isDownEntry = if mwFails rq then 0 else 1 := by
  tail_cases rq sty with Ev.isDownEntry


theorem tail_method (sty : Style) (rq : Req) (s : Sid) :
    (specTail sty rq s).countP Ev.isMethod = if !mwFails rq && (match rq.down with | .plain => false | .handle _ rf => !rf) then 1 else 0 := by
  tail_cases rq sty with Ev.isMethod

theorem tail_seh (sty : Style) (rq : Req) (s : Sid) : (specTail sty rq s).countP Ev.isScopeErr = 0 := by
  tail_cases rq sty with Ev.isScopeErr

theorem tail_reh (sty : Style) (rq : Req) (s : Sid) :
    (specTail sty rq s).countP Ev.isResolutionErr = if !mwFails rq && (match rq.down with | .plain => false | .handle _ rf => rf) then 1 else 0 := by
  tail_cases rq sty with Ev.isResolutionErr

theorem tail_pout (sty : Style) (rq : Req) (s : Sid) :
    (specTail sty rq s).countP Ev.isPanicOut =
      if !mwFails rq && rq.outcome = .panic && (match rq.down with | .plain => true | .handle r rf => !r && !rf) then 1 else 0 := by
  tail_cases rq sty with Ev.isPanicOut

theorem tail_ph (sty : Style) (rq : Req) (s : Sid) :
    (specTail sty rq s).countP Ev.isPanicHandler =
      if !mwFails rq && rq.outcome = .panic && (match rq.down with | .plain => false | .handle r rf => r && !rf) then 1 else 0 := by
  tail_cases rq sty with Ev.isPanicHandler

theorem tail_bad (sty : Style) (rq : Req) (s : Sid) : (specTail sty rq s).countP Ev.isBad = 0 := by
  tail_cases rq sty with Ev.isBad

theorem tail_created (sty : Style) (rq : Req) (s : Sid) : createdScopes (specTail sty rq s) = [] := by
  tail_cases rq sty with createdScopes_cons, createdScopes_append

theorem tail_mwIndices (sty : Style) (rq : Req) (s : Sid) : mwIndices (specTail sty rq s) = [] := by
  tail_cases rq sty with mwIndices_cons, mwIndices_append

theorem tail_seen (sty : Style) (rq : Req) (s : Sid) : (specTail sty rq s).all (fun e => e.seen.all (· == s)) = true := by
  tail_cases rq sty with Ev.seen

theorem tail_sees (sty : Style) (rq : Req) (s : Sid) :
    (specTail sty rq s).all (Ev.seesFully (decide (sty = .inline)) s) = true := by
  tail_cases rq sty with Ev.seesFully

theorem tail_noUse (sty : Style) (rq : Req) (s : Sid) : noUseAfterClose (specTail sty rq s) [] = true := by
  tail_cases rq sty with noUseAfterClose, Ev.uses, Ev.seen

theorem tail_methodAfter (sty : Style) (rq : Req) (s : Sid) : methodAfterResolve (specTail sty rq s) [] = true := by
  tail_cases rq sty with methodAfterResolve

theorem all_mwEvs (p : Ev → Bool) (a c l : Option Sid) (hp : ∀ i, p (.mwRan i a c l) = true) :
    ∀ k i, (mwEvs a c l i k).all p = true
  | 0, _ => rfl
  | k + 1, i => by simp [mwEvs, hp, all_mwEvs p a c l hp k]

/-! ### the whole trace -/

theorem spec_attempts (sty : Style) (rq : Req) (s : Sid) :
    createAttempts (specTrace sty rq s) = if rq.installed then 1 else 0 := by
  trace_cases rq sty with createAttempts, Ev.isAttempt, tail_attempts

theorem spec_created (sty : Style) (rq : Req) (s : Sid) :
    createdScopes (specTrace sty rq s) = if created rq then [s] else [] := by
  trace_cases rq sty with createdScopes_cons, createdScopes_append, createdScopes_mwEvs, tail_created


theorem spec_mw_order (sty : Style) (rq : Req) (s : Sid) :
    mwIndices (specTrace sty rq s) = if created rq then List.range (ranCount rq) else [] := by
  trace_cases rq sty with mwIndices_cons, mwIndices_append, mwIndices_mwEvs, tail_mwIndices, List.range_eq_range'

theorem spec_closes (sty : Style) (rq : Req) (s x : Sid) :
    closes (specTrace sty rq s) x = if created rq ∧ s = x then 1 else 0 := by
  trace_cases rq sty with closes, Ev.isClose, tail_closes

theorem spec_eh (sty : Style) (rq : Req) (s : Sid) :
    errorHandlerRuns (specTrace sty rq s) = if rq.installed && !reaches rq then 1 else 0 := by
  trace_cases rq sty with errorHandlerRuns, Ev.isErrorHandler, tail_eh

theorem spec_down (sty : Style) (rq : Req) (s : Sid) :
    downRuns (specTrace sty rq s) = if reaches rq then 1 else 0 := by
  trace_cases rq sty with downRuns, Ev.isDownEntry, tail_down

theorem spec_method (sty : Style) (rq : Req) (s : Sid) :
    methodCalls (specTrace sty rq s) = if invoked rq && rq.down ≠ .plain then 1 else 0 := by
  trace_cases rq sty with methodCalls, Ev.isMethod, tail_method

theorem spec_seh (sty : Style) (rq : Req) (s : Sid) :
    scopeErrs (specTrace sty rq s) = if !rq.installed && rq.down ≠ .plain then 1 else 0 := by
  trace_cases rq sty with scopeErrs, Ev.isScopeErr, tail_seh

theorem spec_reh (sty : Style) (rq : Req) (s : Sid) :
    resolutionErrs (specTrace sty rq s) =
      if reaches rq && rq.installed && (match rq.down with | .plain => false | .handle _ rf => rf) then 1 else 0 := by
  trace_cases rq sty with resolutionErrs, Ev.isResolutionErr, tail_reh

theorem spec_pout (sty : Style) (rq : Req) (s : Sid) :
    panicsOut (specTrace sty rq s) = if panicEscapes rq then 1 else 0 := by
  trace_cases rq sty with panicsOut, Ev.isPanicOut, tail_pout

theorem spec_ph (sty : Style) (rq : Req) (s : Sid) :
    panicHandlers (specTrace sty rq s) = if panicRecovered rq then 1 else 0 := by
  trace_cases rq sty with panicHandlers, Ev.isPanicHandler, tail_ph

theorem spec_bad (sty : Style) (rq : Req) (s : Sid) : (specTrace sty rq s).countP Ev.isBad = 0 := by
  trace_cases rq sty with Ev.isBad, tail_bad

theorem spec_seen (sty : Style) (rq : Req) (s : Sid) :
    (specTrace sty rq s).all (fun e => e.seen.all (· == s)) = true := by
  have hm : ∀ k, (mwEvs (some s) (some s) (locOf sty s) 0 k).all (fun e => e.seen.all (· == s)) = true := by
    intro k; apply all_mwEvs; intro i; cases sty <;> simp [Ev.seen, locOf]
  have ht := tail_seen sty rq s
  unfold specTrace
  cases hI : rq.installed
  · rcases hd : rq.down with _ | ⟨r, rf⟩ <;> cases ho : rq.outcome <;> simp [downSpec, hd, ho, Ev.seen]
  · cases hc : rq.create
    · simp only [Bool.not_true, Bool.false_eq_true, if_false, List.all_cons, List.all_append, hm, ht]
      simp [Ev.seen]
    all_goals simp [Ev.seen]

theorem spec_sees (sty : Style) (rq : Req) (s : Sid) (hc : created rq = true) :
    (specTrace sty rq s).all (Ev.seesFully (decide (sty = .inline)) s) = true := by
  have hm : ∀ k, (mwEvs (some s) (some s) (locOf sty s) 0 k).all (Ev.seesFully (decide (sty = .inline)) s) = true := by
    intro k; apply all_mwEvs; intro i; cases sty <;> simp [Ev.seesFully, locOf]
  have ht := tail_sees sty rq s
  simp only [created, Bool.and_eq_true, decide_eq_true_eq] at hc
  simp only [specTrace, hc.1, hc.2, Bool.not_true, Bool.false_eq_true, if_false, List.all_cons, List.all_append, hm, ht]
  simp [Ev.seesFully]

theorem spec_noUse (sty : Style) (rq : Req) (s : Sid) : noUseAfterClose (specTrace sty rq s) [] = true := by
  have ht := tail_noUse sty rq s
  have hl : locOf sty s = none ∨ locOf sty s = some s := by cases sty <;> simp [locOf]
  have hn := fun t => noUse_mwEvs_append s _ hl t [] (by simp) (ranCount rq) 0
  trace_cases rq sty with noUseAfterClose, Ev.uses, Ev.seen, hn, ht

theorem spec_methodAfter (sty : Style) (rq : Req) (s : Sid) : methodAfterResolve (specTrace sty rq s) [] = true := by
  have ht := tail_methodAfter sty rq s
  trace_cases rq sty with methodAfterResolve, methodAfter_mwEvs_append, ht

/-- a request that creates no scope mentions no scope -/
theorem spec_unseen (sty : Style) (rq : Req) (s : Sid) (hc : created rq = false) :
    (specTrace sty rq s).all (fun e => e.seen.isEmpty) = true := by
  unfold specTrace
  cases hI : rq.installed
  · rcases hd : rq.down with _ | ⟨r, rf⟩ <;> cases ho : rq.outcome <;> simp [downSpec, hd, ho, Ev.seen]
  · cases hcr : rq.create
    · simp [created, hI, hcr] at hc
    all_goals simp [Ev.seen]

end Godi.Mw
