import GodiProofs.Middleware.Spec
/-!
Observers on event traces (what C16 talks about) and their values on `specTrace`, for every request.
-/
namespace Godi.Mw

/-! ## observers -/

def Ev.isCreated : Ev → Bool | .scopeCreated _ => true | _ => false
def Ev.isAttempt : Ev → Bool | .scopeCreated _ => true | .createFailed => true | _ => false
def Ev.isClose (s : Sid) : Ev → Bool | .scopeClosed x => x == s | _ => false
def Ev.isAnyClose : Ev → Bool | .scopeClosed _ => true | _ => false
def Ev.isErrorHandler : Ev → Bool | .errorHandlerRan => true | _ => false
/-- first event of every run of the routed handler: the plain handler's own event, or `Handle`
finding / not finding a scope -/
def Ev.isDownEntry : Ev → Bool | .handlerRan .. => true | .handleScope _ => true | .scopeErrHandler => true | _ => false
def Ev.isMethod : Ev → Bool | .methodCalled .. => true | _ => false
def Ev.isScopeErr : Ev → Bool | .scopeErrHandler => true | _ => false
def Ev.isResolutionErr : Ev → Bool | .resolutionErrHandler => true | _ => false
def Ev.isPanicOut : Ev → Bool | .panicPropagated => true | _ => false
def Ev.isPanicHandler : Ev → Bool | .panicHandler => true | _ => false
def Ev.isBad : Ev → Bool | .nilDeref => true | .stuck _ => true | _ => false

/-- every scope an event mentions -/
def Ev.seen : Ev → List Sid
  | .scopeCreated s => [s]
  | .mwRan _ a c l => a.toList ++ c.toList ++ l.toList
  | .handlerRan c l _ => c.toList ++ l.toList
  | .handleScope s => [s]
  | .handleResolved s => [s]
  | .methodCalled c _ => c.toList
  | .scopeClosed s => [s]
  | _ => []

/-- scopes an event *uses* (everything it mentions except creating/closing it) -/
def Ev.uses : Ev → List Sid
  | .scopeCreated _ => []
  | .scopeClosed _ => []
  | e => e.seen

/-- user code that runs inside the request sees scope `s` through every channel the integration
offers (`needLoc`: also through the framework locals), and sees it open -/
def Ev.seesFully (needLoc : Bool) (s : Sid) : Ev → Bool
  | .mwRan _ a c l => a == some s && c == some s && (!needLoc || l == some s)
  | .handlerRan c l live => c == some s && (!needLoc || l == some s) && live
  | .handleScope x => x == s
  | .handleResolved x => x == s
  | .methodCalled c live => c == some s && live
  | _ => true

def createdScopes (t : List Ev) : List Sid := t.filterMap fun | .scopeCreated s => some s | _ => none
def mwIndices (t : List Ev) : List Nat := t.filterMap fun | .mwRan i .. => some i | _ => none
def createAttempts (t : List Ev) : Nat := t.countP Ev.isAttempt
def closes (t : List Ev) (s : Sid) : Nat := t.countP (Ev.isClose s)
def anyCloses (t : List Ev) : Nat := t.countP Ev.isAnyClose
def errorHandlerRuns (t : List Ev) : Nat := t.countP Ev.isErrorHandler
def downRuns (t : List Ev) : Nat := t.countP Ev.isDownEntry
def methodCalls (t : List Ev) : Nat := t.countP Ev.isMethod
def scopeErrs (t : List Ev) : Nat := t.countP Ev.isScopeErr
def resolutionErrs (t : List Ev) : Nat := t.countP Ev.isResolutionErr
def panicsOut (t : List Ev) : Nat := t.countP Ev.isPanicOut
def panicHandlers (t : List Ev) : Nat := t.countP Ev.isPanicHandler

/-- no event uses a scope after the event that closed it (scan with the set of closed scopes) -/
def noUseAfterClose : List Ev → List Sid → Bool
  | [], _ => true
  | e :: t, cl =>
    match e with
    | .scopeClosed s => noUseAfterClose t (s :: cl)
    | e => e.uses.all (fun x => !cl.contains x) && noUseAfterClose t cl

/-- the controller method is only ever called with a controller resolved earlier in the trace -/
def methodAfterResolve : List Ev → List Sid → Bool
  | [], _ => true
  | e :: t, res =>
    match e with
    | .handleResolved s => methodAfterResolve t (s :: res)
    | .methodCalled c _ => (match c with | some s => res.contains s | none => false) && methodAfterResolve t res
    | _ => methodAfterResolve t res

/-! ## the middleware prefix -/

theorem countP_mwEvs (p : Ev → Bool) (a c l : Option Sid) (hp : ∀ i, p (.mwRan i a c l) = false) :
    ∀ k i, (mwEvs a c l i k).countP p = 0
  | 0, _ => rfl
  | k + 1, i => by simp [mwEvs, hp, countP_mwEvs p a c l hp k]

theorem createdScopes_mwEvs (a c l : Option Sid) : ∀ k i, createdScopes (mwEvs a c l i k) = []
  | 0, _ => rfl
  | k + 1, i => by
    have := createdScopes_mwEvs a c l k (i + 1)
    simp only [createdScopes] at this ⊢
    simp [mwEvs, this]

theorem mwIndices_mwEvs (a c l : Option Sid) : ∀ k i, mwIndices (mwEvs a c l i k) = List.range' i k
  | 0, _ => rfl
  | k + 1, i => by
    have := mwIndices_mwEvs a c l k (i + 1)
    simp only [mwIndices] at this ⊢
    simp [mwEvs, this, List.range']

theorem mem_mwEvs {a c l : Option Sid} {e : Ev} : ∀ {k i}, e ∈ mwEvs a c l i k → ∃ j, e = .mwRan j a c l
  | 0, _, h => by cases h
  | k + 1, i, h => by
    simp only [mwEvs, List.mem_cons] at h
    rcases h with h | h
    · exact ⟨i, h⟩
    · exact mem_mwEvs h

theorem noUse_mwEvs_append (s : Sid) (l : Option Sid) (hl : l = none ∨ l = some s) (t : List Ev) (cl : List Sid) (hs : s ∉ cl) :
    ∀ k i, noUseAfterClose (mwEvs (some s) (some s) l i k ++ t) cl = noUseAfterClose t cl
  | 0, _ => rfl
  | k + 1, i => by
    have ih := noUse_mwEvs_append s l hl t cl hs k (i + 1)
    rcases hl with rfl | rfl <;> simp [mwEvs, noUseAfterClose, Ev.uses, Ev.seen, ih, hs]

theorem methodAfter_mwEvs_append (a c l : Option Sid) (t : List Ev) (res : List Sid) :
    ∀ k i, methodAfterResolve (mwEvs a c l i k ++ t) res = methodAfterResolve t res
  | 0, _ => rfl
  | k + 1, i => by simp [mwEvs, methodAfterResolve, methodAfter_mwEvs_append a c l t res k]

@[simp] theorem createdScopes_nil : createdScopes [] = [] := rfl
theorem createdScopes_cons (e : Ev) (t : List Ev) :
    createdScopes (e :: t) = (match e with | .scopeCreated s => [s] | _ => []) ++ createdScopes t := by
  cases e <;> simp [createdScopes]
@[simp] theorem mwIndices_nil : mwIndices [] = [] := rfl
theorem mwIndices_cons (e : Ev) (t : List Ev) :
    mwIndices (e :: t) = (match e with | .mwRan i .. => [i] | _ => []) ++ mwIndices t := by
  cases e <;> simp [mwIndices]

theorem mwIndices_append (a b : List Ev) : mwIndices (a ++ b) = mwIndices a ++ mwIndices b := by
  simp [mwIndices]
theorem createdScopes_append (a b : List Ev) : createdScopes (a ++ b) = createdScopes a ++ createdScopes b := by
  simp [createdScopes]

end Godi.Mw
