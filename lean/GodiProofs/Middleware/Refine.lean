import GodiProofs.Middleware.Spec
/-!
Refinement of the five GENERATED integrations to `specTrace`. The proofs consume the regenerated
terms `Gen.<fw>ScopeMw` / `Gen.<fw>Handle`: the finite part of the request space (installed?, create
outcome, handler kind and outcome, options) is split into cases and evaluated on the concrete term;
the unbounded part (number of configured middlewares, failing index) goes through `runMws_all`.
A term containing `.unknown`, or one whose control flow differs (no `defer`, Close before `next`,
missing `Abort` under gin's chain semantics, a second `create`, …) does not evaluate to the spec and
the proof fails.
-/
namespace Godi.Mw
set_option maxRecDepth 4000
set_option linter.unusedSimpArgs false

/-- `mw_refine I F M H`: integration constant, its facts, its generated middleware and Handle terms -/
macro "mw_refine" I:ident F:ident M:ident H:ident : tactic => `(tactic| (
  intro rq base closed hb hwf
  cases hI : rq.installed
  · have hou : rq.outer = none := hwf hI
    rcases hd : rq.down with _ | ⟨r, rf⟩ <;> cases ho : rq.outcome <;> try (cases r <;> cases rf)
    all_goals
      simp [Integration.run, runRequest, $I:ident, $F:ident, $H:ident, runDown, runPlain, runHandle, execH, stepH, execHE, stepHE,
        requestEnd, specTrace, specTail, locOf, downSpec, created, St.emit, St.setCtl, HSt.emit, hI, hd, ho, hou]
  · cases hc : rq.create
    · cases hm : mwFails rq
      · rcases hd : rq.down with _ | ⟨r, rf⟩ <;> cases ho : rq.outcome <;> cases hce : rq.closeErr <;> try (cases r <;> cases rf)
        all_goals
          simp [Integration.run, runRequest, $I:ident, $F:ident, $M:ident, $H:ident, exec, step, runMws_all, execE, stepE, runDefers, closeScope,
            runDown, runPlain, runHandle, execH, stepH, execHE, stepHE, downSpec, HSt.emit,
            requestEnd, specTrace, specTail, locOf, created, St.emit, St.setCtl, St.emits, hI, hc, hm, hce, hd, ho, closeEvs, hb]
      · cases hce : rq.closeErr <;>
        simp [Integration.run, runRequest, $I:ident, $F:ident, $M:ident, exec, step, runMws_all, execE, stepE, runDefers, closeScope,
          requestEnd, specTrace, specTail, locOf, created, St.emit, St.setCtl, St.emits, hI, hc, hm, hce, closeEvs, hb]
    all_goals
      simp [Integration.run, runRequest, $I:ident, $F:ident, $M:ident, exec, step, runMws_all, execE, stepE, runDefers, closeScope,
        requestEnd, specTrace, specTail, locOf, created, St.emit, St.setCtl, St.emits, hI, hc, closeEvs, hb]))

theorem http_refines : Refines http .deferred := by mw_refine http httpFacts Gen.httpScopeMw Gen.httpHandle
theorem chi_refines : Refines chi .deferred := by mw_refine chi chiFacts Gen.chiScopeMw Gen.chiHandle
theorem gin_refines : Refines gin .deferred := by mw_refine gin ginFacts Gen.ginScopeMw Gen.ginHandle
theorem echo_refines : Refines echo .deferred := by mw_refine echo echoFacts Gen.echoScopeMw Gen.echoHandle
theorem fiber_refines : Refines fiber .inline := by mw_refine fiber fiberFacts Gen.fiberScopeMw Gen.fiberHandle

/-- the style each integration is expected to have -/
def styleOf (I : Integration) : Style := if I.facts.requestEndClosesLocals then .inline else .deferred

theorem all_refine : ∀ I ∈ integrations, Refines I (styleOf I) := by
  intro I hI
  simp only [integrations, List.mem_cons, List.mem_nil_iff, or_false] at hI
  rcases hI with rfl | rfl | rfl | rfl | rfl
  · exact http_refines
  · exact chi_refines
  · exact gin_refines
  · exact echo_refines
  · exact fiber_refines

end Godi.Mw
