import GodiModel.Middleware
/-!
Generic lemmas about the M7 interpreter: the unbounded part of C16 (any number of configured
middlewares, any failing index) is handled here by induction, once, for every error branch that ends
in `return`.
-/
namespace Godi.Mw

/-- the `mwRan` events of the middlewares `i, i+1, …, i+k-1` -/
def mwEvs (a c l : Option Sid) : Nat → Nat → List Ev
  | _, 0 => []
  | i, k + 1 => .mwRan i a c l :: mwEvs a c l (i + 1) k

def St.emits (st : St) (l : List Ev) : St := { st with trace := st.trace ++ l }

@[simp] theorem St.emits_nil (st : St) : st.emits [] = st := by simp [St.emits]
theorem St.emit_emits (st : St) (e : Ev) (l : List Ev) : (st.emit e).emits l = st.emits (e :: l) := by
  simp [St.emits, St.emit]
@[simp] theorem St.emits_ctl (st : St) (l : List Ev) : (st.emits l).ctl = st.ctl := rfl
@[simp] theorem St.emit_ctl (st : St) (e : Ev) : (st.emit e).ctl = st.ctl := rfl
@[simp] theorem St.emit_scope (st : St) (e : Ev) : (st.emit e).scope = st.scope := rfl
@[simp] theorem St.emit_ctxScope (st : St) (e : Ev) : (st.emit e).ctxScope = st.ctxScope := rfl
@[simp] theorem St.emit_locScope (st : St) (e : Ev) : (st.emit e).locScope = st.locScope := rfl

theorem execE_stopped (rq : Req) (es : List EStmt) (st : St) (h : st.ctl ≠ .run) : execE rq es st = st := by
  cases es with
  | nil => rfl
  | cons e es => simp [execE, h]

/-- an error branch that contains a `return` never falls through -/
theorem execE_ret_stops (rq : Req) : ∀ (es : List EStmt), EStmt.ret ∈ es → ∀ st : St, st.ctl = .run → (execE rq es st).ctl ≠ .run
  | [], h, _, _ => by cases h
  | e :: es, h, st, hr => by
    simp only [execE, hr, if_true]
    by_cases he : e = .ret
    · subst he
      have : (stepE rq .ret st).ctl ≠ .run := by simp [stepE, St.setCtl]
      rw [execE_stopped rq es _ this]; exact this
    · have hm : EStmt.ret ∈ es := by
        rcases List.mem_cons.1 h with h | h
        · exact absurd h.symm he
        · exact h
      by_cases hc : (stepE rq e st).ctl = .run
      · exact execE_ret_stops rq es hm _ hc
      · rw [execE_stopped rq es _ hc]; exact hc

theorem runMws_stopped (rq : Req) (onErr : List EStmt) (rem i : Nat) (st : St) (h : st.ctl ≠ .run) :
    runMws rq onErr rem i st = st := by
  cases rem with
  | zero => rfl
  | succ r => simp [runMws, h]

/-- The loop over the configured middlewares, for ANY number of them and ANY failing index: the
middlewares `i … f` run in order with the same three views of the scope, then the error branch; or all
of them run when none fails. -/
theorem runMws_spec (rq : Req) (onErr : List EStmt) (hret : EStmt.ret ∈ onErr) :
    ∀ (rem i : Nat) (st : St), st.ctl = .run →
      runMws rq onErr rem i st =
        match rq.mwFail with
        | some f =>
          if i ≤ f ∧ f < i + rem then
            execE rq onErr (st.emits (mwEvs st.scope st.ctxScope st.locScope i (f - i + 1)))
          else st.emits (mwEvs st.scope st.ctxScope st.locScope i rem)
        | none => st.emits (mwEvs st.scope st.ctxScope st.locScope i rem)
  | 0, i, st, _ => by
    cases hf : rq.mwFail with
    | none => simp [runMws, mwEvs]
    | some f =>
      have : ¬ (i ≤ f ∧ f < i + 0) := by omega
      simp only [runMws]
      rw [if_neg this]
      simp [mwEvs]
  | rem + 1, i, st, hr => by
    have ih := runMws_spec rq onErr hret rem (i + 1)
    cases hf : rq.mwFail with
    | none =>
      simp only [runMws, hr, if_true, hf]
      have := ih (st.emit (.mwRan i st.scope st.ctxScope st.locScope)) (by simp [hr])
      simp only [hf] at this
      simp [this, St.emit_emits, mwEvs]
    | some f =>
      simp only [runMws, hr, if_true, hf]
      by_cases hfi : f = i
      · subst hfi
        have hc : (execE rq onErr (st.emit (.mwRan f st.scope st.ctxScope st.locScope))).ctl ≠ .run :=
          execE_ret_stops rq onErr hret _ (by simp [hr])
        have h1 : f ≤ f ∧ f < f + (rem + 1) := by omega
        simp only [if_true, runMws_stopped rq onErr rem (f + 1) _ hc, h1, and_self, Nat.sub_self, Nat.zero_add]
        simp [mwEvs, St.emits, St.emit]
      · have hne : ¬ (some f = some i) := by simpa using hfi
        simp only [hne, if_false]
        have := ih (st.emit (.mwRan i st.scope st.ctxScope st.locScope)) (by simp [hr])
        simp only [hf] at this
        rw [this]
        by_cases hin : i ≤ f ∧ f < i + (rem + 1)
        · have h2 : i + 1 ≤ f ∧ f < i + 1 + rem := by omega
          have h3 : f - i + 1 = (f - (i + 1) + 1) + 1 := by omega
          simp only [h2, hin, and_self, if_true, h3]
          simp [St.emit_emits, mwEvs]
        · have h2 : ¬ (i + 1 ≤ f ∧ f < i + 1 + rem) := by omega
          simp only [h2, hin, if_false]
          simp [St.emit_emits, mwEvs]

/-- how many configured middlewares run -/
def ranCount (rq : Req) : Nat :=
  match rq.mwFail with
  | some f => if f < rq.nMw then f + 1 else rq.nMw
  | none => rq.nMw

/-- does one of the configured middlewares fail -/
def mwFails (rq : Req) : Bool :=
  match rq.mwFail with
  | some f => decide (f < rq.nMw)
  | none => false

/-- the whole loop, from index 0 -/
theorem runMws_all (rq : Req) (onErr : List EStmt) (hret : EStmt.ret ∈ onErr) (st : St) (hr : st.ctl = .run) :
    runMws rq onErr rq.nMw 0 st =
      if mwFails rq then execE rq onErr (st.emits (mwEvs st.scope st.ctxScope st.locScope 0 (ranCount rq)))
      else st.emits (mwEvs st.scope st.ctxScope st.locScope 0 (ranCount rq)) := by
  rw [runMws_spec rq onErr hret _ _ st hr]
  unfold mwFails ranCount
  cases rq.mwFail with
  | none => simp
  | some f =>
    by_cases h : f < rq.nMw
    · simp [h]
    · simp [h]

end Godi.Mw
