import GodiProofs.Middleware.Loop
import GodiModel.MiddlewareAll
/-!
The abstract request trace (`specTrace`) — a declarative description of what one request through a
scope middleware must look like — and the refinement `generated term ⟶ specTrace` for each of the
five integrations. Everything C16 says is then proved once about `specTrace` (`Trace.lean`).
-/
namespace Godi.Mw

/-- the two shapes found in the sources: Close deferred right after creation (http, chi, gin, echo)
or called inline after `next` and in the error branch, with the scope also stored in the locals
(fiber) -/
inductive Style where
  | deferred | inline
  deriving DecidableEq, Repr

/-- what the routed handler does when the scope it can see is `sc` (locals: `loc`); the flag says
whether a panic leaves it -/
def downSpec (rq : Req) (sc loc : Option Sid) : List Ev × Bool :=
  match rq.down with
  | .plain => ([.handlerRan sc loc sc.isSome], rq.outcome = .panic)
  | .handle recovery resolveFails =>
    match sc with
    | none => ([.scopeErrHandler], false)
    | some s =>
      if resolveFails then ([.handleScope s, .resolutionErrHandler], false)
      else if rq.outcome = .panic then
        if recovery then ([.handleScope s, .handleResolved s, .methodCalled (some s) true, .panicHandler], false)
        else ([.handleScope s, .handleResolved s, .methodCalled (some s) true], true)
      else ([.handleScope s, .handleResolved s, .methodCalled (some s) true], false)

def closeEvs (rq : Req) (s : Sid) (report : Bool) : List Ev :=
  .scopeClosed s :: (if rq.closeErr && report then [.closeErrHandlerRan] else [])

/-- where the handler of an integration of style `sty` finds scope `s` in the framework locals -/
def locOf (sty : Style) (s : Sid) : Option Sid := if sty = .inline then some s else none

/-- what follows the configured middlewares of a request whose scope is `s` -/
def specTail (sty : Style) (rq : Req) (s : Sid) : List Ev :=
  if mwFails rq then
    match sty with
    | .deferred => .errorHandlerRan :: closeEvs rq s true
    | .inline => closeEvs rq s false ++ [.errorHandlerRan]
  else
    let d := downSpec rq (some s) (locOf sty s)
    if d.2 then
      match sty with
      | .deferred => d.1 ++ closeEvs rq s true ++ [.panicPropagated]
      | .inline => d.1 ++ [.panicPropagated] ++ closeEvs rq s false
    else d.1 ++ closeEvs rq s true

/-- the trace of one request whose `CreateScope` (if it succeeds) returns scope `s` -/
def specTrace (sty : Style) (rq : Req) (s : Sid) : List Ev :=
  if !rq.installed then
    (downSpec rq none none).1 ++ (if (downSpec rq none none).2 then [.panicPropagated] else [])
  else
    match rq.create with
    | .ok => .scopeCreated s :: (mwEvs (some s) (some s) (locOf sty s) 0 (ranCount rq) ++ specTail sty rq s)
    | _ => [.createFailed, .errorHandlerRan]

/-- C16 speaks about requests that pass the scope middleware: a scope already present in the
incoming context (`rq.outer`) is considered only for those (what a handler sees without the
middleware is not the middleware's doing) -/
def Req.WF (rq : Req) : Prop := rq.installed = false → rq.outer = none

def created (rq : Req) : Bool := rq.installed && rq.create = .ok

/-- an integration refines the spec: for every request, every fresh scope id and every set of
already closed scopes its trace is the specified one, it draws exactly one scope id iff a scope is
created, and that scope is closed afterwards -/
def Refines (I : Integration) (sty : Style) : Prop :=
  ∀ (rq : Req) (base : Sid) (closed : List Sid), base ∉ closed → rq.WF →
    (I.run rq base closed).trace = specTrace sty rq base ∧
    (I.run rq base closed).nextSid = (if created rq then base + 1 else base) ∧
    (I.run rq base closed).closed = (if created rq then base :: closed else closed)

end Godi.Mw
