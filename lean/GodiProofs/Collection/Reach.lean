import GodiProofs.Collection.Ops
import GodiProofs.Collection.Module
/-! The invariant holds in every state a history of calls can reach; heap frame lemmas. -/
namespace Godi.Coll
open Godi.Spec

theorem step_inv (c : Coll) (o : Op) (inv : Inv c) : Inv (step c o).1 := by
  cases o with
  | add r => exact (addService_spec c r inv).1
  | rm ty => exact removeKey_inv inv _
  | rmk ty k => exact removeKey_inv inv _

theorem runOps_inv (ops : List Op) : ∀ c, Inv c → Inv (runOps c ops).1 := by
  induction ops with
  | nil => intro c inv; exact inv
  | cons o rest ih =>
    intro c inv
    have h1 := step_inv c o inv
    unfold runOps
    cases hs : step c o with
    | mk c' r =>
      rw [hs] at h1
      cases r with
      | none =>
        simp only []
        have := ih c' h1
        cases hr : runOps c' rest with
        | mk c'' r2 =>
          rw [hr] at this
          cases r2 with
          | none => exact this
          | some ie => obtain ⟨i, e⟩ := ie; exact this
      | some e => exact h1

/-- `AddModules` leaves the collection the flattened direct calls leave -/
theorem addModules_state (c : Coll) (ms : Items) : (addModules c ms).1 = (runOps c (flattenItems ms)).1 := by
  have h1 := runAnn_items ms c []
  have h2 := runAnn_runOps (annotItems [] ms) c
  rw [h1] at h2
  have := congrArg Prod.fst h2
  simpa [addModules, flattenItems] using this

theorem call_inv (c : Coll) (x : Call) (inv : Inv c) : Inv (call c x) := by
  cases x with
  | op o => exact step_inv c o inv
  | mods ms =>
    show Inv (addModules c ms).1
    rw [addModules_state]; exact runOps_inv _ c inv

theorem runCalls_inv (cs : List Call) : ∀ c, Inv c → Inv (runCalls c cs) := by
  induction cs with
  | nil => intro c inv; exact inv
  | cons x rest ih => intro c inv; exact ih _ (call_inv c x inv)

theorem reachable_inv (cs : List Call) : Inv (runCalls empty cs) := runCalls_inv cs _ inv_empty

/-- a constructor runs at Build only if one of its descriptors is in the list Build iterates -/
theorem buildRuns_sound (l : List Desc) (n : Nat) (h : n ∈ buildRuns l) : ∃ d ∈ l, d.ctor = n := by
  unfold buildRuns at h
  simp only [List.mem_map, List.mem_filter] at h
  obtain ⟨d, ⟨hd, _⟩, rfl⟩ := h
  exact ⟨d, hd, rfl⟩

/-! ### references -/

theorem modify_fst {α} (h : Heap) (r : CollRef) (f : Coll → Coll × α) :
    (h.modify r f).1 = (h.store r (f (h.load r)).1).1 ∧ (h.modify r f).2.1 = (h.store r (f (h.load r)).1).2 := ⟨rfl, rfl⟩

theorem store_refs (h : Heap) (r : CollRef) (c : Coll) :
    (h.store r c).2.sref = r.sref ∧ (h.store r c).2.gref = r.gref ∧ (h.store r c).1.next = h.next := ⟨rfl, rfl, rfl⟩

theorem store_other (h : Heap) (r : CollRef) (c : Coll) :
    (∀ i, i ≠ r.sref → (h.store r c).1.smaps i = h.smaps i) ∧ (∀ i, i ≠ r.gref → (h.store r c).1.gmaps i = h.gmaps i) :=
  ⟨fun i hi => by simp [Heap.store, upd, hi], fun i hi => by simp [Heap.store, upd, hi]⟩

theorem load_store (h : Heap) (r : CollRef) (c : Coll) : (h.store r c).1.load (h.store r c).2 = c := by
  simp [Heap.store, Heap.load]

theorem runAll_cons (h : Heap) (r : CollRef) (f : Coll → Coll × Option Err) (rest : List (Coll → Coll × Option Err)) :
    h.runAll r (f :: rest) = (h.store r (f (h.load r)).1).1.runAll (h.store r (f (h.load r)).1).2 rest := rfl

/-- running operations through the references = running them on the value; other map objects of the
heap are not touched -/
theorem runAll_spec (fs : List (Coll → Coll × Option Err)) : ∀ (h : Heap) (r : CollRef),
    ((h.runAll r fs).1.load (h.runAll r fs).2 = applyAll (h.load r) fs) ∧
    (∀ i, i ≠ r.sref → (h.runAll r fs).1.smaps i = h.smaps i) ∧
    (∀ i, i ≠ r.gref → (h.runAll r fs).1.gmaps i = h.gmaps i) := by
  induction fs with
  | nil => intro h r; exact ⟨rfl, fun _ _ => rfl, fun _ _ => rfl⟩
  | cons f rest ih =>
    intro h r
    have hs := store_refs h r (f (h.load r)).1
    have ho := store_other h r (f (h.load r)).1
    have hl := load_store h r (f (h.load r)).1
    obtain ⟨i1, i2, i3⟩ := ih (h.store r (f (h.load r)).1).1 (h.store r (f (h.load r)).1).2
    rw [runAll_cons]
    refine ⟨?_, ?_, ?_⟩
    · rw [i1, hl]; rfl
    · intro i hi
      rw [i2 i (by rw [hs.1]; exact hi), ho.1 i hi]
    · intro i hi
      rw [i3 i (by rw [hs.2.1]; exact hi), ho.2 i hi]

end Godi.Coll
