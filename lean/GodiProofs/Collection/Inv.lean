import GodiProofs.Collection.Basic
/-!
# The invariant of the collection

`Inv c`: the two maps are *functions of the descriptor list* — `services[k]` is the service entry
of the list with identity `k`, `groups[g]` is the sub-list of members of `g` in list order — the
list holds at most one service per identity, pointers are pairwise distinct and fresh, and the key
lists enumerate exactly the keys present. Preserved by every operation; established by
`NewCollection`.
-/
namespace Godi.Coll
open Godi.Spec

structure Inv (c : Coll) : Prop where
  ids_lt : ∀ d ∈ c.reg.all, d.id < c.nextId
  ids_nodup : (c.reg.all.map (·.id)).Nodup
  svc_spec : ∀ k, c.reg.svc k = lookup c.reg.all k
  grp_spec : ∀ g, c.reg.grp g = members c.reg.all g
  uniq : Unique c.reg.all
  skeys_spec : ∀ k, k ∈ c.reg.skeys ↔ (c.reg.svc k).isSome = true
  skeys_nodup : c.reg.skeys.Nodup
  gkeys_spec : ∀ g, g ∈ c.reg.gkeys ↔ c.reg.grp g ≠ []
  gkeys_nodup : c.reg.gkeys.Nodup

theorem inv_empty : Inv empty := by
  refine ⟨?_, ?_, ?_, ?_, ?_, ?_, ?_, ?_, ?_⟩ <;> simp [empty, lookup, members, Unique]

/-- the maps of two registries coincide (the descriptor list may differ) -/
def MapsEq (r r' : Reg) : Prop :=
  r.skeys = r'.skeys ∧ r.svc = r'.svc ∧ r.gkeys = r'.gkeys ∧ r.grp = r'.grp

theorem MapsEq.refl (r : Reg) : MapsEq r r := ⟨rfl, rfl, rfl, rfl⟩
theorem MapsEq.trans {a b c : Reg} (h1 : MapsEq a b) (h2 : MapsEq b c) : MapsEq a c :=
  ⟨h1.1.trans h2.1, h1.2.1.trans h2.2.1, h1.2.2.1.trans h2.2.2.1, h1.2.2.2.trans h2.2.2.2⟩

theorem reg_ext {r r' : Reg} (h : MapsEq r r') (ha : r.all = r'.all) : r = r' := by
  cases r; cases r'
  obtain ⟨h1, h2, h3, h4⟩ := h
  simp only at h1 h2 h3 h4 ha
  subst h1 h2 h3 h4 ha
  rfl

theorem id_inj {c : Coll} (inv : Inv c) {x y : Desc} (hx : x ∈ c.reg.all) (hy : y ∈ c.reg.all)
    (h : x.id = y.id) : x = y := nodup_map_inj (·.id) inv.ids_nodup hx hy h

/-! ### `registerDescriptor` -/

/-- what a successful `registerDescriptor` did -/
structure Registered (c : Coll) (d0 : Desc) (c' : Coll) (d : Desc) : Prop where
  all_eq : c'.reg.all = c.reg.all ++ [d]
  id_eq : d.id = c.nextId
  next : c'.nextId = c.nextId + 1
  void_eq : c'.nextVoid = c.nextVoid
  ty_eq : d.ty = d0.ty
  grp_eq : d.grp = d0.grp
  ctor_eq : d.ctor = d0.ctor
  not_reserved : reserved d0.ty = false
  shape : (isSvc d = true ∧ d.key = d0.key ∧ c.reg.svc d.ident = none ∧ c'.reg.svc = upd c.reg.svc d.ident (some d) ∧
            c'.reg.grp = c.reg.grp ∧
            c'.reg.skeys = (if d.ident ∈ c.reg.skeys then c.reg.skeys else c.reg.skeys ++ [d.ident]) ∧
            c'.reg.gkeys = c.reg.gkeys) ∨
          (isMember d = true ∧ d0.key = .nil ∧ d0.grp ≠ 0 ∧ c'.reg.svc = c.reg.svc ∧
            c'.reg.grp = upd c.reg.grp d.gkey (c.reg.grp d.gkey ++ [d]) ∧
            c'.reg.skeys = c.reg.skeys ∧
            c'.reg.gkeys = (if d.gkey ∈ c.reg.gkeys then c.reg.gkeys else c.reg.gkeys ++ [d.gkey]))

theorem isSome_eq_false_iff {α} (o : Option α) : (o.isSome = false) ↔ o = none := by
  cases o <;> simp

theorem registerDescriptor_ok {c : Coll} {d0 : Desc} {c' : Coll} (hk : d0.key.isIdx = false)
    (h : registerDescriptor c d0 = .ok c') : ∃ d, Registered c d0 c' d := by
  unfold registerDescriptor at h
  split at h
  · cases h
  next hres =>
    simp only [] at h
    split at h
    next hpath =>
      split at h
      · split at h <;> cases h
      next hfree =>
        injection h with h; subst h
        refine ⟨{ d0 with id := c.nextId }, ⟨rfl, rfl, rfl, rfl, rfl, rfl, rfl, by simpa using hres, Or.inl ⟨?_, rfl, ?_, rfl, rfl, rfl, rfl⟩⟩⟩
        · simp [isSvc, hk]
        · simpa [isSome_eq_false_iff] using hfree
    next hpath =>
      injection h with h; subst h
      simp only [ne_eq, not_or, Decidable.not_not] at hpath
      refine ⟨{ d0 with id := c.nextId, key := .idx ((c.reg.grp (Desc.gkey { d0 with id := c.nextId })).length + 1) },
        ⟨rfl, rfl, rfl, rfl, rfl, rfl, rfl, by simpa using hres, Or.inr ⟨rfl, hpath.1, hpath.2, rfl, rfl, rfl, rfl⟩⟩⟩

/-- a successful registration keeps the invariant -/
theorem Registered.inv {c c' : Coll} {d0 d : Desc} (inv : Inv c) (r : Registered c d0 c' d) : Inv c' := by
  have hall := r.all_eq
  have hfresh : ∀ x ∈ c.reg.all, x.id ≠ d.id := fun x hx => by
    have := inv.ids_lt x hx; rw [r.id_eq]; omega
  have ids_lt : ∀ x ∈ c'.reg.all, x.id < c'.nextId := by
    intro x hx
    rw [hall] at hx
    rw [r.next]
    simp only [List.mem_append, List.mem_cons, List.not_mem_nil, or_false] at hx
    rcases hx with hx | rfl
    · have := inv.ids_lt x hx; omega
    · rw [r.id_eq]; omega
  have ids_nodup : (c'.reg.all.map (·.id)).Nodup := by
    rw [hall, List.map_append]
    refine List.nodup_append.2 ⟨inv.ids_nodup, by simp, ?_⟩
    intro a ha b hb
    simp only [List.map_cons, List.map_nil, List.mem_cons, List.not_mem_nil, or_false] at hb
    subst hb
    simp only [List.mem_map] at ha
    obtain ⟨x, hx, rfl⟩ := ha
    exact hfresh x hx
  rcases r.shape with ⟨hs, _, hfree, hsvc, hgrp, hskeys, hgkeys⟩ | ⟨hm, _, _, hsvc, hgrp, hskeys, hgkeys⟩
  · -- service path
    have hnone : lookup c.reg.all d.ident = none := by rw [← inv.svc_spec]; exact hfree
    have hmem : isMember d = false := by simpa [isSvc_not_member] using hs
    have hnotin : d.ident ∉ c.reg.skeys := by
      intro hin
      have := (inv.skeys_spec d.ident).1 hin
      rw [hfree] at this; cases this
    rw [if_neg hnotin] at hskeys
    refine ⟨ids_lt, ids_nodup, ?_, ?_, ?_, ?_, ?_, ?_, ?_⟩
    · intro k
      rw [hsvc, hall, lookup_append_single]
      by_cases hk : k = d.ident
      · subst hk
        rw [hnone]
        simp [upd, svcAt, hs]
      · rw [upd_ne _ _ hk, inv.svc_spec k]
        cases lookup c.reg.all k with
        | some x => rfl
        | none =>
          have : svcAt k d = false := by
            simp only [svcAt, Bool.and_eq_false_iff, decide_eq_false_iff_not]
            exact Or.inr (fun h => hk h.symm)
          simp [this]
    · intro g
      rw [hgrp, hall, members_append_single, inv.grp_spec g]
      simp [memberAt, hmem]
    · rw [hall]; exact unique_append_svc inv.uniq hs hnone
    · intro k
      rw [hskeys, hsvc]
      by_cases hk : k = d.ident
      · subst hk; simp
      · rw [upd_ne _ _ hk]
        simp only [List.mem_append, List.mem_cons, List.not_mem_nil, or_false, hk]
        exact inv.skeys_spec k
    · rw [hskeys]
      refine List.nodup_append.2 ⟨inv.skeys_nodup, by simp, ?_⟩
      intro a ha b hb
      simp only [List.mem_cons, List.not_mem_nil, or_false] at hb
      subst hb
      intro h; subst h; exact hnotin ha
    · intro g; rw [hgkeys, hgrp]; exact inv.gkeys_spec g
    · rw [hgkeys]; exact inv.gkeys_nodup
  · -- group path
    have hs : isSvc d = false := by simp [isSvc_not_member, hm]
    refine ⟨ids_lt, ids_nodup, ?_, ?_, ?_, ?_, ?_, ?_, ?_⟩
    · intro k
      rw [hsvc, hall, lookup_append_single, inv.svc_spec k]
      cases lookup c.reg.all k with
      | some x => rfl
      | none => simp [svcAt, hs]
    · intro g
      rw [hgrp, hall, members_append_single]
      by_cases hg : g = d.gkey
      · subst hg; simp [memberAt, hm, inv.grp_spec]
      · rw [upd_ne _ _ hg, inv.grp_spec g]
        have : memberAt g d = false := by
          simp only [memberAt, Bool.and_eq_false_iff, decide_eq_false_iff_not]
          exact Or.inr (fun h => hg h.symm)
        simp [this]
    · rw [hall]; exact unique_append_member inv.uniq hs
    · intro k; rw [hskeys, hsvc]; exact inv.skeys_spec k
    · rw [hskeys]; exact inv.skeys_nodup
    · intro g
      rw [hgkeys, hgrp]
      by_cases hg : g = d.gkey
      · subst hg
        simp only [upd_self, ne_eq, List.append_eq_nil_iff, List.cons_ne_self, and_false, not_false_eq_true, iff_true]
        split
        · assumption
        · simp
      · rw [upd_ne _ _ hg]
        have := inv.gkeys_spec g
        split
        · exact this
        · simp only [List.mem_append, List.mem_cons, List.not_mem_nil, or_false, hg]
          exact this
    · rw [hgkeys]
      split
      · exact inv.gkeys_nodup
      next hni =>
        refine List.nodup_append.2 ⟨inv.gkeys_nodup, by simp, ?_⟩
        intro a ha b hb
        simp only [List.mem_cons, List.not_mem_nil, or_false] at hb
        subst hb
        intro h; subst h; exact hni ha

end Godi.Coll
