import GodiProofs.Collection.Inv
/-! The list Build iterates is, up to order, the values of `services` together with the members of
all groups — nothing more, nothing twice. -/
namespace Godi.Coll
open Godi.Spec

theorem nodup_filterMap_of_leftInv {κ α} (f : κ → Option α) (g : α → κ) :
    ∀ (l : List κ), l.Nodup → (∀ k ∈ l, ∀ d, f k = some d → g d = k) → (l.filterMap f).Nodup := by
  intro l
  induction l with
  | nil => intro _ _; simp
  | cons a t ih =>
    intro hn hinv
    have hn' := List.nodup_cons.1 hn
    have iht := ih hn'.2 (fun k hk => hinv k (by simp [hk]))
    simp only [List.filterMap_cons]
    cases hfa : f a with
    | none => exact iht
    | some d =>
      refine List.nodup_cons.2 ⟨?_, iht⟩
      intro hmem
      simp only [List.mem_filterMap] at hmem
      obtain ⟨k, hk, hfk⟩ := hmem
      have h1 := hinv a (by simp) d hfa
      have h2 := hinv k (by simp [hk]) d hfk
      exact hn'.1 (by rw [← h1, h2]; exact hk)

theorem nodup_flatMap_of_key {κ α} (f : κ → List α) (g : α → κ) :
    ∀ (l : List κ), l.Nodup → (∀ k ∈ l, (f k).Nodup) → (∀ k ∈ l, ∀ d ∈ f k, g d = k) → (l.flatMap f).Nodup := by
  intro l
  induction l with
  | nil => intro _ _ _; simp
  | cons a t ih =>
    intro hn h1 h2
    have hn' := List.nodup_cons.1 hn
    simp only [List.flatMap_cons]
    refine List.nodup_append.2 ⟨h1 a (by simp), ih hn'.2 (fun k hk => h1 k (by simp [hk])) (fun k hk => h2 k (by simp [hk])), ?_⟩
    intro x hx y hy hxy
    subst hxy
    simp only [List.mem_flatMap] at hy
    obtain ⟨k, hk, hxk⟩ := hy
    have e1 := h2 a (by simp) x hx
    have e2 := h2 k (by simp [hk]) x hxk
    exact hn'.1 (by rw [← e1, e2]; exact hk)

theorem all_nodup {c : Coll} (inv : Inv c) : c.reg.all.Nodup := nodup_of_nodup_map _ inv.ids_nodup

/-- every entry of the list is reached through exactly one of the two maps -/
theorem entry_in_view {c : Coll} (inv : Inv c) (d : Desc) (hd : d ∈ c.reg.all) :
    (isSvc d = true ∧ c.reg.svc d.ident = some d) ∨ (isMember d = true ∧ d ∈ c.reg.grp d.gkey) := by
  by_cases hs : isSvc d = true
  · exact Or.inl ⟨hs, by rw [inv.svc_spec]; exact lookup_of_mem inv.uniq hd hs⟩
  · have hm : isMember d = true := by simpa [isSvc_not_member] using hs
    exact Or.inr ⟨hm, by rw [inv.grp_spec]; exact mem_members.2 ⟨hd, hm, rfl⟩⟩

theorem views_perm {c : Coll} (inv : Inv c) :
    c.reg.all.Perm (c.reg.skeys.filterMap c.reg.svc ++ c.reg.gkeys.flatMap c.reg.grp) := by
  have hsv : ∀ k d, c.reg.svc k = some d → d ∈ c.reg.all ∧ isSvc d = true ∧ d.ident = k := by
    intro k d h; rw [inv.svc_spec] at h; exact lookup_some h
  have hgr : ∀ g d, d ∈ c.reg.grp g → d ∈ c.reg.all ∧ isMember d = true ∧ d.gkey = g := by
    intro g d h; rw [inv.grp_spec] at h; exact mem_members.1 h
  apply (List.perm_ext_iff_of_nodup (all_nodup inv) ?_).2
  · intro d
    simp only [List.mem_append, List.mem_filterMap, List.mem_flatMap]
    constructor
    · intro hd
      rcases entry_in_view inv d hd with ⟨_, h⟩ | ⟨_, h⟩
      · exact Or.inl ⟨d.ident, (inv.skeys_spec _).2 (by rw [h]; rfl), h⟩
      · exact Or.inr ⟨d.gkey, (inv.gkeys_spec _).2 (fun he => by rw [he] at h; cases h), h⟩
    · rintro (⟨k, _, h⟩ | ⟨g, _, h⟩)
      · exact (hsv k d h).1
      · exact (hgr g d h).1
  · refine List.nodup_append.2 ⟨?_, ?_, ?_⟩
    · exact nodup_filterMap_of_leftInv _ Desc.ident _ inv.skeys_nodup (fun k _ d h => (hsv k d h).2.2)
    · refine nodup_flatMap_of_key _ Desc.gkey _ inv.gkeys_nodup ?_ (fun g _ d h => (hgr g d h).2.2)
      intro g _
      rw [inv.grp_spec, members_def]
      exact List.Nodup.sublist List.filter_sublist (all_nodup inv)
    · intro x hx y hy hxy
      subst hxy
      simp only [List.mem_filterMap] at hx
      simp only [List.mem_flatMap] at hy
      obtain ⟨k, _, hk⟩ := hx
      obtain ⟨g, _, hg⟩ := hy
      have h1 := (hsv k x hk).2.1
      have h2 := (hgr g x hg).2.1
      rw [isSvc_not_member, h2] at h1
      cases h1

end Godi.Coll
