import GodiModel.Collection
import GodiModel.Spec.Registry
/-! List facts about the registry spec (`lookup`, `members`, `Unique`) used by the invariant. -/
namespace Godi.Coll
open Godi.Spec

theorem nodup_map_inj {α β} (f : α → β) : ∀ {l : List α}, (l.map f).Nodup →
    ∀ {x y}, x ∈ l → y ∈ l → f x = f y → x = y := by
  intro l
  induction l with
  | nil => intro _ x y hx; cases hx
  | cons a t ih =>
    intro h x y hx hy hxy
    simp only [List.map_cons, List.nodup_cons, List.mem_map, not_exists, not_and] at h
    simp only [List.mem_cons] at hx hy
    rcases hx with rfl | hx <;> rcases hy with rfl | hy
    · rfl
    · exact absurd hxy.symm (h.1 y hy)
    · exact absurd hxy (h.1 x hx)
    · exact ih h.2 hx hy hxy

theorem nodup_of_nodup_map {α β} (f : α → β) : ∀ {l : List α}, (l.map f).Nodup → l.Nodup := by
  intro l
  induction l with
  | nil => intro _; exact List.nodup_nil
  | cons a t ih =>
    intro h
    simp only [List.map_cons, List.nodup_cons, List.mem_map, not_exists, not_and] at h
    exact List.nodup_cons.2 ⟨fun hm => h.1 a hm rfl, ih h.2⟩

/-! ### `lookup` -/

def svcAt (k : Ident) (d : Desc) : Bool := isSvc d && decide (d.ident = k)

theorem lookup_def (l : Registry) (k : Ident) : lookup l k = l.find? (svcAt k) := rfl

theorem lookup_append_single (l : Registry) (d : Desc) (k : Ident) :
    lookup (l ++ [d]) k = match lookup l k with
      | some x => some x
      | none => if svcAt k d then some d else none := by
  simp only [lookup_def, List.find?_append]
  cases h : l.find? (svcAt k) with
  | some x => rfl
  | none =>
    simp only [Option.none_or, List.find?_cons]
    cases svcAt k d <;> rfl

theorem lookup_none {l : Registry} {k : Ident} (h : lookup l k = none) :
    ∀ x ∈ l, ¬ (isSvc x = true ∧ x.ident = k) := by
  intro x hx ⟨h1, h2⟩
  have := (List.find?_eq_none.1 h) x hx
  simp [svcAt, h1, h2] at this

theorem lookup_some {l : Registry} {k : Ident} {d : Desc} (h : lookup l k = some d) :
    d ∈ l ∧ isSvc d = true ∧ d.ident = k := by
  have h1 := List.mem_of_find?_eq_some h
  have h2 := List.find?_some h
  simp only [Bool.and_eq_true, decide_eq_true_eq] at h2
  exact ⟨h1, h2.1, h2.2⟩

/-- under uniqueness, a service entry of the list is what `lookup` finds -/
theorem lookup_of_mem {l : Registry} (hu : Unique l) {d : Desc} (hd : d ∈ l) (hs : isSvc d = true) :
    lookup l d.ident = some d := by
  cases h : lookup l d.ident with
  | none => exact absurd ⟨hs, rfl⟩ (lookup_none h d hd)
  | some x =>
    obtain ⟨hx, hxs, hxi⟩ := lookup_some h
    have : x = d := by
      apply nodup_map_inj Desc.ident hu
      · exact List.mem_filter.2 ⟨hx, hxs⟩
      · exact List.mem_filter.2 ⟨hd, hs⟩
      · exact hxi
    rw [this]

/-! ### `members` -/

def memberAt (g : GKey) (d : Desc) : Bool := isMember d && decide (d.gkey = g)

theorem members_def (l : Registry) (g : GKey) : members l g = l.filter (memberAt g) := rfl

theorem members_append_single (l : Registry) (d : Desc) (g : GKey) :
    members (l ++ [d]) g = members l g ++ (if memberAt g d then [d] else []) := by
  simp only [members_def, List.filter_append, List.filter_cons, List.filter_nil]

theorem mem_members {l : Registry} {g : GKey} {d : Desc} :
    d ∈ members l g ↔ d ∈ l ∧ isMember d = true ∧ d.gkey = g := by
  simp [members_def, memberAt, List.mem_filter]

theorem isSvc_not_member (d : Desc) : isSvc d = !isMember d := rfl

/-! ### `Unique` -/

theorem unique_append_svc {l : Registry} (hu : Unique l) {d : Desc} (hs : isSvc d = true)
    (hn : lookup l d.ident = none) : Unique (l ++ [d]) := by
  unfold Unique at *
  simp only [List.filter_append, List.filter_cons, hs, List.filter_nil, if_true, List.map_append, List.map_cons, List.map_nil]
  refine List.nodup_append.2 ⟨hu, List.nodup_cons.2 ⟨by simp, List.nodup_nil⟩, ?_⟩
  intro a ha b hb
  simp only [List.mem_cons, List.not_mem_nil, or_false] at hb
  subst hb
  intro heq
  simp only [List.mem_map, List.mem_filter] at ha
  obtain ⟨x, ⟨hx, hxs⟩, hxi⟩ := ha
  exact lookup_none hn x hx ⟨hxs, by rw [hxi, heq]⟩

theorem unique_append_member {l : Registry} (hu : Unique l) {d : Desc} (hm : isSvc d = false) :
    Unique (l ++ [d]) := by
  unfold Unique at *
  simp only [List.filter_append, List.filter_cons, hm, List.filter_nil, List.append_nil]
  simpa using hu

theorem unique_filter {l : Registry} (hu : Unique l) (p : Desc → Bool) : Unique (l.filter p) := by
  unfold Unique at *
  refine List.Nodup.sublist ?_ hu
  exact List.Sublist.map _ (List.Sublist.filter _ List.filter_sublist)

end Godi.Coll
