import GodiProofs.Collection.Reject
/-! An accepted call registers exactly the outputs it asked for, in order. -/
namespace Godi.Coll
open Godi.Spec

/-- type, group and constructor of a descriptor: what a request fixes for each of its outputs
(the key of a group member is assigned at registration) -/
def Desc.sig (d : Desc) : Nat × Nat × Nat := (d.ty, d.grp, d.ctor)

theorem registerEach_accepts (op : String) : ∀ (items : List Item) (c : Coll), Inv c →
    (∀ it ∈ items, it.d.key.isIdx = false) → (registerEach op c items).2 = none →
    ∃ news, (registerEach op c items).1.reg.all = c.reg.all ++ news ∧
      news.map Desc.sig = items.map (fun it => it.d.sig) ∧
      ∀ p ∈ news.zip items, svcPath p.2.d → p.1.key = p.2.d.key := by
  intro items
  induction items with
  | nil => intro c _ _ _; exact ⟨[], by simp [registerEach], rfl, by simp⟩
  | cons it rest ih =>
    intro c inv hk
    unfold registerEach
    split
    · intro h; cases h
    · split
      · intro h; cases h
      next c1 hc1 =>
        intro hres
        obtain ⟨d, hr⟩ := registerDescriptor_ok (hk it (by simp)) hc1
        obtain ⟨news, h1, h2, h3⟩ := ih c1 (hr.inv inv) (fun x hx => hk x (by simp [hx])) hres
        refine ⟨d :: news, by rw [h1, hr.all_eq]; simp, ?_, ?_⟩
        · simp only [List.map_cons, h2, Desc.sig, hr.ty_eq, hr.grp_eq, hr.ctor_eq]
        · intro p hp
          simp only [List.zip_cons_cons, List.mem_cons] at hp
          rcases hp with rfl | hp
          · intro hsp
            rcases hr.shape with ⟨_, hkey, _⟩ | ⟨_, hnil, hg, _⟩
            · exact hkey
            · exfalso
              rcases hsp with h | h
              · exact h hnil
              · exact hg h
          · exact h3 p hp

/-- "nothing that is still registered stores an output under an identity held by another
registration (or by none)", for a given account of what an invocation stores -/
def NoGhostWith (outs : List Desc → Desc → List (Nat × Key × Nat)) (reg : Registry) : Prop :=
  ∀ d ∈ reg, ∀ s ∈ outs reg d, (lookup reg (s.1, s.2.1)).map (·.ctor) = some d.ctor

/-- with the storing rule of the repaired `createInstance` the clause holds for every registry -/
theorem noGhost_storeOuts (reg : Registry) : NoGhostWith storeOuts reg := by
  intro d _ s hs
  unfold storeOuts at hs
  simp only [List.mem_filter, beq_iff_eq] at hs
  exact hs.2

end Godi.Coll
