import GodiProofs.Collection.Inv
/-!
# Every operation of the collection keeps the invariant; a rejected `addService` restores the registry

* `removeKey_inv`, `removeKey_all`: Remove/RemoveKeyed = dropping the identity from the list.
* `undo`: `rollbackOne` applied to the descriptor registered last restores the maps.
* `registerEach_spec`: the fan-out loop appends what it registered, and undoing those newest first
  restores the maps it started from.
* `addService_spec`: accepted ⇒ appended; rejected ⇒ the registry is the one before the call.
-/
namespace Godi.Coll
open Godi.Spec

/-! ### Remove -/

theorem removeKey_absent {c : Coll} {k : Ident} (h : c.reg.svc k = none) : removeKey c k = c := by
  unfold removeKey; rw [h]

theorem removeKey_present {c : Coll} {k : Ident} {d : Desc} (h : c.reg.svc k = some d) :
    removeKey c k = { c with reg := { c.reg.delSvc k with all := c.reg.all.filter (fun x => x.id != d.id) } } := by
  unfold removeKey; rw [h]

/-- the pointer-based deletion is the removal of the identity from the list -/
theorem removeKey_all {c : Coll} (inv : Inv c) (k : Ident) :
    (removeKey c k).reg.all = removeIdent c.reg.all k := by
  cases h : c.reg.svc k with
  | none =>
    rw [removeKey_absent h]
    have hn : lookup c.reg.all k = none := by rw [← inv.svc_spec]; exact h
    unfold removeIdent
    symm
    apply List.filter_eq_self.2
    intro x hx
    have := lookup_none hn x hx
    simp only [Bool.not_eq_true', Bool.and_eq_false_iff, decide_eq_false_iff_not]
    by_cases hs : isSvc x = true
    · exact Or.inr (fun hi => this ⟨hs, hi⟩)
    · exact Or.inl (by simpa using hs)
  | some d =>
    rw [removeKey_present h]
    have hl : lookup c.reg.all k = some d := by rw [← inv.svc_spec]; exact h
    obtain ⟨hd, hds, hdi⟩ := lookup_some hl
    show c.reg.all.filter (fun x => x.id != d.id) = removeIdent c.reg.all k
    unfold removeIdent
    apply List.filter_congr
    intro x hx
    by_cases hxd : x = d
    · subst hxd; simp [hds, hdi]
    · have h1 : x.id ≠ d.id := fun hid => hxd (id_inj inv hx hd hid)
      have h2 : ¬ (isSvc x = true ∧ x.ident = k) := by
        intro ⟨hxs, hxi⟩
        apply hxd
        apply nodup_map_inj Desc.ident inv.uniq
        · exact List.mem_filter.2 ⟨hx, hxs⟩
        · exact List.mem_filter.2 ⟨hd, hds⟩
        · rw [hxi, hdi]
      have e1 : (x.id != d.id) = true := by simpa [bne_iff_ne] using h1
      have e2 : (isSvc x && decide (x.ident = k)) = false := by
        simp only [Bool.and_eq_false_iff, decide_eq_false_iff_not]
        by_cases hs : isSvc x = true
        · exact Or.inr (fun hi => h2 ⟨hs, hi⟩)
        · exact Or.inl (by simpa using hs)
      rw [e1, e2]; rfl

theorem lookup_removeIdent (l : Registry) (k k' : Ident) :
    lookup (removeIdent l k) k' = if k' = k then none else lookup l k' := by
  unfold removeIdent
  rw [lookup_def, List.find?_filter]
  by_cases hk : k' = k
  · subst hk
    simp only [if_true]
    apply List.find?_eq_none.2
    intro x _
    cases hb : (isSvc x && decide (x.ident = k')) <;> simp [svcAt, hb]
  · simp only [hk, if_false, lookup_def]
    congr 1
    funext a
    cases hsv : svcAt k' a with
    | false => simp
    | true =>
      have hid : a.ident = k' := by
        simp only [svcAt, Bool.and_eq_true, decide_eq_true_eq] at hsv
        exact hsv.2
      have hne : (isSvc a && decide (a.ident = k)) = false := by
        simp only [Bool.and_eq_false_iff, decide_eq_false_iff_not]
        exact Or.inr (fun h => hk (hid.symm.trans h))
      simp [hne]

theorem members_removeIdent (l : Registry) (k : Ident) (g : GKey) :
    members (removeIdent l k) g = members l g := by
  unfold removeIdent
  rw [members_def, List.filter_filter, members_def]
  congr 1
  funext a
  simp only [memberAt, isSvc_not_member]
  cases isMember a <;> simp

theorem removeKey_inv {c : Coll} (inv : Inv c) (k : Ident) : Inv (removeKey c k) := by
  have hall := removeKey_all inv k
  cases h : c.reg.svc k with
  | none => rw [removeKey_absent h]; exact inv
  | some d =>
    have hrk := removeKey_present h
    rw [hrk] at hall ⊢
    simp only at hall
    have hsub : (c.reg.all.filter (fun x => x.id != d.id)).Sublist c.reg.all := List.filter_sublist
    refine ⟨?_, ?_, ?_, ?_, ?_, ?_, ?_, ?_, ?_⟩
    · intro x hx; exact inv.ids_lt x (hsub.subset hx)
    · exact List.Nodup.sublist (List.Sublist.map _ hsub) inv.ids_nodup
    · intro k'
      show upd c.reg.svc k none k' = lookup (c.reg.all.filter (fun x => x.id != d.id)) k'
      rw [hall, lookup_removeIdent]
      by_cases hk : k' = k
      · subst hk; simp
      · rw [upd_ne _ _ hk, if_neg hk]; exact inv.svc_spec k'
    · intro g
      show c.reg.grp g = members (c.reg.all.filter (fun x => x.id != d.id)) g
      rw [hall, members_removeIdent]; exact inv.grp_spec g
    · exact unique_filter inv.uniq _
    · intro k'
      show k' ∈ c.reg.skeys.erase k ↔ (upd c.reg.svc k none k').isSome = true
      rw [List.Nodup.mem_erase_iff inv.skeys_nodup]
      by_cases hk : k' = k
      · subst hk; simp
      · rw [upd_ne _ _ hk]; simp only [ne_eq, hk, not_false_eq_true, true_and]; exact inv.skeys_spec k'
    · exact List.Nodup.erase _ inv.skeys_nodup
    · exact inv.gkeys_spec
    · exact inv.gkeys_nodup

theorem removeKey_counters (c : Coll) (k : Ident) :
    (removeKey c k).nextId = c.nextId ∧ (removeKey c k).nextVoid = c.nextVoid := by
  unfold removeKey; split <;> exact ⟨rfl, rfl⟩

/-! ### rollback -/

theorem rollbackSvc_all (r : Reg) (d : Desc) : (rollbackSvc r d).all = r.all := by
  unfold rollbackSvc
  split
  · split <;> rfl
  · rfl

theorem rollbackOne_all (r : Reg) (d : Desc) : (rollbackOne r d).all = r.all := by
  unfold rollbackOne
  simp only []
  split
  · split
    · split <;> rfl
    · exact rollbackSvc_all r d
  · exact rollbackSvc_all r d

theorem rollbackSvc_congr {r r' : Reg} (h : MapsEq r r') (d : Desc) : MapsEq (rollbackSvc r d) (rollbackSvc r' d) := by
  have : r = { r' with all := r.all } := reg_ext h rfl
  rw [this]
  unfold rollbackSvc
  simp only []
  split
  · split <;> exact ⟨rfl, rfl, rfl, rfl⟩
  · exact ⟨rfl, rfl, rfl, rfl⟩

theorem rollbackOne_congr {r r' : Reg} (h : MapsEq r r') (d : Desc) : MapsEq (rollbackOne r d) (rollbackOne r' d) := by
  have hs := rollbackSvc_congr h d
  have : r = { r' with all := r.all } := reg_ext h rfl
  rw [this] at hs ⊢
  unfold rollbackOne
  simp only []
  split
  · split
    · split <;> exact ⟨rfl, rfl, rfl, rfl⟩
    · exact hs
  · exact hs

theorem foldl_rollback_all (l : List Desc) : ∀ r : Reg, (l.foldl rollbackOne r).all = r.all := by
  induction l with
  | nil => intro r; rfl
  | cons d t ih => intro r; rw [List.foldl_cons, ih, rollbackOne_all]

theorem foldl_rollback_congr (l : List Desc) : ∀ {r r' : Reg}, MapsEq r r' →
    MapsEq (l.foldl rollbackOne r) (l.foldl rollbackOne r') := by
  induction l with
  | nil => intro r r' h; exact h
  | cons d t ih => intro r r' h; exact ih (rollbackOne_congr h d)

theorem upd_upd_restore {κ α} [DecidableEq κ] (f : κ → α) (k : κ) (v : α) : upd (upd f k v) k (f k) = f := by
  funext x
  by_cases h : x = k
  · subst h; simp
  · simp [upd, h]

/-- undoing the registration made last restores the maps -/
theorem undo_last {c c' : Coll} {d0 d : Desc} (inv : Inv c) (r : Registered c d0 c' d) :
    MapsEq (rollbackOne c'.reg d) c.reg := by
  have hfresh : ∀ x ∈ c.reg.all, x.id ≠ d.id := fun x hx => by
    have := inv.ids_lt x hx; rw [r.id_eq]; omega
  rcases r.shape with ⟨hs, _, hfree, hsvc, hgrp, hskeys, hgkeys⟩ | ⟨hm, _, _, hsvc, hgrp, hskeys, hgkeys⟩
  · -- service path: the group test fails (all members are older), the services test succeeds
    have hnotin : d.ident ∉ c.reg.skeys := by
      intro hin
      have := (inv.skeys_spec d.ident).1 hin
      rw [hfree] at this; cases this
    rw [if_neg hnotin] at hskeys
    have hvia : rollbackSvc c'.reg d = c'.reg.delSvc d.ident := by
      unfold rollbackSvc; rw [hsvc]; simp
    have hres : MapsEq (c'.reg.delSvc d.ident) c.reg := by
      refine ⟨?_, ?_, hgkeys, hgrp⟩
      · show c'.reg.skeys.erase d.ident = c.reg.skeys
        rw [hskeys, List.erase_append_right _ hnotin]; simp
      · show upd c'.reg.svc d.ident none = c.reg.svc
        rw [hsvc, ← hfree]; exact upd_upd_restore _ _ _
    unfold rollbackOne
    simp only []
    split
    next m hm =>
      have hmem : m ∈ c.reg.all := by
        have : m ∈ c'.reg.grp d.gkey := by
          obtain ⟨ys, hys⟩ := List.getLast?_eq_some_iff.1 hm
          rw [hys]; simp
        rw [hgrp, inv.grp_spec] at this
        exact (mem_members.1 this).1
      rw [if_neg (hfresh m hmem), hvia]; exact hres
    next => rw [hvia]; exact hres
  · -- group path: the descriptor is the last member of its group
    have hlast : (c'.reg.grp d.gkey).getLast? = some d := by rw [hgrp]; simp
    unfold rollbackOne
    simp only []
    rw [hlast]
    simp only [if_true]
    split
    next hlen =>
      -- it was the only member: the key is deleted
      have hempty : c.reg.grp d.gkey = [] := by
        rw [hgrp] at hlen
        simp only [upd_self, List.length_append, List.length_cons, List.length_nil] at hlen
        exact List.length_eq_zero_iff.1 (by omega)
      have hnotin : d.gkey ∉ c.reg.gkeys := fun hin => (inv.gkeys_spec d.gkey).1 hin hempty
      rw [if_neg hnotin] at hgkeys
      refine ⟨hskeys, hsvc, ?_, ?_⟩
      · show c'.reg.gkeys.erase d.gkey = c.reg.gkeys
        rw [hgkeys, List.erase_append_right _ hnotin]; simp
      · show upd c'.reg.grp d.gkey [] = c.reg.grp
        rw [hgrp, ← hempty]; exact upd_upd_restore _ _ _
    next hlen =>
      have hne : c.reg.grp d.gkey ≠ [] := by
        intro he
        apply hlen
        rw [hgrp]; simp [he]
      have hin : d.gkey ∈ c.reg.gkeys := (inv.gkeys_spec d.gkey).2 hne
      rw [if_pos hin] at hgkeys
      refine ⟨hskeys, hsvc, ?_, ?_⟩
      · show (if d.gkey ∈ c'.reg.gkeys then c'.reg.gkeys else c'.reg.gkeys ++ [d.gkey]) = c.reg.gkeys
        rw [hgkeys, if_pos hin]
      · show upd c'.reg.grp d.gkey (c'.reg.grp d.gkey).dropLast = c.reg.grp
        rw [hgrp]
        simp only [upd_self, List.dropLast_concat]
        exact upd_upd_restore _ _ _

/-! ### the fan-out loop -/

/-- what a run of operations that only register did: appended `news`; undoing them newest first
gives back the maps; counters only grow -/
structure Appended (c c' : Coll) (news : List Desc) : Prop where
  all_eq : c'.reg.all = c.reg.all ++ news
  undo : MapsEq (news.reverse.foldl rollbackOne c'.reg) c.reg
  next_le : c.nextId ≤ c'.nextId
  void_eq : c'.nextVoid = c.nextVoid

theorem Appended.refl (c : Coll) : Appended c c [] := ⟨by simp, MapsEq.refl _, Nat.le_refl _, rfl⟩

theorem Appended.cons {c c1 c' : Coll} {d0 d : Desc} {news : List Desc} (inv : Inv c)
    (r : Registered c d0 c1 d) (a : Appended c1 c' news) : Appended c c' (d :: news) := by
  refine ⟨?_, ?_, ?_, ?_⟩
  · rw [a.all_eq, r.all_eq]; simp
  · rw [List.reverse_cons, List.foldl_append]
    simp only [List.foldl_cons, List.foldl_nil]
    exact (rollbackOne_congr a.undo d).trans (undo_last inv r)
  · have := r.next; have := a.next_le; omega
  · rw [a.void_eq, r.void_eq]

theorem registerEach_spec (op : String) : ∀ (items : List Item) (c : Coll), Inv c →
    (∀ it ∈ items, it.d.key.isIdx = false) →
    Inv (registerEach op c items).1 ∧ ∃ news, Appended c (registerEach op c items).1 news := by
  intro items
  induction items with
  | nil => intro c inv _; exact ⟨inv, [], Appended.refl c⟩
  | cons it rest ih =>
    intro c inv hk
    unfold registerEach
    split
    · exact ⟨inv, [], Appended.refl c⟩
    · split
      next e he => exact ⟨inv, [], Appended.refl c⟩
      next c1 hc1 =>
        obtain ⟨d, hr⟩ := registerDescriptor_ok (hk it (by simp)) hc1
        have inv1 := hr.inv inv
        obtain ⟨inv', news, ha⟩ := ih c1 inv1 (fun x hx => hk x (by simp [hx]))
        exact ⟨inv', d :: news, Appended.cons inv hr ha⟩

/-! ### `addService` -/

theorem keyOfName_not_idx (n : Nat) : (keyOfName n).isIdx = false := by
  unfold keyOfName; split <;> rfl

theorem retItems_not_idx (r : Req) : ∀ (rets : List Nat) (i : Nat), ∀ it ∈ retItems r i rets, it.d.key.isIdx = false := by
  intro rets
  induction rets with
  | nil => intro i it h; cases h
  | cons t rest ih =>
    intro i it h
    unfold retItems at h
    simp only [List.mem_cons] at h
    rcases h with rfl | h
    · simp only []; split
      · exact keyOfName_not_idx _
      · rfl
    · exact ih (i + 1) it h

theorem linkSiblings_key (items : List Item) (h : ∀ it ∈ items, it.d.key.isIdx = false) :
    ∀ it ∈ linkSiblings items, it.d.key.isIdx = false := by
  intro it hit
  unfold linkSiblings at hit
  simp only [List.mem_map] at hit
  obtain ⟨x, hx, rfl⟩ := hit
  exact h x hx

theorem fanout_not_idx (r : Req) (key0 : Key) (hk0 : key0.isIdx = false) {op : String} {items : List Item}
    (h : r.fanout key0 = some (op, items)) : ∀ it ∈ items, it.d.key.isIdx = false := by
  unfold Req.fanout at h
  split at h
  · injection h with h; injection h with _ h; subst h
    apply linkSiblings_key
    intro it hit
    unfold Req.fieldItems at hit
    simp only [List.mem_map] at hit
    obtain ⟨f, _, rfl⟩ := hit
    exact keyOfName_not_idx _
  · split at h
    · injection h with h; injection h with _ h; subst h
      exact linkSiblings_key _ (retItems_not_idx r _ _)
    · split at h
      · injection h with h; injection h with _ h; subst h
        apply linkSiblings_key
        intro it hit
        unfold Req.asItems at hit
        simp only [List.mem_map] at hit
        obtain ⟨⟨ity, impl⟩, _, rfl⟩ := hit
        exact hk0
      · cases h

theorem addLocked_spec (c : Coll) (r : Req) (key0 : Key) (inv : Inv c) (hk0 : key0.isIdx = false) :
    Inv (addLocked c r key0).1 ∧ ∃ news, Appended c (addLocked c r key0).1 news := by
  unfold addLocked
  split
  · exact ⟨inv, [], Appended.refl c⟩
  · split
    next op items hf => exact registerEach_spec op items c inv (fanout_not_idx r key0 hk0 hf)
    next hf =>
      simp only []
      split
      next c' hc' =>
        obtain ⟨d, hr⟩ := registerDescriptor_ok (by exact hk0) hc'
        exact ⟨hr.inv inv, [d], Appended.cons inv hr (Appended.refl c')⟩
      next e he => exact ⟨inv, [], Appended.refl c⟩

/-- `preChecks` touches nothing but the void-key counter, and the key it computes is never a
group-member number -/
theorem drawVoid_spec (r : Req) (c : Coll) :
    (r.drawVoid c).reg = c.reg ∧ (r.drawVoid c).nextId = c.nextId := by
  unfold Req.drawVoid; split <;> exact ⟨rfl, rfl⟩

theorem key0_not_idx (r : Req) (c : Coll) : (r.key0 c).isIdx = false := by
  unfold Req.key0
  split
  · rfl
  · split <;> rfl

theorem preChecks_cases (c : Coll) (r : Req) :
    ((preChecks c r).1 = c ∨ (preChecks c r).1 = r.drawVoid c) ∧
    ∀ k, (preChecks c r).2 = .ok k → k = r.key0 (r.drawVoid c) := by
  unfold preChecks
  split
  · exact ⟨Or.inl rfl, fun k h => by cases h⟩
  · split
    · exact ⟨Or.inl rfl, fun k h => by cases h⟩
    · split
      · exact ⟨Or.inl rfl, fun k h => by cases h⟩
      · split
        · exact ⟨Or.inl rfl, fun k h => by cases h⟩
        · simp only []
          split
          · exact ⟨Or.inr rfl, fun k h => by cases h⟩
          · split
            · exact ⟨Or.inr rfl, fun k h => by cases h⟩
            · exact ⟨Or.inr rfl, fun k h => by injection h with h; exact h.symm⟩

/-- `preChecks` touches nothing but the void-key counter, and the key it computes is never a
group-member number -/
theorem preChecks_spec (c : Coll) (r : Req) :
    (preChecks c r).1.reg = c.reg ∧ (preChecks c r).1.nextId = c.nextId ∧
    ∀ k, (preChecks c r).2 = .ok k → k.isIdx = false := by
  obtain ⟨h1, h2⟩ := preChecks_cases c r
  refine ⟨?_, ?_, ?_⟩
  · rcases h1 with h | h <;> rw [h]
    exact (drawVoid_spec r c).1
  · rcases h1 with h | h <;> rw [h]
    exact (drawVoid_spec r c).2
  · intro k hk; rw [h2 k hk]; exact key0_not_idx _ _

theorem inv_of_reg_eq {c c' : Coll} (inv : Inv c) (hr : c'.reg = c.reg) (hn : c.nextId ≤ c'.nextId) : Inv c' := by
  refine ⟨?_, ?_, ?_, ?_, ?_, ?_, ?_, ?_, ?_⟩
  · intro d hd; rw [hr] at hd; have := inv.ids_lt d hd; omega
  · rw [hr]; exact inv.ids_nodup
  · rw [hr]; exact inv.svc_spec
  · rw [hr]; exact inv.grp_spec
  · rw [hr]; exact inv.uniq
  · rw [hr]; exact inv.skeys_spec
  · rw [hr]; exact inv.skeys_nodup
  · rw [hr]; exact inv.gkeys_spec
  · rw [hr]; exact inv.gkeys_nodup

/-- `rollbackTo` at the mark taken before the registrations restores the registry -/
theorem rollbackTo_restores {c c' : Coll} {news : List Desc} (a : Appended c c' news) :
    rollbackTo c'.reg c.reg.all.length = c.reg := by
  unfold rollbackTo
  simp only []
  have hdrop : c'.reg.all.drop c.reg.all.length = news := by rw [a.all_eq]; exact List.drop_left
  rw [hdrop]
  apply reg_ext
  · exact a.undo
  · show ((news.reverse.foldl rollbackOne c'.reg).all).take c.reg.all.length = c.reg.all
    rw [foldl_rollback_all, a.all_eq]; exact List.take_left

/-- The main fact about `addService`: it keeps the invariant; an accepted call appends to the list;
a rejected call leaves the registry as it was. -/
theorem addService_spec' (c : Coll) (r : Req) (inv : Inv c) (c' : Coll) (res : Option Err)
    (h : addService c r = (c', res)) :
    Inv c' ∧ (res = none → ∃ news, c'.reg.all = c.reg.all ++ news) ∧ (res ≠ none → c'.reg = c.reg) ∧
    c.nextId ≤ c'.nextId := by
  obtain ⟨hreg, hnext, hkey⟩ := preChecks_spec c r
  unfold addService at h
  split at h
  next c1 e hp =>
    rw [hp] at hreg hnext
    simp only at hreg hnext
    injection h with h1 h2; subst h1 h2
    exact ⟨inv_of_reg_eq inv hreg (by omega), (fun h => by cases h), fun _ => hreg, by omega⟩
  next c1 key0 hp =>
    rw [hp] at hreg hnext hkey
    simp only at hreg hnext hkey
    have inv1 : Inv c1 := inv_of_reg_eq inv hreg (by omega)
    obtain ⟨inv2, news, ha⟩ := addLocked_spec c1 r key0 inv1 (hkey key0 rfl)
    simp only [] at h
    split at h
    next c2 hl =>
      rw [hl] at inv2 ha
      simp only at inv2 ha
      injection h with h1 h2; subst h1 h2
      have := ha.next_le
      exact ⟨inv2, fun _ => ⟨news, by rw [ha.all_eq, hreg]⟩, fun h => absurd rfl h, by omega⟩
    next c2 e hl =>
      rw [hl] at inv2 ha
      simp only at inv2 ha
      injection h with h1 h2; subst h1 h2
      have hrb : rollbackTo c2.reg c1.reg.all.length = c1.reg := rollbackTo_restores ha
      have hfin : ({ c2 with reg := rollbackTo c2.reg c1.reg.all.length } : Coll).reg = c.reg := by
        show rollbackTo c2.reg c1.reg.all.length = c.reg
        rw [hrb, hreg]
      have hle : c.nextId ≤ c2.nextId := by have := ha.next_le; omega
      exact ⟨inv_of_reg_eq inv hfin hle, (fun h => by cases h), fun _ => hfin, hle⟩

theorem addService_spec (c : Coll) (r : Req) (inv : Inv c) :
    Inv (addService c r).1 ∧
    ((addService c r).2 = none → ∃ news, (addService c r).1.reg.all = c.reg.all ++ news) ∧
    ((addService c r).2 ≠ none → (addService c r).1.reg = c.reg) ∧
    c.nextId ≤ (addService c r).1.nextId :=
  addService_spec' c r inv _ _ rfl

end Godi.Coll
