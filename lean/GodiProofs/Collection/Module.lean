import GodiModel.Module
/-!
# Modules are transparent: `runMod` = direct calls on the flattening

`runAnn` runs the annotated flattening (each leaf with the names of its enclosing modules) left to
right and wraps the first error with that leaf's path. `runAnn_mod`/`runAnn_items` show, by
structural induction on the module tree, that this is what calling the module does; `runAnn_runOps`
relates it to the plain direct calls.
-/
namespace Godi.Coll

def runAnn (c : Coll) : List (List String × Op) → Coll × Option Err
  | [] => (c, none)
  | (p, o) :: rest =>
    match step c o with
    | (c', none) => runAnn c' rest
    | (c', some e) => (c', some (wrapPath p e))

theorem runAnn_append (l1 : List (List String × Op)) : ∀ (c : Coll) (l2 : List (List String × Op)),
    runAnn c (l1 ++ l2) = match runAnn c l1 with
      | (c', none) => runAnn c' l2
      | (c', some e) => (c', some e) := by
  induction l1 with
  | nil => intro c l2; rfl
  | cons a t ih =>
    intro c l2
    obtain ⟨p, o⟩ := a
    simp only [List.cons_append, runAnn]
    cases h : step c o with
    | mk c' r =>
      cases r with
      | none => exact ih c' l2
      | some e => rfl

theorem wrapPath_append (p q : List String) (e : Err) : wrapPath (p ++ q) e = wrapPath p (wrapPath q e) := by
  induction p with
  | nil => rfl
  | cons n t ih => simp only [List.cons_append, wrapPath, ih]

mutual
theorem runAnn_mod : ∀ (m : Mod) (c : Coll) (path : List String),
    runAnn c (annotMod path m) = ((runMod c m).1, (runMod c m).2.map (wrapPath path))
  | .op o, c, path => by
    simp only [annotMod, runAnn, runMod]
    cases h : step c o with
    | mk c' r => cases r <;> rfl
  | .node name its, c, path => by
    simp only [annotMod, runMod]
    rw [runAnn_items its c (path ++ [name])]
    cases h : runItems c its with
    | mk c' r =>
      cases r with
      | none => rfl
      | some e => simp [wrapPath_append, wrapPath]
theorem runAnn_items : ∀ (its : Items) (c : Coll) (path : List String),
    runAnn c (annotItems path its) = ((runItems c its).1, (runItems c its).2.map (wrapPath path))
  | .nil, c, path => by simp [annotItems, runAnn, runItems]
  | .skip t, c, path => by
    simp only [annotItems, runItems]
    exact runAnn_items t c path
  | .cons m t, c, path => by
    simp only [annotItems, runItems]
    rw [runAnn_append, runAnn_mod m c path]
    cases h : runMod c m with
    | mk c' r =>
      cases r with
      | none => simp only [Option.map_none]; exact runAnn_items t c' path
      | some e => rfl
end

theorem wrapPath_nil_map (o : Option Err) : o.map (wrapPath []) = o := by
  cases o <;> rfl

theorem pathAt_zero (p : List String) (o : Op) (t : List (List String × Op)) : pathAt ((p, o) :: t) 0 = p := rfl
theorem pathAt_succ (a : List String × Op) (t : List (List String × Op)) (i : Nat) :
    pathAt (a :: t) (i + 1) = pathAt t i := by
  simp [pathAt]

theorem runAnn_runOps (l : List (List String × Op)) : ∀ c : Coll,
    runAnn c l = ((runOps c (l.map (·.2))).1, moduleError l (runOps c (l.map (·.2))).2) := by
  induction l with
  | nil => intro c; rfl
  | cons a t ih =>
    intro c
    obtain ⟨p, o⟩ := a
    simp only [List.map_cons, runAnn, runOps]
    cases h : step c o with
    | mk c' r =>
      cases r with
      | none =>
        simp only []
        rw [ih c']
        cases h2 : runOps c' (t.map (·.2)) with
        | mk c'' r2 =>
          cases r2 with
          | none => rfl
          | some ie =>
            obtain ⟨i, e⟩ := ie
            simp [moduleError, pathAt_succ]
      | some e => simp [moduleError, pathAt_zero]

/-- the chain of a wrapped error: one module layer per name, in order, then the chain of the cause -/
theorem chain_wrapPath (p : List String) (e : Err) :
    ∃ layers : List Err, (wrapPath p e).chain = layers ++ e.chain ∧ layers.map Err.moduleName? = p.map some := by
  induction p with
  | nil => exact ⟨[], rfl, rfl⟩
  | cons n t ih =>
    obtain ⟨ls, hc, hn⟩ := ih
    exact ⟨.module n (wrapPath t e) :: ls, by simp [wrapPath, Err.chain, hc], by simp [Err.moduleName?, hn]⟩

theorem mem_chain_self (e : Err) : e ∈ e.chain := by
  cases e <;> simp [Err.chain]

end Godi.Coll
