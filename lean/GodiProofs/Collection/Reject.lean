import GodiProofs.Collection.Ops
/-! A registration that asks for an identity which is already taken is rejected, with
`AlreadyRegisteredError` on the unwrap chain. -/
namespace Godi.Coll
open Godi.Spec

/-- the descriptor goes to `services` (not to a group) -/
def svcPath (d : Desc) : Prop := d.key ≠ .nil ∨ d.grp = 0

instance (d : Desc) : Decidable (svcPath d) := by unfold svcPath; exact inferInstance

theorem registerDescriptor_collision (c : Coll) (d0 : Desc) (hp : svcPath d0)
    (hc : (c.reg.svc d0.ident).isSome = true) :
    ∃ e, registerDescriptor c d0 = .error e ∧ (reserved d0.ty = true ∨ eAlready d0.ty ∈ e.chain) := by
  unfold registerDescriptor
  split
  next hr => exact ⟨_, rfl, Or.inl hr⟩
  next hr =>
    simp only []
    have hp' : ({ d0 with id := c.nextId } : Desc).key ≠ .nil ∨ ({ d0 with id := c.nextId } : Desc).grp = 0 := hp
    rw [if_pos hp']
    have hc' : (c.reg.svc (Desc.ident { d0 with id := c.nextId })).isSome = true := hc
    rw [if_pos hc']
    split
    · exact ⟨_, rfl, Or.inr (by simp [eAlready, Err.chain])⟩
    · exact ⟨_, rfl, Or.inr (by simp [eAlready, eRegistration, Err.chain])⟩

theorem registerDescriptor_mono {c c' : Coll} {d0 : Desc} (hk : d0.key.isIdx = false)
    (h : registerDescriptor c d0 = .ok c') (k : Ident) (hs : (c.reg.svc k).isSome = true) :
    (c'.reg.svc k).isSome = true := by
  obtain ⟨d, r⟩ := registerDescriptor_ok hk h
  rcases r.shape with ⟨_, _, _, hsvc, _⟩ | ⟨_, _, _, hsvc, _⟩
  · rw [hsvc]
    by_cases hkk : k = d.ident
    · subst hkk; simp
    · rw [upd_ne _ _ hkk]; exact hs
  · rw [hsvc]; exact hs

theorem registerEach_collision (op : String) : ∀ (items : List Item) (c : Coll),
    (∀ it ∈ items, it.d.key.isIdx = false) →
    (∃ it ∈ items, svcPath it.d ∧ (c.reg.svc it.d.ident).isSome = true) →
    (registerEach op c items).2 ≠ none := by
  intro items
  induction items with
  | nil => intro c _ ⟨it, hit, _⟩; cases hit
  | cons it rest ih =>
    intro c hk ⟨x, hx, hxp, hxc⟩
    unfold registerEach
    split
    · simp
    · split
      · simp
      next c1 hc1 =>
        simp only [List.mem_cons] at hx
        rcases hx with rfl | hx
        · obtain ⟨e, he, _⟩ := registerDescriptor_collision c x.d hxp hxc
          rw [he] at hc1; cases hc1
        · apply ih c1 (fun y hy => hk y (by simp [hy]))
          exact ⟨x, hx, hxp, registerDescriptor_mono (hk it (by simp)) hc1 _ hxc⟩

/-- the descriptors a request asks for, after the fan-out -/
def Req.items (r : Req) (key0 : Key) : List Item :=
  match r.fanout key0 with
  | some (_, items) => items
  | none =>
    [{ d := { r.base with key := key0, grp := r.group, void := r.void, inst := r.inst,
                          stores := if key0 != .nil || r.group == 0 then [(r.primary, key0, r.group)] else [] } }]

theorem addLocked_collision (c : Coll) (r : Req) (key0 : Key) (hk0 : key0.isIdx = false)
    (h : ∃ it ∈ r.items key0, svcPath it.d ∧ (c.reg.svc it.d.ident).isSome = true) :
    (addLocked c r key0).2 ≠ none := by
  unfold addLocked
  split
  · simp
  · unfold Req.items at h
    split
    next op items hf =>
      rw [hf] at h
      exact registerEach_collision op items c (fanout_not_idx r key0 hk0 hf) h
    next hf =>
      rw [hf] at h
      simp only [List.mem_cons, List.not_mem_nil, or_false, exists_eq_left] at h
      obtain ⟨e, he, _⟩ := registerDescriptor_collision c _ h.1 h.2
      simp only []
      rw [he]
      simp

/-- A call that passes the checks made before the lock and asks for an identity that is already
registered is rejected. -/
theorem addService_collision (c : Coll) (r : Req) (key0 : Key) (hp : (preChecks c r).2 = .ok key0)
    (h : ∃ it ∈ r.items key0, svcPath it.d ∧ (c.reg.svc it.d.ident).isSome = true) :
    (addService c r).2 ≠ none := by
  obtain ⟨hreg, _, hkey⟩ := preChecks_spec c r
  unfold addService
  split
  · simp
  next c1 k0 hpc =>
    rw [hpc] at hp hreg hkey
    simp only at hp hreg hkey
    injection hp with hp; subst hp
    have hcol : ∃ it ∈ r.items k0, svcPath it.d ∧ (c1.reg.svc it.d.ident).isSome = true := by
      rw [hreg]; exact h
    have := addLocked_collision c1 r k0 (hkey k0 rfl) hcol
    simp only []
    split
    next c2 hl => rw [hl] at this; exact absurd rfl this
    next c2 e hl => simp

end Godi.Coll
