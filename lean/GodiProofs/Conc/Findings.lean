import GodiProofs.Conc.Clauses
/-! Regression schedules of the findings F2 and F3 (FINDINGS.md). On the protocol as it was at d23542b
these exact schedules ended with a closed child registered in the provider's table (F2) and with
`ErrSingletonNotInitialized` (F3) — both were kernel-checked theorems of this file then. On the
repaired protocol (64d7b34, 0cb30f3) the same schedules end well, and the general statements are
`C14_no_stale_child_in_provider_table` / `C13_singleton_overlap_reports_disposed` in `Clauses.lean`. -/
namespace Godi.Conc.Findings
open Godi.Conc

def thr (p : Pc) (c : Cfg := {}) : Thr := { cfg := c, start := p, pc := p }

/-- F2 regression: the creator registers the child in `S.children` (`sAdd`), `S.Close` runs from CAS
to signal (closing the child, whose own `delete(p.scopes, child)` finds nothing), then the creator
registers the child in `p.scopes` — and now sees that it is disposed, removes it again and reports
`ErrScopeDisposed`: the table is empty. -/
theorem F2_regression :
    (run (init [thr .sChk, thr (.cCas (.ret .okUnit))])
        ([0,0,0] ++ [1,1,1,1,1,1,1,1,1,1,1,1,1,1,1] ++ [0,0,0])).map
      (fun s => (s.thr.map (·.pc), s.sh.scopes, s.sh.kidClosed, s.sh.closedSig)) =
    some ([.done .disposed, .done .okUnit], some [], [1], true) := by decide

/-- F3 regression: the resolver passes the disposed check (`gChk`), `provider.Close` runs completely
(closing `S`, clearing the `sync.Map`), the lock-free read misses — and the resolver now re-reads
the scope's flag and reports `ErrScopeDisposed`. -/
theorem F3_regression :
    (run (init [thr .gChk, thr .pCas])
        ([0] ++ [1,1,1, 1,1,1,1,1,1,1,1,1,1, 1,1] ++ [0,0])).map
      (fun s => (s.thr.map (·.pc), s.sh.singletons)) =
    some ([.done .disposed, .done .okUnit], false) := by decide

/-- and when only the provider's flag is set at that moment (the scope is not in the provider's
table any more … here: the scope table was emptied by another route), the provider-disposed error:
the branch exists in the model (`gMiss2`) and its `notInit` arm is unreachable
(`C13_singleton_overlap_reports_disposed`). -/
example (c : Cfg) (s : Sh) (h : s.pdisposed = true) :
    act c s .gMiss2 = some (.done .provDisposed, s, []) := by simp [act, h]

end Godi.Conc.Findings
