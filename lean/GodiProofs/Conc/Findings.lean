import GodiProofs.Conc.Clauses
/-! Behaviours of the CURRENT code that M6 exhibits and that are (minor) violations of neighbouring
properties — each found in the model first and then reproduced on the implementation
(`harness/conc/findings/vk_findings_test.go`, `FINDINGS.md`). They do not contradict any theorem of
`Clauses.lean` / `Props/C09.lean`; they show what those theorems do NOT promise. -/
namespace Godi.Conc.Findings
open Godi.Conc

def thr (p : Pc) (c : Cfg := {}) : Thr := { cfg := c, start := p, pc := p }

/-- F2 (C14, C13): `scope.CreateScope` returns — as a success — a child that is already closed, and
the closed child stays in the provider's scope table. Schedule: the creator registers the child in
`S.children` (`sAdd`), `S.Close` runs from CAS to signal (closing the child, whose own
`delete(p.scopes, child)` finds nothing), then the creator registers the child in `p.scopes`. -/
theorem F2_closed_child_stays_registered :
    (run (init [thr .sChk, thr (.cCas (.ret .okUnit))])
        ([0,0,0] ++ [1,1,1,1,1,1,1,1,1,1,1,1,1,1,1] ++ [0,0])).map
      (fun s => (s.thr.map (·.pc), s.sh.scopes, s.sh.kidClosed, s.sh.closedSig)) =
    some ([.done (.okChild 1), .done .okUnit, .wKid 1], some [1], [1], true) := by decide

/-- F3 (C13): a singleton resolution that overlaps `provider.Close` returns
`ErrSingletonNotInitialized` — neither a result nor the disposed error. Schedule: the resolver passes
the disposed check (`gChk`), `provider.Close` runs completely (closing `S`, clearing the
`sync.Map`), then the lock-free read misses. -/
theorem F3_singleton_not_initialized_during_close :
    (run (init [thr .gChk, thr .pCas])
        ([0] ++ [1,1,1, 1,1,1,1,1,1,1,1,1,1, 1,1] ++ [0])).map
      (fun s => (s.thr.map (·.pc), s.sh.singletons)) =
    some ([.done .notInit, .done .okUnit], false) := by decide

/-- the result is nevertheless inside the documented set `Res.okFor` (the sentinel exists), which is
why `C13_overlap` / `C09_results_valid` hold: the theorems list `notInit` for singleton reads. -/
example : Res.okFor .gChk .notInit = true := rfl

end Godi.Conc.Findings
