import GodiProofs.Conc.Lock
import GodiProofs.Conc.Kids
/-! Deadlock freedom: in every state that satisfies the invariants, if some thread has not
returned (and is not a watcher waiting for its context), some such thread can take a step.

The argument is a rank on what a thread may wait for:
  rank 0  the body of a child's `Close` (`kDetP`, `kDetS`, `kSig`) and every non-blocking action;
  rank 1  `<-child.closed` (`kWait c`): the child's winner exists and has rank 0;
  rank 1  `m.Lock()` of key `b`: the holder never waits (b has no dependencies);
  rank 2  `m.Lock()` of key `a`: the holder may wait for `b`'s mutex only (dependency edge a → b);
  rank 2  `<-S.closed` (`cWait`): the winner of `S` may wait for a child's `closed` only.
Table mutexes do not appear: each protected region is one action (never nested, never held across
a blocking operation — `LockFactsOk.table_locks_flat`). -/
namespace Godi.Conc
set_option linter.unusedSimpArgs false
set_option linter.unusedVariables false

/-- the only actions that can be disabled -/
def Pc.blocking : Pc → Bool
  | .rLock _ _ | .kWait _ _ | .cWait _ | .wS | .wKid _ => true
  | _ => false

theorem enabled_of_not_blocking (c : Cfg) (s : Sh) {pc : Pc} (hb : pc.blocking = false) (hi : pc.idle = false) :
    (act c s pc).isSome = true := by
  cases pc <;> simp_all [act, Pc.blocking, Pc.idle] <;> (repeat' split) <;> simp

theorem rLock_enabled (c : Cfg) (s : Sh) (k : Key) (o : Bool) (h : s.lock.get k = false) :
    (act c s (.rLock k o)).isSome = true := by simp [act, h]
theorem kWait_enabled (c : Cfg) (s : Sh) (ch : Cid) (k : K) (h : ch ∈ s.kidClosed) :
    (act c s (.kWait ch k)).isSome = true := by simp [act, h]
theorem cWait_enabled (c : Cfg) (s : Sh) (k : K) (h : s.closedSig = true) :
    (act c s (.cWait k)).isSome = true := by simp [act, h]

/-- a thread that may make progress: it is not idle and its next action is enabled -/
def Live (s : Sys) : Prop := ∃ th ∈ s.thr, th.pc.idle = false ∧ th.enabled s.sh = true

/-- rank 1: a child being closed -/
theorem live_of_kid {s : Sys} (kd : KidInv s) (q : Cid) (h1 : q ∈ s.sh.kidDisp) (h2 : q ∉ s.sh.kidClosed) : Live s := by
  have hw := kd.win q
  have c1 : 0 < s.sh.kidDisp.count q := List.count_pos_iff.2 h1
  have c2 : s.sh.kidClosed.count q = 0 := List.count_eq_zero.2 h2
  obtain ⟨th, hth, hp⟩ := tot_pos (m := kwin q) (l := s.thr) (by omega)
  refine ⟨th, hth, ?_⟩
  obtain ⟨cfg, st, pc⟩ := th
  simp only [kwin] at hp
  cases pc <;> simp [Pc.kwin] at hp
  all_goals exact ⟨rfl, enabled_of_not_blocking _ _ rfl rfl⟩

/-- a thread waiting at `kWait` is waiting for a child somebody is closing -/
theorem live_of_kWait {s : Sys} (kd : KidInv s) {th : Thr} (hth : th ∈ s.thr) (q : Cid) (k : K)
    (hpc : th.pc = .kWait q k) : Live s := by
  by_cases hc : q ∈ s.sh.kidClosed
  · exact ⟨th, hth, by simp [hpc, Pc.idle], by simp [Thr.enabled, hpc, kWait_enabled _ _ _ _ hc]⟩
  · exact live_of_kid kd q (kd.wait th hth q (by simp [hpc, Pc.waitsKid])) hc

/-- rank 1: the creation mutex of `b` -/
theorem live_of_lockB {s : Sys} (wf : WfSys s) (lk : LockInv s) (h : s.sh.lock.get .b = true) : Live s := by
  have hl := lk.held .b
  rw [h] at hl
  obtain ⟨th, hth, hp⟩ := tot_pos (m := holdsL .b) (l := s.thr) (by simp at hl; omega)
  refine ⟨th, hth, ?_⟩
  obtain ⟨cfg, st, pc⟩ := th
  simp only [holdsL] at hp
  cases pc <;> simp [Pc.holdsL] at hp
  all_goals exact ⟨rfl, enabled_of_not_blocking _ _ rfl rfl⟩

/-- rank 2: the creation mutex of `a`; its holder may be waiting for `b`'s -/
theorem live_of_lockA {s : Sys} (wf : WfSys s) (lk : LockInv s) (h : s.sh.lock.get .a = true) : Live s := by
  have hl := lk.held .a
  rw [h] at hl
  obtain ⟨th, hth, hp⟩ := tot_pos (m := holdsL .a) (l := s.thr) (by simp at hl; omega)
  have hw := wf th hth
  obtain ⟨cfg, st, pc⟩ := th
  simp only [holdsL] at hp
  cases pc <;> simp [Pc.holdsL] at hp
  case rLock k o =>
    -- nested: the thread holds `a` and wants `b`
    simp only [Pc.wf] at hw
    cases k <;> simp_all
    by_cases hb : s.sh.lock.get .b = true
    · exact live_of_lockB wf lk hb
    · exact ⟨_, hth, rfl, by simp [Thr.enabled, rLock_enabled _ _ _ _ (by simpa using hb)]⟩
  all_goals exact ⟨_, hth, rfl, enabled_of_not_blocking _ _ rfl rfl⟩

/-- rank 2: waiting for `S.closed`; the winner of `S` may be waiting for a child -/
theorem live_of_cWait {s : Sys} (g : Gate s) (kd : KidInv s) (hd : s.sh.disposed = true)
    (hs : s.sh.closedSig = false) : Live s := by
  have hw := g.win
  rw [hd, hs] at hw
  obtain ⟨th, hth, hp⟩ := tot_pos (m := winS) (l := s.thr) (by simp at hw; omega)
  obtain ⟨cfg, st, pc⟩ := th
  simp only [winS] at hp
  cases pc <;> simp [Pc.winS] at hp
  case kWait q k => exact live_of_kWait kd hth q k rfl
  all_goals exact ⟨_, hth, rfl, enabled_of_not_blocking _ _ rfl rfl⟩

/-- DEADLOCK FREEDOM -/
theorem progress {s : Sys} (wf : WfSys s) (g : Gate s) (lk : LockInv s) (kd : KidInv s)
    (h : ∃ th ∈ s.thr, th.pc.idle = false) : Live s := by
  obtain ⟨th, hth, hi⟩ := h
  by_cases hb : th.pc.blocking = false
  · exact ⟨th, hth, hi, enabled_of_not_blocking _ _ hb hi⟩
  · obtain ⟨cfg, st, pc⟩ := th
    cases pc <;> simp [Pc.blocking, Pc.idle] at hb hi
    case rLock k o =>
      by_cases hk : s.sh.lock.get k = true
      · cases k
        · exact live_of_lockA wf lk hk
        · exact live_of_lockB wf lk hk
      · exact ⟨_, hth, rfl, by simp [Thr.enabled, rLock_enabled _ _ _ _ (by simpa using hk)]⟩
    case kWait q k => exact live_of_kWait kd hth q k rfl
    case cWait k =>
      by_cases hs : s.sh.closedSig = true
      · exact ⟨_, hth, rfl, by simp [Thr.enabled, cWait_enabled _ _ _ hs]⟩
      · exact live_of_cWait g kd (g.saw _ hth rfl) (by simpa using hs)

end Godi.Conc
