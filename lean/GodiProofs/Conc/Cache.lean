import GodiProofs.Conc.Lock
/-! The instance cache: per scoped key at most one instance is ever written, and every instance a
resolution returns is that one. -/
namespace Godi.Conc
set_option linter.unusedSimpArgs false
set_option linter.unusedVariables false

/-- between the second cache miss for `q` (under `q`'s creation mutex) and the write into the cache -/
def Pc.pastRe (q : Key) : Pc → Nat
  | .rChk _ o | .rRead _ o | .rMu _ o | .rLock _ o | .rRe _ o | .rTrk _ o _ | .rSelf _ o _ | .rUnl _ o _ => b2n (o && q == .a)
  | .rCtor k o | .rSet k o _ => b2n (k == q) + b2n (o && q == .a)
  | _ => 0
def pastRe (q : Key) (th : Thr) : Nat := th.pc.pastRe q

theorem pastRe_le_holdsL (q : Key) (pc : Pc) : pc.pastRe q ≤ pc.holdsL q := by
  cases pc <;> simp [Pc.pastRe, Pc.holdsL]

/-- the instance this thread is about to return (or has returned) for a scoped key -/
def Pc.claim : Pc → Option (Key × Inst)
  | .rUnl k _ r => r.inst.map (fun p => (k, p.2))
  | .done r => r.inst
  | _ => none
/-- the instance this thread has offered to the cache and is about to track -/
def Pc.tracked : Pc → Option (Key × Inst)
  | .rTrk k _ i => some (k, i)
  | _ => none

structure CacheLocal (s : Sh) (pc : Pc) : Prop where
  claim : ∀ k i, pc.claim = some (k, i) → i ∈ s.ever.get k
  tracked : ∀ k i, pc.tracked = some (k, i) → i ∈ s.ever.get k ∨ s.disposed = true




set_option maxHeartbeats 1600000 in
theorem act_cache {c : Cfg} {s s' : Sh} {pc pc' : Pc} {sp : List Pc} (q : Key)
    (h : act c s pc = some (pc', s', sp)) (hw : pc.wf = true) (dCache : s.cache = none → s.disposed = true)
    (l : CacheLocal s pc) (n : Nat) (hone : n + pc.pastRe q ≤ 1)
    (c1 : s.cache.isSome = true → s.ever.get q = (s.cacheGet q).toList)
    (c2 : (s.ever.get q).length ≤ 1)
    (c3 : 0 < n + pc.pastRe q → s.cache = none ∨ s.ever.get q = []) :
    (s'.cache.isSome = true → s'.ever.get q = (s'.cacheGet q).toList) ∧
    (s'.ever.get q).length ≤ 1 ∧
    (0 < n + pc'.pastRe q + tot (pastRe q) (spawn sp) → s'.cache = none ∨ s'.ever.get q = []) ∧
    (∀ i, i ∈ s.ever.get q → i ∈ s'.ever.get q) := by
  obtain ⟨l1, l2⟩ := l
  cases hc : s.cache <;> cases q <;> cases pc <;> (repeat (cases ‹Key›)) <;> (repeat (cases ‹Bool›)) <;> act_cases h
  all_goals (first
    | (simp [Pc.wf] at hw; done)
    | (simp_all [Pc.pastRe, pastRe, Pc.wf, Pc.claim, Pc.tracked, Sh.cacheGet, KV.get, KV.set]; done)
    | (simp_all [Pc.pastRe, pastRe, Pc.wf, Pc.claim, Pc.tracked, Sh.cacheGet, KV.get, KV.set] <;> omega))

set_option maxHeartbeats 1600000 in
/-- what the acting thread may claim afterwards -/
theorem act_cache_local {c : Cfg} {s s' : Sh} {pc pc' : Pc} {sp : List Pc}
    (h : act c s pc = some (pc', s', sp)) (hw : pc.wf = true) (dCache : s.cache = none → s.disposed = true)
    (l : CacheLocal s pc)
    (c1 : ∀ q, s.cache.isSome = true → s.ever.get q = (s.cacheGet q).toList) :
    CacheLocal s' pc' ∧ (∀ p ∈ sp, p.claim = none ∧ p.tracked = none) := by
  obtain ⟨l1, l2⟩ := l
  have c1a := c1 .a
  have c1b := c1 .b
  cases hc : s.cache <;> cases pc <;> (repeat (cases ‹Key›)) <;> (repeat (cases ‹Bool›)) <;> (repeat (cases ‹Res›)) <;>
    act_cases h
  all_goals (first
    | (simp [Pc.wf] at hw; done)
    | (refine ⟨⟨?_, ?_⟩, ?_⟩ <;>
        simp_all [Pc.wf, K.wf, K.top, Pc.claim, Pc.tracked, Sh.cacheGet, KV.get, KV.set, Res.inst_plain]; done)
    | (trace_state; sorry))

end Godi.Conc
