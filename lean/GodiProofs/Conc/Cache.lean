import GodiProofs.Conc.Lock
/-! The instance cache: per scoped key at most one instance is ever written, and every instance a
resolution returns is that one. -/
namespace Godi.Conc
set_option linter.unusedSimpArgs false
set_option linter.unusedVariables false

/-- between the second cache miss for `q` (under `q`'s creation mutex) and the write into the cache -/
def Pc.pastRe (q : Key) : Pc → Nat
  | .rChk _ o | .rRead _ o | .rMu _ o | .rLock _ o | .rRe _ o | .rTrk _ o _ | .rSelf _ o _ | .rUnl _ o _ => b2n (o && q == .a)
  | .rCtor k o | .rSet k o _ => b2n (k == q) + b2n (o && q == .a)
  | _ => 0
def pastRe (q : Key) (th : Thr) : Nat := th.pc.pastRe q

theorem pastRe_le_holdsL (q : Key) (pc : Pc) : pc.pastRe q ≤ pc.holdsL q := by
  cases pc <;> simp [Pc.pastRe, Pc.holdsL]

/-- the instance this thread is about to return (or has returned) for a scoped key -/
def Pc.claim : Pc → Option (Key × Inst)
  | .rUnl k _ r => r.inst.map (fun p => (k, p.2))
  | .done r => r.inst
  | _ => none
/-- the instance this thread has offered to the cache and is about to track -/
def Pc.tracked : Pc → Option (Key × Inst)
  | .rTrk k _ i => some (k, i)
  | _ => none

structure CacheLocal (s : Sh) (pc : Pc) : Prop where
  claim : ∀ k i, pc.claim = some (k, i) → i ∈ s.ever.get k
  tracked : ∀ k i, pc.tracked = some (k, i) → i ∈ s.ever.get k ∨ s.disposed = true




set_option maxHeartbeats 1600000 in
theorem act_cache {c : Cfg} {s s' : Sh} {pc pc' : Pc} {sp : List Pc} (q : Key)
    (h : act c s pc = some (pc', s', sp)) (hw : pc.wf = true) (dCache : s.cache = none → s.disposed = true)
    (l : CacheLocal s pc) (n : Nat) (hone : n + pc.pastRe q ≤ 1)
    (c1 : s.cache.isSome = true → s.ever.get q = (s.cacheGet q).toList)
    (c2 : (s.ever.get q).length ≤ 1)
    (c3 : 0 < n + pc.pastRe q → s.cache = none ∨ s.ever.get q = []) :
    (s'.cache.isSome = true → s'.ever.get q = (s'.cacheGet q).toList) ∧
    (s'.ever.get q).length ≤ 1 ∧
    (0 < n + pc'.pastRe q + tot (pastRe q) (spawn sp) → s'.cache = none ∨ s'.ever.get q = []) ∧
    (∀ i, i ∈ s.ever.get q → i ∈ s'.ever.get q) := by
  obtain ⟨l1, l2⟩ := l
  cases hc : s.cache <;> cases q <;> cases pc <;> (repeat (cases ‹Key›)) <;> (repeat (cases ‹Bool›)) <;> act_cases h
  all_goals (first
    | (simp [Pc.wf] at hw; done)
    | (simp_all [Pc.pastRe, pastRe, Pc.wf, Pc.claim, Pc.tracked, Sh.cacheGet, KV.get, KV.set]; done)
    | (simp_all [Pc.pastRe, pastRe, Pc.wf, Pc.claim, Pc.tracked, Sh.cacheGet, KV.get, KV.set] <;> omega))

set_option maxHeartbeats 1600000 in
/-- what the acting thread may claim afterwards -/
theorem act_cache_local {c : Cfg} {s s' : Sh} {pc pc' : Pc} {sp : List Pc}
    (h : act c s pc = some (pc', s', sp)) (hw : pc.wf = true) (dCache : s.cache = none → s.disposed = true)
    (l : CacheLocal s pc)
    (c1 : ∀ q, s.cache.isSome = true → s.ever.get q = (s.cacheGet q).toList) :
    CacheLocal s' pc' ∧ (∀ p ∈ sp, p.claim = none ∧ p.tracked = none) := by
  obtain ⟨l1, l2⟩ := l
  have c1a := c1 .a
  have c1b := c1 .b
  cases hc : s.cache <;> cases pc <;> (repeat (cases ‹Key›)) <;> (repeat (cases ‹Bool›)) <;> (repeat (cases ‹Res›)) <;>
    act_cases h
  all_goals (first
    | (simp [Pc.wf] at hw; done)
    | (refine ⟨⟨?_, ?_⟩, ?_⟩ <;>
        simp_all [Pc.wf, K.wf, K.top, Pc.claim, Pc.tracked, Sh.cacheGet, KV.get, KV.set, Res.inst_plain]; done))


structure CacheInv (s : Sys) : Prop where
  c1 : ∀ q, s.sh.cache.isSome = true → s.sh.ever.get q = (s.sh.cacheGet q).toList
  c2 : ∀ q, (s.sh.ever.get q).length ≤ 1
  c3 : ∀ q, 0 < tot (pastRe q) s.thr → s.sh.cache = none ∨ s.sh.ever.get q = []
  loc : ∀ th ∈ s.thr, CacheLocal s.sh th.pc

theorem CacheInv.step {s s' : Sys} (wf : WfSys s) (g : Gate s) (lk : LockInv s) (inv : CacheInv s)
    (st : Step s s') : CacheInv s' := by
  obtain ⟨th, pc', sp, hmem, hact, hsplit, hx⟩ := st.tot_split
  have hw := wf th hmem
  have stab := act_stable hact
  have key : ∀ q, (s'.sh.cache.isSome = true → s'.sh.ever.get q = (s'.sh.cacheGet q).toList) ∧
      (s'.sh.ever.get q).length ≤ 1 ∧
      (0 < tot (pastRe q) s'.thr → s'.sh.cache = none ∨ s'.sh.ever.get q = []) ∧
      (∀ i, i ∈ s.sh.ever.get q → i ∈ s'.sh.ever.get q) := by
    intro q
    obtain ⟨n, hn1, hn2⟩ := hsplit (pastRe q)
    have hone : n + th.pc.pastRe q ≤ 1 := by
      have h1 := tot_le (m := pastRe q) (m' := holdsL q) (fun t => pastRe_le_holdsL q t.pc) s.thr
      have h2 := lk.held q
      have h3 := b2n_le (s.sh.lock.get q)
      have e : pastRe q th = th.pc.pastRe q := rfl
      omega
    have := act_cache q hact hw g.dCache (inv.loc th hmem) n hone (inv.c1 q) (inv.c2 q)
      (by intro hp; exact inv.c3 q (by have e : pastRe q th = th.pc.pastRe q := rfl; omega))
    refine ⟨this.1, this.2.1, ?_, this.2.2.2⟩
    intro hp
    have e : pastRe q { th with pc := pc' } = pc'.pastRe q := rfl
    exact this.2.2.1 (by omega)
  have hloc := act_cache_local hact hw g.dCache (inv.loc th hmem) inv.c1
  refine ⟨fun q => (key q).1, fun q => (key q).2.1, fun q => (key q).2.2.1, ?_⟩
  intro x hxm
  rcases hx x hxm with h | rfl | h
  · have old := inv.loc x h
    refine ⟨fun k i hc => (key k).2.2.2 i (old.claim k i hc), fun k i ht => ?_⟩
    rcases old.tracked k i ht with h1 | h1
    · exact Or.inl ((key k).2.2.2 i h1)
    · exact Or.inr (stab.2.2.1 h1)
  · exact hloc.1
  · simp only [spawn, List.mem_map] at h
    obtain ⟨p, hp, rfl⟩ := h
    have := hloc.2 p hp
    exact ⟨fun k i hc => by simp [this.1] at hc, fun k i ht => by simp [this.2] at ht⟩

theorem initial_cache {pc : Pc} (h : pc.initial = true) :
    (∀ q, pc.pastRe q = 0) ∧ pc.claim = none ∧ pc.tracked = none := by
  cases pc with
  | rChk k o => cases o <;> simp_all [Pc.initial, Pc.pastRe, Pc.claim, Pc.tracked]
  | _ => simp_all [Pc.initial, Pc.pastRe, Pc.claim, Pc.tracked]

theorem CacheInv.init (thr : List Thr) (h : ∀ th ∈ thr, th.pc.initial = true) : CacheInv (init thr) := by
  refine ⟨fun q _ => ?_, fun q => ?_, fun q hp => ?_, fun th ht => ?_⟩
  · cases q <;> simp [Conc.init, Sh.cacheGet, KV.get]
  · cases q <;> simp [Conc.init, KV.get]
  · right; cases q <;> simp [Conc.init, KV.get]
  · have := initial_cache (h th ht)
    exact ⟨fun k i hc => by simp [this.2.1] at hc, fun k i hc => by simp [this.2.2] at hc⟩

end Godi.Conc
