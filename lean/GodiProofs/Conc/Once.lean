import GodiProofs.Conc.Gate
/-! Instance accounting: everything a constructor returned is in exactly one place — the disposal
list, the hands of one thread, or the log of `Close` calls — and nothing is closed before the CAS. -/
namespace Godi.Conc
set_option linter.unusedSimpArgs false
set_option linter.unusedVariables false

/-- instances the thread is responsible for at this moment -/
def Pc.holds : Pc → List Inst
  | .rSet _ _ i | .rTrk _ _ i | .rSelf _ _ i | .tTrk i | .tSelf i => [i]
  | .cDrain l _ => l
  | _ => []
def holdsI (j : Inst) (th : Thr) : Nat := th.pc.holds.count j

theorem act_once {c : Cfg} {s s' : Sh} {pc pc' : Pc} {sp : List Pc}
    (h : act c s pc = some (pc', s', sp)) (l : GateLocal s pc) (j n : Nat)
    (acct : n + pc.holds.count j + s.closed.count j + (s.disposables.getD []).count j = s.created.count j)
    (fresh : s.nextI ≤ j → s.created.count j = 0) (cr1 : s.created.count j ≤ 1)
    (early : s.disposed = false → s.closed = []) :
    (n + pc'.holds.count j + tot (holdsI j) (spawn sp) + s'.closed.count j + (s'.disposables.getD []).count j
      = s'.created.count j) ∧
    (s'.nextI ≤ j → s'.created.count j = 0) ∧ s'.created.count j ≤ 1 ∧ (s'.disposed = false → s'.closed = []) := by
  obtain ⟨l1, l2, l3, l4, l5⟩ := l
  cases pc <;> act_cases h
  all_goals (first
    | (simp_all [Pc.holds, holdsI, Pc.sawDisposed, Pc.winS]; done)
    | (simp_all [Pc.holds, holdsI, Pc.sawDisposed, Pc.winS, List.count_cons, List.count_append, List.count_singleton] <;> omega)
    | (simp_all [Pc.holds, holdsI, Pc.sawDisposed, Pc.winS, List.count_cons, List.count_append, List.count_singleton]
        <;> split <;> simp_all <;> omega))


structure OnceInv (s : Sys) : Prop where
  acct : ∀ j, tot (holdsI j) s.thr + s.sh.closed.count j + (s.sh.disposables.getD []).count j = s.sh.created.count j
  fresh : ∀ j, s.sh.nextI ≤ j → s.sh.created.count j = 0
  cr1 : ∀ j, s.sh.created.count j ≤ 1
  early : s.sh.disposed = false → s.sh.closed = []

theorem OnceInv.step {s s' : Sys} (g : Gate s) (inv : OnceInv s) (st : Step s s') : OnceInv s' := by
  obtain ⟨th, pc', sp, hmem, hact, hsplit, hx⟩ := st.tot_split
  have loc := g.local hmem
  have key : ∀ j, (tot (holdsI j) s'.thr + s'.sh.closed.count j + (s'.sh.disposables.getD []).count j
        = s'.sh.created.count j) ∧
      (s'.sh.nextI ≤ j → s'.sh.created.count j = 0) ∧ s'.sh.created.count j ≤ 1 ∧
      (s'.sh.disposed = false → s'.sh.closed = []) := by
    intro j
    obtain ⟨n, hn1, hn2⟩ := hsplit (holdsI j)
    have := act_once hact loc j n (by have := inv.acct j; simp only [holdsI] at hn1 ⊢; omega)
      (inv.fresh j) (inv.cr1 j) inv.early
    refine ⟨?_, this.2⟩
    have h1 := this.1
    simp only [holdsI] at hn2 h1 ⊢
    omega
  exact ⟨fun j => (key j).1, fun j => (key j).2.1, fun j => (key j).2.2.1, (key 0).2.2.2⟩

theorem initial_holds {pc : Pc} (h : pc.initial = true) : pc.holds = [] := by
  cases pc <;> simp_all [Pc.initial, Pc.holds]

theorem OnceInv.init (thr : List Thr) (h : ∀ th ∈ thr, th.pc.initial = true) : OnceInv (init thr) := by
  refine ⟨fun j => ?_, fun j _ => by simp [Conc.init], fun j => by simp [Conc.init], fun _ => rfl⟩
  have : tot (holdsI j) thr = 0 := tot_zero_of (fun t ht => by simp [holdsI, initial_holds (h t ht)])
  simp [Conc.init, this]

/-- EXACTLY ONCE: when no thread is responsible for an instance any more and the disposal list has
been taken, the `Close` log is duplicate-free and contains exactly the created instances. -/
theorem OnceInv.exactly_once {s : Sys} (inv : OnceInv s) (hheld : ∀ th ∈ s.thr, th.pc.holds = [])
    (hlist : s.sh.disposables = none) :
    s.sh.closed.Nodup ∧ ∀ i, i ∈ s.sh.created ↔ i ∈ s.sh.closed := by
  have z : ∀ j, tot (holdsI j) s.thr = 0 := fun j =>
    tot_zero_of (fun t ht => by simp [holdsI, hheld t ht])
  refine ⟨?_, fun i => ?_⟩
  · rw [List.nodup_iff_count]
    intro j
    have := inv.acct j; have := inv.cr1 j; have := z j
    omega
  · have := inv.acct i
    rw [z i, hlist] at this
    simp only [Option.getD_none, List.count_nil, Nat.add_zero, Nat.zero_add] at this
    rw [← List.count_pos_iff, ← List.count_pos_iff, this]

end Godi.Conc
