import GodiProofs.Conc.Gate
/-! Child scopes: a child whose CAS was won and whose `closed` channel is still open has exactly
one thread inside its `Close` body. -/
namespace Godi.Conc
set_option linter.unusedSimpArgs false
set_option linter.unusedVariables false

/-- the thread is inside the body of `Close` of child `q` -/
def Pc.kwin (q : Cid) : Pc → Nat
  | .kDetP c _ | .kDetS c _ | .kSig c _ => if c = q then 1 else 0
  | _ => 0
def kwin (q : Cid) (th : Thr) : Nat := th.pc.kwin q

/-- the child this thread is waiting for -/
def Pc.waitsKid : Pc → Option Cid
  | .kWait c _ => some c
  | _ => none

theorem act_kid {c : Cfg} {s s' : Sh} {pc pc' : Pc} {sp : List Pc} (q : Cid)
    (h : act c s pc = some (pc', s', sp))
    (n : Nat) (hn : n + pc.kwin q + s.kidClosed.count q = s.kidDisp.count q) :
    n + pc'.kwin q + tot (kwin q) (spawn sp) + s'.kidClosed.count q = s'.kidDisp.count q := by
  cases pc <;> act_cases h
  all_goals (first
    | (simp_all [Pc.kwin, kwin]; done)
    | (simp_all [Pc.kwin, kwin, List.count_cons] <;> omega)
    | (simp_all [Pc.kwin, kwin, List.count_cons] <;> split <;> simp_all <;> omega))

theorem act_kid_mono {c : Cfg} {s s' : Sh} {pc pc' : Pc} {sp : List Pc}
    (h : act c s pc = some (pc', s', sp)) :
    (∀ q, q ∈ s.kidDisp → q ∈ s'.kidDisp) ∧ (∀ q, q ∈ s.kidClosed → q ∈ s'.kidClosed) ∧
    (∀ q, pc'.waitsKid = some q → q ∈ s'.kidDisp) ∧ (∀ p ∈ sp, p.waitsKid = none) := by
  cases pc <;> act_cases h
  all_goals (first
    | (simp_all [Pc.waitsKid]; done))

structure KidInv (s : Sys) : Prop where
  win : ∀ q, tot (kwin q) s.thr + s.sh.kidClosed.count q = s.sh.kidDisp.count q
  wait : ∀ th ∈ s.thr, ∀ q, th.pc.waitsKid = some q → q ∈ s.sh.kidDisp

theorem KidInv.step {s s' : Sys} (inv : KidInv s) (st : Step s s') : KidInv s' := by
  obtain ⟨th, pc', sp, hmem, hact, hsplit, hx⟩ := st.tot_split
  have mono := act_kid_mono hact
  refine ⟨fun q => ?_, ?_⟩
  · obtain ⟨n, hn1, hn2⟩ := hsplit (kwin q)
    have := act_kid q hact n (by have := inv.win q; simp only [kwin] at hn1 ⊢; omega)
    simp only [kwin] at hn2 ⊢
    omega
  · intro x hxm q hq
    rcases hx x hxm with h | rfl | h
    · exact mono.1 q (inv.wait x h q hq)
    · exact mono.2.2.1 q hq
    · simp only [spawn, List.mem_map] at h
      obtain ⟨p, hp, rfl⟩ := h
      simp [mono.2.2.2 p hp] at hq

theorem initial_kid {pc : Pc} (h : pc.initial = true) : (∀ q, pc.kwin q = 0) ∧ pc.waitsKid = none := by
  cases pc <;> simp_all [Pc.initial, Pc.kwin, Pc.waitsKid]

theorem KidInv.init (thr : List Thr) (h : ∀ th ∈ thr, th.pc.initial = true) : KidInv (init thr) := by
  refine ⟨fun q => ?_, ?_⟩
  · have : tot (kwin q) thr = 0 := tot_zero_of (fun t ht => (initial_kid (h t ht)).1 q)
    simp [Conc.init, this]
  · intro th ht q hq
    simp [(initial_kid (h th ht)).2] at hq

end Godi.Conc
