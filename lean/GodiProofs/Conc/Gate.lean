import GodiProofs.Conc.Wf
/-! The Close protocol of `S` and of the provider: who is past the CAS, which tables are gone. -/
namespace Godi.Conc

/-- the thread is inside the body of `S.Close` (it won the CAS and has not signalled yet) -/
def Pc.winS : Pc → Nat
  | .cCancel _ _ | .cTake _ | .cKids _ _ | .cTakeD _ | .cDrain _ _ | .cDetS _ | .cNil _ | .cErr _ | .cSig _ => 1
  | .kCas _ k | .kWait _ k | .kDetP _ k | .kDetS _ k | .kSig _ k => b2n k.inS
  | _ => 0

/-- the thread is inside the body of `provider.Close` -/
def Pc.winP : Pc → Nat
  | .pTake | .pScopes _ | .pRest => 1
  | .cCas k | .cWait k | .cCancel _ k | .cTake k | .cKids _ k | .cTakeD k | .cDrain _ k | .cDetS k | .cNil k | .cErr k | .cSig k => b2n k.inP
  | .kCas _ k | .kWait _ k | .kDetP _ k | .kDetS _ k | .kSig _ k => b2n k.inP
  | _ => 0

/-- `S.children` has been taken -/
def Pc.afterTake : Pc → Bool
  | .cCancel _ _ | .cKids _ _ | .cTakeD _ | .cDrain _ _ | .cDetS _ | .cNil _ | .cErr _ | .cSig _ => true
  | .kCas _ k | .kWait _ k | .kDetP _ k | .kDetS _ k | .kSig _ k => k.inS
  | _ => false
/-- `S.disposables` has been taken -/
def Pc.afterTakeD : Pc → Bool
  | .cDrain _ _ | .cDetS _ | .cNil _ | .cErr _ | .cSig _ => true
  | _ => false
/-- `S.instances` has been set to nil -/
def Pc.afterNil : Pc → Bool
  | .cErr _ | .cSig _ => true
  | _ => false
/-- `S.closeErr` has been written -/
def Pc.afterErr : Pc → Bool
  | .cSig _ => true
  | _ => false
/-- the thread has seen the singleton table empty -/
def Pc.sawCleared : Pc → Bool
  | .gMiss1 | .gMiss2 => true
  | _ => false
/-- the thread returned `ErrSingletonNotInitialized` -/
def Pc.isNotInit : Pc → Bool
  | .done r => r.isNI
  | _ => false
/-- the thread has seen `disposed = 1` -/
def Pc.sawDisposed : Pc → Bool
  | .cWait _ | .rSelf _ _ _ | .tSelf _ => true
  | _ => false

def winS (th : Thr) : Nat := th.pc.winS
def winP (th : Thr) : Nat := th.pc.winP

structure Gate (s : Sys) : Prop where
  win : tot winS s.thr + b2n s.sh.closedSig = b2n s.sh.disposed
  cas : s.sh.casWins = b2n s.sh.disposed
  take : ∀ th ∈ s.thr, th.pc.afterTake = true → s.sh.children = none
  takeD : ∀ th ∈ s.thr, th.pc.afterTakeD = true → s.sh.disposables = none
  nil : ∀ th ∈ s.thr, th.pc.afterNil = true → s.sh.cache = none
  err : ∀ th ∈ s.thr, th.pc.afterErr = true → s.sh.errSet = true
  saw : ∀ th ∈ s.thr, th.pc.sawDisposed = true → s.sh.disposed = true
  miss : ∀ th ∈ s.thr, th.pc.sawCleared = true → s.sh.pdisposed = true
  noNotInit : ∀ th ∈ s.thr, th.pc.isNotInit = false
  sig : s.sh.closedSig = true → s.sh.children = none ∧ s.sh.disposables = none ∧ s.sh.cache = none ∧ s.sh.errSet = true
  dCache : s.sh.cache = none → s.sh.disposed = true
  dDisp : s.sh.disposables = none → s.sh.disposed = true
  dKids : s.sh.children = none → s.sh.disposed = true
  noPanic : s.sh.panicked = false
  noRes : s.sh.resurrected = false
  pwin : tot winP s.thr ≤ b2n s.sh.pdisposed
  pScopes : s.sh.scopes = none → s.sh.pdisposed = true
  pSingle : s.sh.singletons = false → s.sh.pdisposed = true

theorem resume_winS {k : K} (h : k.top = true) : (resume k).winS = 0 := by
  cases k <;> simp_all [resume, Pc.winS, K.top]
theorem resume_winS_wf {k : K} (h : k.wf = true) : (resume k).winS = b2n k.inS := by
  cases k <;> simp_all [resume, Pc.winS, K.inS]
theorem resume_winP (k : K) : (resume k).winP = b2n k.inP := by
  cases k <;> simp [resume, Pc.winP, K.inP]
theorem resume_afterTake {k : K} : (resume k).afterTake = k.inS := by
  cases k <;> simp [resume, Pc.afterTake, K.inS]
theorem resume_afterTakeD_top {k : K} (h : k.top = true) : (resume k).afterTakeD = false := by
  cases k <;> simp_all [resume, Pc.afterTakeD, K.top]
theorem resume_afterNil {k : K} : (resume k).afterNil = false := by
  cases k <;> simp [resume, Pc.afterNil]
theorem resume_afterErr {k : K} : (resume k).afterErr = false := by
  cases k <;> simp [resume, Pc.afterErr]
theorem resume_saw {k : K} : (resume k).sawDisposed = false := by
  cases k <;> simp [resume, Pc.sawDisposed]

/-- what a single action can do to the flags and tables, whoever performs it -/
theorem act_stable {c : Cfg} {s s' : Sh} {pc pc' : Pc} {sp : List Pc}
    (h : act c s pc = some (pc', s', sp)) :
    (s.children = none → s'.children = none) ∧ (s.cache = none → s'.cache = none) ∧
    (s.disposed = true → s'.disposed = true) ∧ (s.closedSig = true → s'.closedSig = true) ∧
    (s.disposables = none → s.disposed = true → s'.disposables = none) ∧
    (s.errSet = true → s'.errSet = true) ∧ (s.pdisposed = true → s'.pdisposed = true) := by
  cases pc <;> act_cases h
  all_goals (first
    | (simp_all; done)
    | (rename_i hh; obtain ⟨x, hx⟩ := Sh.isSome_cases _ hh; simp_all; done))

end Godi.Conc

namespace Godi.Conc
set_option linter.unusedSimpArgs false
set_option linter.unusedVariables false

theorem act_gate_win {c : Cfg} {s s' : Sh} {pc pc' : Pc} {sp : List Pc}
    (h : act c s pc = some (pc', s', sp)) (hw : pc.wf = true) (hsaw : pc.sawDisposed = true → s.disposed = true)
    (n : Nat) (hn : n + pc.winS + b2n s.closedSig = b2n s.disposed) (hcas : s.casWins = b2n s.disposed) :
    n + pc'.winS + tot winS (spawn sp) + b2n s'.closedSig = b2n s'.disposed ∧ s'.casWins = b2n s'.disposed := by
  have b1 := b2n_le s.disposed
  have b2 := b2n_le s.closedSig
  cases pc <;> act_cases h
  all_goals (first
    | (simp_all [Pc.winS, Pc.wf, Pc.sawDisposed, winS, K.inS, K.top, K.wf]; done)
    | (simp_all [Pc.winS, Pc.wf, Pc.sawDisposed, winS, K.inS, K.top, K.wf]; omega))

/-- facts about the acting thread that the invariant provides -/
structure GateLocal (s : Sh) (pc : Pc) : Prop where
  take : pc.afterTake = true → s.children = none
  takeD : pc.afterTakeD = true → s.disposables = none
  nil : pc.afterNil = true → s.cache = none
  err : pc.afterErr = true → s.errSet = true
  saw : pc.sawDisposed = true → s.disposed = true
  miss : pc.sawCleared = true → s.pdisposed = true
  notInit : pc.isNotInit = false
  pSingle : s.singletons = false → s.pdisposed = true
  win : 0 < pc.winS → s.disposed = true ∧ s.closedSig = false

theorem act_gate_local {c : Cfg} {s s' : Sh} {pc pc' : Pc} {sp : List Pc}
    (h : act c s pc = some (pc', s', sp)) (hw : pc.wf = true) (l : GateLocal s pc) :
    (pc'.afterTake = true → s'.children = none) ∧ (pc'.afterTakeD = true → s'.disposables = none) ∧
    (pc'.afterNil = true → s'.cache = none) ∧ (pc'.sawDisposed = true → s'.disposed = true) ∧
    (∀ p ∈ sp, p.afterTake = false ∧ p.afterTakeD = false ∧ p.afterNil = false ∧ p.sawDisposed = false ∧
      p.afterErr = false ∧ p.sawCleared = false ∧ p.isNotInit = false) ∧
    (pc'.afterErr = true → s'.errSet = true) ∧
    (pc'.sawCleared = true → s'.pdisposed = true) ∧ pc'.isNotInit = false := by
  obtain ⟨l1, l2, l3, l6, l4, l7, l8, l9, l5⟩ := l
  cases pc <;> act_cases h
  all_goals (first
    | (simp_all [Pc.winS, Pc.wf, Pc.sawDisposed, Pc.afterTake, Pc.afterTakeD, Pc.afterNil, Pc.afterErr, Pc.sawCleared, Pc.isNotInit, Res.isNI, K.inS, K.top, K.wf]; done))


theorem act_gate_tables {c : Cfg} {s s' : Sh} {pc pc' : Pc} {sp : List Pc}
    (h : act c s pc = some (pc', s', sp)) (hw : pc.wf = true) (l : GateLocal s pc)
    (sig : s.closedSig = true → s.children = none ∧ s.disposables = none ∧ s.cache = none ∧ s.errSet = true)
    (dCache : s.cache = none → s.disposed = true) (dDisp : s.disposables = none → s.disposed = true)
    (dKids : s.children = none → s.disposed = true) (noPanic : s.panicked = false) (noRes : s.resurrected = false) :
    (s'.closedSig = true → s'.children = none ∧ s'.disposables = none ∧ s'.cache = none ∧ s'.errSet = true) ∧
    (s'.cache = none → s'.disposed = true) ∧ (s'.disposables = none → s'.disposed = true) ∧
    (s'.children = none → s'.disposed = true) ∧ s'.panicked = false ∧ s'.resurrected = false := by
  obtain ⟨l1, l2, l3, l6, l4, l7, l8, l9, l5⟩ := l
  cases pc <;> act_cases h
  all_goals (first
    | (simp_all [Pc.winS, Pc.wf, Pc.sawDisposed, Pc.afterTake, Pc.afterTakeD, Pc.afterNil, Pc.afterErr, Pc.sawCleared, Pc.isNotInit, Res.isNI, K.inS, K.top, K.wf]; done)
    | (cases hd : s.disposables <;> simp_all; done)
    | (simp_all [Option.isSome_iff_ne_none]; done))

theorem act_gate_p {c : Cfg} {s s' : Sh} {pc pc' : Pc} {sp : List Pc}
    (h : act c s pc = some (pc', s', sp)) (n : Nat) (hn : n + pc.winP ≤ b2n s.pdisposed)
    (pScopes : s.scopes = none → s.pdisposed = true) (pSingle : s.singletons = false → s.pdisposed = true) :
    n + pc'.winP + tot winP (spawn sp) ≤ b2n s'.pdisposed ∧
    (s'.scopes = none → s'.pdisposed = true) ∧ (s'.singletons = false → s'.pdisposed = true) := by
  have b1 := b2n_le s.pdisposed
  cases pc <;> act_cases h
  all_goals (first
    | (simp_all [Pc.winP, winP, K.inP]; done)
    | (simp_all [Pc.winP, winP, K.inP] <;> omega)
    | (cases hb : s.pdisposed <;> simp_all [Pc.winP, winP, K.inP] <;> omega))


theorem Gate.local {s : Sys} (inv : Gate s) {th : Thr} (hmem : th ∈ s.thr) : GateLocal s.sh th.pc := by
  refine ⟨inv.take th hmem, inv.takeD th hmem, inv.nil th hmem, inv.err th hmem, inv.saw th hmem, inv.miss th hmem,
    inv.noNotInit th hmem, inv.pSingle, ?_⟩
  intro hpos
  have h1 := inv.win
  have h2 := le_tot (m := winS) hmem
  have b1 := b2n_le s.sh.disposed
  simp only [winS] at h2
  cases hd : s.sh.disposed <;> cases hc : s.sh.closedSig <;> simp_all <;> omega

theorem Gate.step {s s' : Sys} (wf : WfSys s) (inv : Gate s) (st : Step s s') : Gate s' := by
  obtain ⟨th, pc', sp, hmem, hact, hsplit, hx⟩ := st.tot_split
  have hw := wf th hmem
  have loc := inv.local hmem
  have stab := act_stable hact
  obtain ⟨n, hn1, hn2⟩ := hsplit winS
  obtain ⟨np, hp1, hp2⟩ := hsplit winP
  have hwin := act_gate_win hact hw loc.saw n (by have := inv.win; simp only [winS] at hn1; omega) inv.cas
  have hloc := act_gate_local hact hw loc
  have htab := act_gate_tables hact hw loc inv.sig inv.dCache inv.dDisp inv.dKids inv.noPanic inv.noRes
  have hpp := act_gate_p hact np (by have := inv.pwin; simp only [winP] at hp1; omega) inv.pScopes inv.pSingle
  -- the per-thread clauses: an old thread (stability), the acting thread, a spawned thread
  have spawned : ∀ x ∈ spawn sp, x.pc.afterTake = false ∧ x.pc.afterTakeD = false ∧ x.pc.afterNil = false ∧
      x.pc.sawDisposed = false ∧ x.pc.afterErr = false ∧ x.pc.sawCleared = false ∧ x.pc.isNotInit = false := by
    intro x hxs
    simp only [spawn, List.mem_map] at hxs
    obtain ⟨p, hp, rfl⟩ := hxs
    exact hloc.2.2.2.2.1 p hp
  refine ⟨?_, hwin.2, ?_, ?_, ?_, ?_, ?_, ?_, ?_, htab.1, htab.2.1, htab.2.2.1, htab.2.2.2.1, htab.2.2.2.2.1, htab.2.2.2.2.2,
    ?_, hpp.2.1, hpp.2.2⟩
  · simp only [winS] at hn2 ⊢; have := hwin.1; omega
  · intro x hxm hf
    rcases hx x hxm with h | rfl | h
    · exact stab.1 (inv.take x h hf)
    · exact hloc.1 hf
    · simp [(spawned x h).1] at hf
  · intro x hxm hf
    rcases hx x hxm with h | rfl | h
    · have := inv.takeD x h hf
      exact stab.2.2.2.2.1 this (inv.dDisp this)
    · exact hloc.2.1 hf
    · simp [(spawned x h).2.1] at hf
  · intro x hxm hf
    rcases hx x hxm with h | rfl | h
    · exact stab.2.1 (inv.nil x h hf)
    · exact hloc.2.2.1 hf
    · simp [(spawned x h).2.2.1] at hf
  · intro x hxm hf
    rcases hx x hxm with h | rfl | h
    · exact stab.2.2.2.2.2.1 (inv.err x h hf)
    · exact hloc.2.2.2.2.2.1 hf
    · simp [(spawned x h).2.2.2.2.1] at hf
  · intro x hxm hf
    rcases hx x hxm with h | rfl | h
    · exact stab.2.2.1 (inv.saw x h hf)
    · exact hloc.2.2.2.1 hf
    · simp [(spawned x h).2.2.2.1] at hf
  · intro x hxm hf
    rcases hx x hxm with h | rfl | h
    · exact stab.2.2.2.2.2.2 (inv.miss x h hf)
    · exact hloc.2.2.2.2.2.2.1 hf
    · simp [(spawned x h).2.2.2.2.2.1] at hf
  · intro x hxm
    rcases hx x hxm with h | rfl | h
    · exact inv.noNotInit x h
    · exact hloc.2.2.2.2.2.2.2
    · exact (spawned x h).2.2.2.2.2.2
  · simp only [winP] at hp2 ⊢; have := hpp.1; omega

theorem initial_flags {pc : Pc} (h : pc.initial = true) :
    pc.winS = 0 ∧ pc.winP = 0 ∧ pc.afterTake = false ∧ pc.afterTakeD = false ∧ pc.afterNil = false ∧
    pc.sawDisposed = false ∧ pc.afterErr = false ∧ pc.sawCleared = false ∧ pc.isNotInit = false := by
  cases pc with
  | rChk k o => cases o <;> simp_all [Pc.initial, Pc.winS, Pc.winP, Pc.afterTake, Pc.afterTakeD, Pc.afterNil, Pc.sawDisposed, Pc.afterErr, Pc.sawCleared, Pc.isNotInit, Res.isNI]
  | cCas k =>
    cases k with
    | ret r => cases r <;> simp_all [Pc.initial, Pc.winS, Pc.winP, Pc.afterTake, Pc.afterTakeD, Pc.afterNil, Pc.sawDisposed, Pc.afterErr, Pc.sawCleared, Pc.isNotInit, Res.isNI, K.inP]
    | _ => simp_all [Pc.initial]
  | _ => simp_all [Pc.initial, Pc.winS, Pc.winP, Pc.afterTake, Pc.afterTakeD, Pc.afterNil, Pc.sawDisposed, Pc.afterErr, Pc.sawCleared, Pc.isNotInit, Res.isNI]

theorem Gate.init (thr : List Thr) (h : ∀ th ∈ thr, th.pc.initial = true) : Gate (init thr) := by
  have z1 : tot winS thr = 0 := tot_zero_of (fun t ht => (initial_flags (h t ht)).1)
  have z2 : tot winP thr = 0 := tot_zero_of (fun t ht => (initial_flags (h t ht)).2.1)
  refine ⟨by simp [Conc.init, z1], rfl, ?_, ?_, ?_, ?_, ?_, ?_, ?_, by simp [Conc.init], by simp [Conc.init], by simp [Conc.init],
    by simp [Conc.init], rfl, rfl, by simp [Conc.init, z2], by simp [Conc.init], by simp [Conc.init]⟩
  · intro th ht hf; simp [(initial_flags (h th ht)).2.2.1] at hf
  · intro th ht hf; simp [(initial_flags (h th ht)).2.2.2.1] at hf
  · intro th ht hf; simp [(initial_flags (h th ht)).2.2.2.2.1] at hf
  · intro th ht hf; simp [(initial_flags (h th ht)).2.2.2.2.2.2.1] at hf
  · intro th ht hf; simp [(initial_flags (h th ht)).2.2.2.2.2.1] at hf
  · intro th ht hf; simp [(initial_flags (h th ht)).2.2.2.2.2.2.2.1] at hf
  · intro th ht; exact (initial_flags (h th ht)).2.2.2.2.2.2.2.2

end Godi.Conc
