import GodiModel.Conc
import GodiProofs.Conc.Frame
/-! Generic machinery for invariants of M6: thread measures, the shape of a step. -/
namespace Godi.Conc

/-- sum of a per-thread measure -/
def tot (m : Thr → Nat) (l : List Thr) : Nat := (l.map m).sum

@[simp] theorem tot_nil (m : Thr → Nat) : tot m [] = 0 := rfl
@[simp] theorem tot_cons (m : Thr → Nat) (t : Thr) (l : List Thr) : tot m (t :: l) = m t + tot m l := by
  simp [tot]
@[simp] theorem tot_append (m : Thr → Nat) (l₁ l₂ : List Thr) : tot m (l₁ ++ l₂) = tot m l₁ + tot m l₂ := by
  simp [tot]

theorem tot_pos {m : Thr → Nat} {l : List Thr} (h : 0 < tot m l) : ∃ t ∈ l, 0 < m t := by
  induction l with
  | nil => simp at h
  | cons x xs ih =>
    simp only [tot_cons] at h
    by_cases hx : 0 < m x
    · exact ⟨x, by simp, hx⟩
    · have : 0 < tot m xs := by omega
      obtain ⟨t, ht, h'⟩ := ih this
      exact ⟨t, by simp [ht], h'⟩

theorem tot_zero {m : Thr → Nat} {l : List Thr} (h : tot m l = 0) : ∀ t ∈ l, m t = 0 := by
  induction l with
  | nil => simp
  | cons x xs ih =>
    simp only [tot_cons] at h
    intro t ht
    simp only [List.mem_cons] at ht
    rcases ht with rfl | ht
    · omega
    · exact ih (by omega) t ht

theorem tot_zero_of {m : Thr → Nat} {l : List Thr} (h : ∀ t ∈ l, m t = 0) : tot m l = 0 := by
  induction l with
  | nil => rfl
  | cons x xs ih =>
    simp only [tot_cons, h x (by simp), Nat.zero_add]
    exact ih (fun t ht => h t (by simp [ht]))

theorem tot_le {m m' : Thr → Nat} (h : ∀ t, m t ≤ m' t) (l : List Thr) : tot m l ≤ tot m' l := by
  induction l with
  | nil => simp
  | cons x xs ih => simp only [tot_cons]; have := h x; omega

theorem le_tot {m : Thr → Nat} {l : List Thr} {t : Thr} (h : t ∈ l) : m t ≤ tot m l := by
  induction l with
  | nil => simp at h
  | cons x xs ih =>
    simp only [List.mem_cons] at h
    simp only [tot_cons]
    rcases h with rfl | h
    · omega
    · have := ih h; omega

/-- a step seen by measures: one thread changes its pc, some threads are appended -/
theorem Step.tot_eq {s s' : Sys} (h : Step s s') :
    ∃ th pc' sp, th ∈ s.thr ∧ act th.cfg s.sh th.pc = some (pc', s'.sh, sp) ∧
      (∀ m : Thr → Nat, tot m s'.thr + m th = tot m s.thr + m { th with pc := pc' } + tot m (spawn sp)) ∧
      (∀ x ∈ s'.thr, x ∈ s.thr ∨ x = { th with pc := pc' } ∨ x ∈ spawn sp) := by
  cases h with
  | mk sh pre post th pc' sh' sp hact =>
    refine ⟨th, pc', sp, by simp, hact, ?_, ?_⟩
    · intro m; simp only [tot_append, tot_cons]; omega
    · intro x hx
      simp only [List.mem_append, List.mem_cons] at hx ⊢
      rcases hx with (hx | hx | hx) | hx
      · exact Or.inl (Or.inl hx)
      · exact Or.inr (Or.inl hx)
      · exact Or.inl (Or.inr (Or.inr hx))
      · exact Or.inr (Or.inr hx)

theorem list_set_split {α} (l : List α) (t : Nat) (x y : α) (h : l[t]? = some x) :
    ∃ pre post, l = pre ++ x :: post ∧ l.set t y = pre ++ y :: post ∧ pre.length = t := by
  induction l generalizing t with
  | nil => simp at h
  | cons a as ih =>
    cases t with
    | zero =>
      simp only [List.getElem?_cons_zero, Option.some.injEq] at h
      subst h
      exact ⟨[], as, rfl, rfl, rfl⟩
    | succ n =>
      simp only [List.getElem?_cons_succ] at h
      obtain ⟨pre, post, h1, h2, h3⟩ := ih n h
      exact ⟨a :: pre, post, by simp [h1], by simp [h2], by simp [h3]⟩

/-- `Step` is exactly what the executable `step?` computes -/
theorem step_iff (s s' : Sys) : Step s s' ↔ ∃ t, step? s t = some s' := by
  constructor
  · intro h
    cases h with
    | mk sh pre post th pc' sh' sp hact =>
      refine ⟨pre.length, ?_⟩
      simp [step?, hact]
  · rintro ⟨t, h⟩
    unfold step? at h
    split at h
    · cases h
    · rename_i th hth
      split at h
      · cases h
      · rename_i pc' sh' sp hact
        obtain ⟨pre, post, h1, h2, _⟩ := list_set_split s.thr t th { th with pc := pc' } hth
        simp only [Option.some.injEq] at h
        subst h
        rw [h2]
        have : s = ⟨s.sh, pre ++ th :: post⟩ := by cases s; simp_all
        rw [this]
        exact Step.mk s.sh pre post th pc' sh' sp hact

theorem Reach.trans {a b c : Sys} (h1 : Reach a b) (h2 : Reach b c) : Reach a c := by
  induction h2 with
  | refl => exact h1
  | step _ st ih => exact Reach.step ih st

/-- invariants are proved by: holds initially, preserved by every step -/
theorem Reach.inv {P : Sys → Prop} (hstep : ∀ s s', P s → Step s s' → P s') {s s' : Sys}
    (h0 : P s) (r : Reach s s') : P s' := by
  induction r with
  | refl => exact h0
  | step _ st ih => exact hstep _ _ ih st

/-- the same, per measure, with the contribution of all other threads named -/
theorem Step.tot_split {s s' : Sys} (h : Step s s') :
    ∃ th pc' sp, th ∈ s.thr ∧ act th.cfg s.sh th.pc = some (pc', s'.sh, sp) ∧
      (∀ m : Thr → Nat, ∃ n, tot m s.thr = n + m th ∧ tot m s'.thr = n + m { th with pc := pc' } + tot m (spawn sp)) ∧
      (∀ x ∈ s'.thr, x ∈ s.thr ∨ x = { th with pc := pc' } ∨ x ∈ spawn sp) := by
  obtain ⟨th, pc', sp, hmem, hact, htot, hx⟩ := h.tot_eq
  refine ⟨th, pc', sp, hmem, hact, ?_, hx⟩
  intro m
  have := htot m
  have hle := le_tot (m := m) hmem
  exact ⟨tot m s.thr - m th, by omega, by omega⟩

@[simp] theorem spawn_nil : spawn [] = [] := rfl
@[simp] theorem spawn_cons (p : Pc) (l : List Pc) : spawn (p :: l) = { start := p, pc := p } :: spawn l := rfl

end Godi.Conc

namespace Godi.Conc
/-- case analysis on every branch of `act`: after `cases pc`, leaves one goal per branch with
`pc'`, `s'`, `sp` substituted -/
syntax "act_cases " ident : tactic
macro_rules
  | `(tactic| act_cases $h:ident) => `(tactic|
      (simp only [act, afterOk, afterFail, afterMiss, unlNext, resume, eq_self, Bool.false_eq_true, if_true, if_false] at $h:ident
       repeat' (split at $h:ident)
       all_goals (try (simp only [Option.some.injEq, Prod.mk.injEq, reduceCtorEq] at $h:ident))
       all_goals (try (obtain ⟨h1, h2, h3⟩ := $h:ident; subst h1 h2 h3))))
end Godi.Conc
