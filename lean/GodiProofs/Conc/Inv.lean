import GodiProofs.Conc.Once
import GodiProofs.Conc.Cache
import GodiProofs.Conc.Progress
import GodiProofs.Conc.Results
import GodiProofs.Conc.Stale
import GodiProofs.Conc.Collect
/-! All invariants of M6 together; they hold in every state reachable from an initial state. -/
namespace Godi.Conc

structure Inv (s : Sys) : Prop where
  wf : WfSys s
  gate : Gate s
  lock : LockInv s
  kids : KidInv s
  once : OnceInv s
  cache : CacheInv s
  fam : FamSys s
  stale : StaleInv s
  collect : CollectInv s

theorem Inv.step {s s' : Sys} (inv : Inv s) (st : Step s s') : Inv s' :=
  ⟨inv.wf.step st, inv.gate.step inv.wf st, inv.lock.step inv.wf st, inv.kids.step st,
   inv.once.step inv.gate st, inv.cache.step inv.wf inv.gate inv.lock st, inv.fam.step inv.wf st,
   inv.stale.step inv.kids st, inv.collect.step inv.wf inv.gate st⟩

/-- a legal initial thread list: any number of threads, each at the start of one of the API calls -/
def InitThreads (thr : List Thr) : Prop := ∀ th ∈ thr, th.pc.initial = true ∧ th.start = th.pc

theorem Inv.init {thr : List Thr} (h : InitThreads thr) : Inv (Conc.init thr) :=
  have h1 : ∀ th ∈ thr, th.pc.initial = true := fun th ht => (h th ht).1
  ⟨WfSys.init thr h1, Gate.init thr h1, LockInv.init thr h1, KidInv.init thr h1, OnceInv.init thr h1,
   CacheInv.init thr h1, FamSys.init thr h, StaleInv.init thr h1, CollectInv.init thr h1⟩

theorem Inv.reach {thr : List Thr} (h : InitThreads thr) {s : Sys} (r : Reach (Conc.init thr) s) : Inv s :=
  Reach.inv (P := Inv) (fun _ _ i st => i.step st) (Inv.init h) r

end Godi.Conc
