import GodiModel.Conc
/-! Frame lemmas: which fields each state update leaves alone (generated once by a script, then kept). -/
namespace Godi.Conc.Sh

@[simp] theorem cacheWrite_disposed (s : Sh) (k : Key) (i : Inst) : (s.cacheWrite k i).disposed = s.disposed := by
  unfold cacheWrite; first | rfl | (split <;> rfl)
@[simp] theorem cacheWrite_closedSig (s : Sh) (k : Key) (i : Inst) : (s.cacheWrite k i).closedSig = s.closedSig := by
  unfold cacheWrite; first | rfl | (split <;> rfl)
@[simp] theorem cacheWrite_errSet (s : Sh) (k : Key) (i : Inst) : (s.cacheWrite k i).errSet = s.errSet := by
  unfold cacheWrite; first | rfl | (split <;> rfl)
@[simp] theorem cacheWrite_cancelled (s : Sh) (k : Key) (i : Inst) : (s.cacheWrite k i).cancelled = s.cancelled := by
  unfold cacheWrite; first | rfl | (split <;> rfl)
@[simp] theorem cacheWrite_lock (s : Sh) (k : Key) (i : Inst) : (s.cacheWrite k i).lock = s.lock := by
  unfold cacheWrite; first | rfl | (split <;> rfl)
@[simp] theorem cacheWrite_disposables (s : Sh) (k : Key) (i : Inst) : (s.cacheWrite k i).disposables = s.disposables := by
  unfold cacheWrite; first | rfl | (split <;> rfl)
@[simp] theorem cacheWrite_children (s : Sh) (k : Key) (i : Inst) : (s.cacheWrite k i).children = s.children := by
  unfold cacheWrite; first | rfl | (split <;> rfl)
@[simp] theorem cacheWrite_scopes (s : Sh) (k : Key) (i : Inst) : (s.cacheWrite k i).scopes = s.scopes := by
  unfold cacheWrite; first | rfl | (split <;> rfl)
@[simp] theorem cacheWrite_pdisposed (s : Sh) (k : Key) (i : Inst) : (s.cacheWrite k i).pdisposed = s.pdisposed := by
  unfold cacheWrite; first | rfl | (split <;> rfl)
@[simp] theorem cacheWrite_singletons (s : Sh) (k : Key) (i : Inst) : (s.cacheWrite k i).singletons = s.singletons := by
  unfold cacheWrite; first | rfl | (split <;> rfl)
@[simp] theorem cacheWrite_kidDisp (s : Sh) (k : Key) (i : Inst) : (s.cacheWrite k i).kidDisp = s.kidDisp := by
  unfold cacheWrite; first | rfl | (split <;> rfl)
@[simp] theorem cacheWrite_kidClosed (s : Sh) (k : Key) (i : Inst) : (s.cacheWrite k i).kidClosed = s.kidClosed := by
  unfold cacheWrite; first | rfl | (split <;> rfl)
@[simp] theorem cacheWrite_nextI (s : Sh) (k : Key) (i : Inst) : (s.cacheWrite k i).nextI = s.nextI := by
  unfold cacheWrite; first | rfl | (split <;> rfl)
@[simp] theorem cacheWrite_nextC (s : Sh) (k : Key) (i : Inst) : (s.cacheWrite k i).nextC = s.nextC := by
  unfold cacheWrite; first | rfl | (split <;> rfl)
@[simp] theorem cacheWrite_created (s : Sh) (k : Key) (i : Inst) : (s.cacheWrite k i).created = s.created := by
  unfold cacheWrite; first | rfl | (split <;> rfl)
@[simp] theorem cacheWrite_closed (s : Sh) (k : Key) (i : Inst) : (s.cacheWrite k i).closed = s.closed := by
  unfold cacheWrite; first | rfl | (split <;> rfl)
@[simp] theorem cacheWrite_casWins (s : Sh) (k : Key) (i : Inst) : (s.cacheWrite k i).casWins = s.casWins := by
  unfold cacheWrite; first | rfl | (split <;> rfl)
@[simp] theorem cacheWrite_snap (s : Sh) (k : Key) (i : Inst) : (s.cacheWrite k i).snap = s.snap := by
  unfold cacheWrite; first | rfl | (split <;> rfl)
@[simp] theorem cacheWrite_userCancelled (s : Sh) (k : Key) (i : Inst) : (s.cacheWrite k i).userCancelled = s.userCancelled := by
  unfold cacheWrite; first | rfl | (split <;> rfl)
@[simp] theorem cacheWrite_resurrected (s : Sh) (k : Key) (i : Inst) : (s.cacheWrite k i).resurrected = s.resurrected := by
  unfold cacheWrite; first | rfl | (split <;> rfl)
@[simp] theorem childWrite_disposed (s : Sh) (c : Cid) : (s.childWrite c).disposed = s.disposed := by
  unfold childWrite; first | rfl | (split <;> rfl)
@[simp] theorem childWrite_closedSig (s : Sh) (c : Cid) : (s.childWrite c).closedSig = s.closedSig := by
  unfold childWrite; first | rfl | (split <;> rfl)
@[simp] theorem childWrite_errSet (s : Sh) (c : Cid) : (s.childWrite c).errSet = s.errSet := by
  unfold childWrite; first | rfl | (split <;> rfl)
@[simp] theorem childWrite_cancelled (s : Sh) (c : Cid) : (s.childWrite c).cancelled = s.cancelled := by
  unfold childWrite; first | rfl | (split <;> rfl)
@[simp] theorem childWrite_cache (s : Sh) (c : Cid) : (s.childWrite c).cache = s.cache := by
  unfold childWrite; first | rfl | (split <;> rfl)
@[simp] theorem childWrite_lock (s : Sh) (c : Cid) : (s.childWrite c).lock = s.lock := by
  unfold childWrite; first | rfl | (split <;> rfl)
@[simp] theorem childWrite_disposables (s : Sh) (c : Cid) : (s.childWrite c).disposables = s.disposables := by
  unfold childWrite; first | rfl | (split <;> rfl)
@[simp] theorem childWrite_scopes (s : Sh) (c : Cid) : (s.childWrite c).scopes = s.scopes := by
  unfold childWrite; first | rfl | (split <;> rfl)
@[simp] theorem childWrite_pdisposed (s : Sh) (c : Cid) : (s.childWrite c).pdisposed = s.pdisposed := by
  unfold childWrite; first | rfl | (split <;> rfl)
@[simp] theorem childWrite_singletons (s : Sh) (c : Cid) : (s.childWrite c).singletons = s.singletons := by
  unfold childWrite; first | rfl | (split <;> rfl)
@[simp] theorem childWrite_kidDisp (s : Sh) (c : Cid) : (s.childWrite c).kidDisp = s.kidDisp := by
  unfold childWrite; first | rfl | (split <;> rfl)
@[simp] theorem childWrite_kidClosed (s : Sh) (c : Cid) : (s.childWrite c).kidClosed = s.kidClosed := by
  unfold childWrite; first | rfl | (split <;> rfl)
@[simp] theorem childWrite_nextI (s : Sh) (c : Cid) : (s.childWrite c).nextI = s.nextI := by
  unfold childWrite; first | rfl | (split <;> rfl)
@[simp] theorem childWrite_nextC (s : Sh) (c : Cid) : (s.childWrite c).nextC = s.nextC := by
  unfold childWrite; first | rfl | (split <;> rfl)
@[simp] theorem childWrite_created (s : Sh) (c : Cid) : (s.childWrite c).created = s.created := by
  unfold childWrite; first | rfl | (split <;> rfl)
@[simp] theorem childWrite_closed (s : Sh) (c : Cid) : (s.childWrite c).closed = s.closed := by
  unfold childWrite; first | rfl | (split <;> rfl)
@[simp] theorem childWrite_ever (s : Sh) (c : Cid) : (s.childWrite c).ever = s.ever := by
  unfold childWrite; first | rfl | (split <;> rfl)
@[simp] theorem childWrite_casWins (s : Sh) (c : Cid) : (s.childWrite c).casWins = s.casWins := by
  unfold childWrite; first | rfl | (split <;> rfl)
@[simp] theorem childWrite_snap (s : Sh) (c : Cid) : (s.childWrite c).snap = s.snap := by
  unfold childWrite; first | rfl | (split <;> rfl)
@[simp] theorem childWrite_userCancelled (s : Sh) (c : Cid) : (s.childWrite c).userCancelled = s.userCancelled := by
  unfold childWrite; first | rfl | (split <;> rfl)
@[simp] theorem childWrite_resurrected (s : Sh) (c : Cid) : (s.childWrite c).resurrected = s.resurrected := by
  unfold childWrite; first | rfl | (split <;> rfl)
@[simp] theorem scopeWrite_disposed (s : Sh) (c : Nat) : (s.scopeWrite c).disposed = s.disposed := by
  unfold scopeWrite; first | rfl | (split <;> rfl)
@[simp] theorem scopeWrite_closedSig (s : Sh) (c : Nat) : (s.scopeWrite c).closedSig = s.closedSig := by
  unfold scopeWrite; first | rfl | (split <;> rfl)
@[simp] theorem scopeWrite_errSet (s : Sh) (c : Nat) : (s.scopeWrite c).errSet = s.errSet := by
  unfold scopeWrite; first | rfl | (split <;> rfl)
@[simp] theorem scopeWrite_cancelled (s : Sh) (c : Nat) : (s.scopeWrite c).cancelled = s.cancelled := by
  unfold scopeWrite; first | rfl | (split <;> rfl)
@[simp] theorem scopeWrite_cache (s : Sh) (c : Nat) : (s.scopeWrite c).cache = s.cache := by
  unfold scopeWrite; first | rfl | (split <;> rfl)
@[simp] theorem scopeWrite_lock (s : Sh) (c : Nat) : (s.scopeWrite c).lock = s.lock := by
  unfold scopeWrite; first | rfl | (split <;> rfl)
@[simp] theorem scopeWrite_disposables (s : Sh) (c : Nat) : (s.scopeWrite c).disposables = s.disposables := by
  unfold scopeWrite; first | rfl | (split <;> rfl)
@[simp] theorem scopeWrite_children (s : Sh) (c : Nat) : (s.scopeWrite c).children = s.children := by
  unfold scopeWrite; first | rfl | (split <;> rfl)
@[simp] theorem scopeWrite_pdisposed (s : Sh) (c : Nat) : (s.scopeWrite c).pdisposed = s.pdisposed := by
  unfold scopeWrite; first | rfl | (split <;> rfl)
@[simp] theorem scopeWrite_singletons (s : Sh) (c : Nat) : (s.scopeWrite c).singletons = s.singletons := by
  unfold scopeWrite; first | rfl | (split <;> rfl)
@[simp] theorem scopeWrite_kidDisp (s : Sh) (c : Nat) : (s.scopeWrite c).kidDisp = s.kidDisp := by
  unfold scopeWrite; first | rfl | (split <;> rfl)
@[simp] theorem scopeWrite_kidClosed (s : Sh) (c : Nat) : (s.scopeWrite c).kidClosed = s.kidClosed := by
  unfold scopeWrite; first | rfl | (split <;> rfl)
@[simp] theorem scopeWrite_nextI (s : Sh) (c : Nat) : (s.scopeWrite c).nextI = s.nextI := by
  unfold scopeWrite; first | rfl | (split <;> rfl)
@[simp] theorem scopeWrite_nextC (s : Sh) (c : Nat) : (s.scopeWrite c).nextC = s.nextC := by
  unfold scopeWrite; first | rfl | (split <;> rfl)
@[simp] theorem scopeWrite_created (s : Sh) (c : Nat) : (s.scopeWrite c).created = s.created := by
  unfold scopeWrite; first | rfl | (split <;> rfl)
@[simp] theorem scopeWrite_closed (s : Sh) (c : Nat) : (s.scopeWrite c).closed = s.closed := by
  unfold scopeWrite; first | rfl | (split <;> rfl)
@[simp] theorem scopeWrite_ever (s : Sh) (c : Nat) : (s.scopeWrite c).ever = s.ever := by
  unfold scopeWrite; first | rfl | (split <;> rfl)
@[simp] theorem scopeWrite_casWins (s : Sh) (c : Nat) : (s.scopeWrite c).casWins = s.casWins := by
  unfold scopeWrite; first | rfl | (split <;> rfl)
@[simp] theorem scopeWrite_snap (s : Sh) (c : Nat) : (s.scopeWrite c).snap = s.snap := by
  unfold scopeWrite; first | rfl | (split <;> rfl)
@[simp] theorem scopeWrite_userCancelled (s : Sh) (c : Nat) : (s.scopeWrite c).userCancelled = s.userCancelled := by
  unfold scopeWrite; first | rfl | (split <;> rfl)
@[simp] theorem scopeWrite_resurrected (s : Sh) (c : Nat) : (s.scopeWrite c).resurrected = s.resurrected := by
  unfold scopeWrite; first | rfl | (split <;> rfl)
@[simp] theorem childDelete_disposed (s : Sh) (c : Cid) : (s.childDelete c).disposed = s.disposed := by
  unfold childDelete; first | rfl | (split <;> rfl)
@[simp] theorem childDelete_closedSig (s : Sh) (c : Cid) : (s.childDelete c).closedSig = s.closedSig := by
  unfold childDelete; first | rfl | (split <;> rfl)
@[simp] theorem childDelete_errSet (s : Sh) (c : Cid) : (s.childDelete c).errSet = s.errSet := by
  unfold childDelete; first | rfl | (split <;> rfl)
@[simp] theorem childDelete_cancelled (s : Sh) (c : Cid) : (s.childDelete c).cancelled = s.cancelled := by
  unfold childDelete; first | rfl | (split <;> rfl)
@[simp] theorem childDelete_cache (s : Sh) (c : Cid) : (s.childDelete c).cache = s.cache := by
  unfold childDelete; first | rfl | (split <;> rfl)
@[simp] theorem childDelete_lock (s : Sh) (c : Cid) : (s.childDelete c).lock = s.lock := by
  unfold childDelete; first | rfl | (split <;> rfl)
@[simp] theorem childDelete_disposables (s : Sh) (c : Cid) : (s.childDelete c).disposables = s.disposables := by
  unfold childDelete; first | rfl | (split <;> rfl)
@[simp] theorem childDelete_scopes (s : Sh) (c : Cid) : (s.childDelete c).scopes = s.scopes := by
  unfold childDelete; first | rfl | (split <;> rfl)
@[simp] theorem childDelete_pdisposed (s : Sh) (c : Cid) : (s.childDelete c).pdisposed = s.pdisposed := by
  unfold childDelete; first | rfl | (split <;> rfl)
@[simp] theorem childDelete_singletons (s : Sh) (c : Cid) : (s.childDelete c).singletons = s.singletons := by
  unfold childDelete; first | rfl | (split <;> rfl)
@[simp] theorem childDelete_kidDisp (s : Sh) (c : Cid) : (s.childDelete c).kidDisp = s.kidDisp := by
  unfold childDelete; first | rfl | (split <;> rfl)
@[simp] theorem childDelete_kidClosed (s : Sh) (c : Cid) : (s.childDelete c).kidClosed = s.kidClosed := by
  unfold childDelete; first | rfl | (split <;> rfl)
@[simp] theorem childDelete_nextI (s : Sh) (c : Cid) : (s.childDelete c).nextI = s.nextI := by
  unfold childDelete; first | rfl | (split <;> rfl)
@[simp] theorem childDelete_nextC (s : Sh) (c : Cid) : (s.childDelete c).nextC = s.nextC := by
  unfold childDelete; first | rfl | (split <;> rfl)
@[simp] theorem childDelete_created (s : Sh) (c : Cid) : (s.childDelete c).created = s.created := by
  unfold childDelete; first | rfl | (split <;> rfl)
@[simp] theorem childDelete_closed (s : Sh) (c : Cid) : (s.childDelete c).closed = s.closed := by
  unfold childDelete; first | rfl | (split <;> rfl)
@[simp] theorem childDelete_ever (s : Sh) (c : Cid) : (s.childDelete c).ever = s.ever := by
  unfold childDelete; first | rfl | (split <;> rfl)
@[simp] theorem childDelete_casWins (s : Sh) (c : Cid) : (s.childDelete c).casWins = s.casWins := by
  unfold childDelete; first | rfl | (split <;> rfl)
@[simp] theorem childDelete_snap (s : Sh) (c : Cid) : (s.childDelete c).snap = s.snap := by
  unfold childDelete; first | rfl | (split <;> rfl)
@[simp] theorem childDelete_userCancelled (s : Sh) (c : Cid) : (s.childDelete c).userCancelled = s.userCancelled := by
  unfold childDelete; first | rfl | (split <;> rfl)
@[simp] theorem childDelete_panicked (s : Sh) (c : Cid) : (s.childDelete c).panicked = s.panicked := by
  unfold childDelete; first | rfl | (split <;> rfl)
@[simp] theorem childDelete_resurrected (s : Sh) (c : Cid) : (s.childDelete c).resurrected = s.resurrected := by
  unfold childDelete; first | rfl | (split <;> rfl)
@[simp] theorem scopeDelete_disposed (s : Sh) (c : Nat) : (s.scopeDelete c).disposed = s.disposed := by
  unfold scopeDelete; first | rfl | (split <;> rfl)
@[simp] theorem scopeDelete_closedSig (s : Sh) (c : Nat) : (s.scopeDelete c).closedSig = s.closedSig := by
  unfold scopeDelete; first | rfl | (split <;> rfl)
@[simp] theorem scopeDelete_errSet (s : Sh) (c : Nat) : (s.scopeDelete c).errSet = s.errSet := by
  unfold scopeDelete; first | rfl | (split <;> rfl)
@[simp] theorem scopeDelete_cancelled (s : Sh) (c : Nat) : (s.scopeDelete c).cancelled = s.cancelled := by
  unfold scopeDelete; first | rfl | (split <;> rfl)
@[simp] theorem scopeDelete_cache (s : Sh) (c : Nat) : (s.scopeDelete c).cache = s.cache := by
  unfold scopeDelete; first | rfl | (split <;> rfl)
@[simp] theorem scopeDelete_lock (s : Sh) (c : Nat) : (s.scopeDelete c).lock = s.lock := by
  unfold scopeDelete; first | rfl | (split <;> rfl)
@[simp] theorem scopeDelete_disposables (s : Sh) (c : Nat) : (s.scopeDelete c).disposables = s.disposables := by
  unfold scopeDelete; first | rfl | (split <;> rfl)
@[simp] theorem scopeDelete_children (s : Sh) (c : Nat) : (s.scopeDelete c).children = s.children := by
  unfold scopeDelete; first | rfl | (split <;> rfl)
@[simp] theorem scopeDelete_pdisposed (s : Sh) (c : Nat) : (s.scopeDelete c).pdisposed = s.pdisposed := by
  unfold scopeDelete; first | rfl | (split <;> rfl)
@[simp] theorem scopeDelete_singletons (s : Sh) (c : Nat) : (s.scopeDelete c).singletons = s.singletons := by
  unfold scopeDelete; first | rfl | (split <;> rfl)
@[simp] theorem scopeDelete_kidDisp (s : Sh) (c : Nat) : (s.scopeDelete c).kidDisp = s.kidDisp := by
  unfold scopeDelete; first | rfl | (split <;> rfl)
@[simp] theorem scopeDelete_kidClosed (s : Sh) (c : Nat) : (s.scopeDelete c).kidClosed = s.kidClosed := by
  unfold scopeDelete; first | rfl | (split <;> rfl)
@[simp] theorem scopeDelete_nextI (s : Sh) (c : Nat) : (s.scopeDelete c).nextI = s.nextI := by
  unfold scopeDelete; first | rfl | (split <;> rfl)
@[simp] theorem scopeDelete_nextC (s : Sh) (c : Nat) : (s.scopeDelete c).nextC = s.nextC := by
  unfold scopeDelete; first | rfl | (split <;> rfl)
@[simp] theorem scopeDelete_created (s : Sh) (c : Nat) : (s.scopeDelete c).created = s.created := by
  unfold scopeDelete; first | rfl | (split <;> rfl)
@[simp] theorem scopeDelete_closed (s : Sh) (c : Nat) : (s.scopeDelete c).closed = s.closed := by
  unfold scopeDelete; first | rfl | (split <;> rfl)
@[simp] theorem scopeDelete_ever (s : Sh) (c : Nat) : (s.scopeDelete c).ever = s.ever := by
  unfold scopeDelete; first | rfl | (split <;> rfl)
@[simp] theorem scopeDelete_casWins (s : Sh) (c : Nat) : (s.scopeDelete c).casWins = s.casWins := by
  unfold scopeDelete; first | rfl | (split <;> rfl)
@[simp] theorem scopeDelete_snap (s : Sh) (c : Nat) : (s.scopeDelete c).snap = s.snap := by
  unfold scopeDelete; first | rfl | (split <;> rfl)
@[simp] theorem scopeDelete_userCancelled (s : Sh) (c : Nat) : (s.scopeDelete c).userCancelled = s.userCancelled := by
  unfold scopeDelete; first | rfl | (split <;> rfl)
@[simp] theorem scopeDelete_panicked (s : Sh) (c : Nat) : (s.scopeDelete c).panicked = s.panicked := by
  unfold scopeDelete; first | rfl | (split <;> rfl)
@[simp] theorem scopeDelete_resurrected (s : Sh) (c : Nat) : (s.scopeDelete c).resurrected = s.resurrected := by
  unfold scopeDelete; first | rfl | (split <;> rfl)
@[simp] theorem dispAppend_disposed (s : Sh) (i : Inst) : (s.dispAppend i).disposed = s.disposed := by
  unfold dispAppend; first | rfl | (split <;> rfl)
@[simp] theorem dispAppend_closedSig (s : Sh) (i : Inst) : (s.dispAppend i).closedSig = s.closedSig := by
  unfold dispAppend; first | rfl | (split <;> rfl)
@[simp] theorem dispAppend_errSet (s : Sh) (i : Inst) : (s.dispAppend i).errSet = s.errSet := by
  unfold dispAppend; first | rfl | (split <;> rfl)
@[simp] theorem dispAppend_cancelled (s : Sh) (i : Inst) : (s.dispAppend i).cancelled = s.cancelled := by
  unfold dispAppend; first | rfl | (split <;> rfl)
@[simp] theorem dispAppend_cache (s : Sh) (i : Inst) : (s.dispAppend i).cache = s.cache := by
  unfold dispAppend; first | rfl | (split <;> rfl)
@[simp] theorem dispAppend_lock (s : Sh) (i : Inst) : (s.dispAppend i).lock = s.lock := by
  unfold dispAppend; first | rfl | (split <;> rfl)
@[simp] theorem dispAppend_children (s : Sh) (i : Inst) : (s.dispAppend i).children = s.children := by
  unfold dispAppend; first | rfl | (split <;> rfl)
@[simp] theorem dispAppend_scopes (s : Sh) (i : Inst) : (s.dispAppend i).scopes = s.scopes := by
  unfold dispAppend; first | rfl | (split <;> rfl)
@[simp] theorem dispAppend_pdisposed (s : Sh) (i : Inst) : (s.dispAppend i).pdisposed = s.pdisposed := by
  unfold dispAppend; first | rfl | (split <;> rfl)
@[simp] theorem dispAppend_singletons (s : Sh) (i : Inst) : (s.dispAppend i).singletons = s.singletons := by
  unfold dispAppend; first | rfl | (split <;> rfl)
@[simp] theorem dispAppend_kidDisp (s : Sh) (i : Inst) : (s.dispAppend i).kidDisp = s.kidDisp := by
  unfold dispAppend; first | rfl | (split <;> rfl)
@[simp] theorem dispAppend_kidClosed (s : Sh) (i : Inst) : (s.dispAppend i).kidClosed = s.kidClosed := by
  unfold dispAppend; first | rfl | (split <;> rfl)
@[simp] theorem dispAppend_nextI (s : Sh) (i : Inst) : (s.dispAppend i).nextI = s.nextI := by
  unfold dispAppend; first | rfl | (split <;> rfl)
@[simp] theorem dispAppend_nextC (s : Sh) (i : Inst) : (s.dispAppend i).nextC = s.nextC := by
  unfold dispAppend; first | rfl | (split <;> rfl)
@[simp] theorem dispAppend_created (s : Sh) (i : Inst) : (s.dispAppend i).created = s.created := by
  unfold dispAppend; first | rfl | (split <;> rfl)
@[simp] theorem dispAppend_closed (s : Sh) (i : Inst) : (s.dispAppend i).closed = s.closed := by
  unfold dispAppend; first | rfl | (split <;> rfl)
@[simp] theorem dispAppend_ever (s : Sh) (i : Inst) : (s.dispAppend i).ever = s.ever := by
  unfold dispAppend; first | rfl | (split <;> rfl)
@[simp] theorem dispAppend_casWins (s : Sh) (i : Inst) : (s.dispAppend i).casWins = s.casWins := by
  unfold dispAppend; first | rfl | (split <;> rfl)
@[simp] theorem dispAppend_snap (s : Sh) (i : Inst) : (s.dispAppend i).snap = s.snap := by
  unfold dispAppend; first | rfl | (split <;> rfl)
@[simp] theorem dispAppend_userCancelled (s : Sh) (i : Inst) : (s.dispAppend i).userCancelled = s.userCancelled := by
  unfold dispAppend; first | rfl | (split <;> rfl)
@[simp] theorem dispAppend_panicked (s : Sh) (i : Inst) : (s.dispAppend i).panicked = s.panicked := by
  unfold dispAppend; first | rfl | (split <;> rfl)
@[simp] theorem alloc_disposed (s : Sh)  : (s.alloc).disposed = s.disposed := by
  unfold alloc; first | rfl | (split <;> rfl)
@[simp] theorem alloc_closedSig (s : Sh)  : (s.alloc).closedSig = s.closedSig := by
  unfold alloc; first | rfl | (split <;> rfl)
@[simp] theorem alloc_errSet (s : Sh)  : (s.alloc).errSet = s.errSet := by
  unfold alloc; first | rfl | (split <;> rfl)
@[simp] theorem alloc_cancelled (s : Sh)  : (s.alloc).cancelled = s.cancelled := by
  unfold alloc; first | rfl | (split <;> rfl)
@[simp] theorem alloc_cache (s : Sh)  : (s.alloc).cache = s.cache := by
  unfold alloc; first | rfl | (split <;> rfl)
@[simp] theorem alloc_lock (s : Sh)  : (s.alloc).lock = s.lock := by
  unfold alloc; first | rfl | (split <;> rfl)
@[simp] theorem alloc_disposables (s : Sh)  : (s.alloc).disposables = s.disposables := by
  unfold alloc; first | rfl | (split <;> rfl)
@[simp] theorem alloc_children (s : Sh)  : (s.alloc).children = s.children := by
  unfold alloc; first | rfl | (split <;> rfl)
@[simp] theorem alloc_scopes (s : Sh)  : (s.alloc).scopes = s.scopes := by
  unfold alloc; first | rfl | (split <;> rfl)
@[simp] theorem alloc_pdisposed (s : Sh)  : (s.alloc).pdisposed = s.pdisposed := by
  unfold alloc; first | rfl | (split <;> rfl)
@[simp] theorem alloc_singletons (s : Sh)  : (s.alloc).singletons = s.singletons := by
  unfold alloc; first | rfl | (split <;> rfl)
@[simp] theorem alloc_kidDisp (s : Sh)  : (s.alloc).kidDisp = s.kidDisp := by
  unfold alloc; first | rfl | (split <;> rfl)
@[simp] theorem alloc_kidClosed (s : Sh)  : (s.alloc).kidClosed = s.kidClosed := by
  unfold alloc; first | rfl | (split <;> rfl)
@[simp] theorem alloc_nextC (s : Sh)  : (s.alloc).nextC = s.nextC := by
  unfold alloc; first | rfl | (split <;> rfl)
@[simp] theorem alloc_closed (s : Sh)  : (s.alloc).closed = s.closed := by
  unfold alloc; first | rfl | (split <;> rfl)
@[simp] theorem alloc_ever (s : Sh)  : (s.alloc).ever = s.ever := by
  unfold alloc; first | rfl | (split <;> rfl)
@[simp] theorem alloc_casWins (s : Sh)  : (s.alloc).casWins = s.casWins := by
  unfold alloc; first | rfl | (split <;> rfl)
@[simp] theorem alloc_snap (s : Sh)  : (s.alloc).snap = s.snap := by
  unfold alloc; first | rfl | (split <;> rfl)
@[simp] theorem alloc_userCancelled (s : Sh)  : (s.alloc).userCancelled = s.userCancelled := by
  unfold alloc; first | rfl | (split <;> rfl)
@[simp] theorem alloc_panicked (s : Sh)  : (s.alloc).panicked = s.panicked := by
  unfold alloc; first | rfl | (split <;> rfl)
@[simp] theorem alloc_resurrected (s : Sh)  : (s.alloc).resurrected = s.resurrected := by
  unfold alloc; first | rfl | (split <;> rfl)
@[simp] theorem userClose_disposed (s : Sh) (i : Inst) : (s.userClose i).disposed = s.disposed := by
  unfold userClose; first | rfl | (split <;> rfl)
@[simp] theorem userClose_closedSig (s : Sh) (i : Inst) : (s.userClose i).closedSig = s.closedSig := by
  unfold userClose; first | rfl | (split <;> rfl)
@[simp] theorem userClose_errSet (s : Sh) (i : Inst) : (s.userClose i).errSet = s.errSet := by
  unfold userClose; first | rfl | (split <;> rfl)
@[simp] theorem userClose_cancelled (s : Sh) (i : Inst) : (s.userClose i).cancelled = s.cancelled := by
  unfold userClose; first | rfl | (split <;> rfl)
@[simp] theorem userClose_cache (s : Sh) (i : Inst) : (s.userClose i).cache = s.cache := by
  unfold userClose; first | rfl | (split <;> rfl)
@[simp] theorem userClose_lock (s : Sh) (i : Inst) : (s.userClose i).lock = s.lock := by
  unfold userClose; first | rfl | (split <;> rfl)
@[simp] theorem userClose_disposables (s : Sh) (i : Inst) : (s.userClose i).disposables = s.disposables := by
  unfold userClose; first | rfl | (split <;> rfl)
@[simp] theorem userClose_children (s : Sh) (i : Inst) : (s.userClose i).children = s.children := by
  unfold userClose; first | rfl | (split <;> rfl)
@[simp] theorem userClose_scopes (s : Sh) (i : Inst) : (s.userClose i).scopes = s.scopes := by
  unfold userClose; first | rfl | (split <;> rfl)
@[simp] theorem userClose_pdisposed (s : Sh) (i : Inst) : (s.userClose i).pdisposed = s.pdisposed := by
  unfold userClose; first | rfl | (split <;> rfl)
@[simp] theorem userClose_singletons (s : Sh) (i : Inst) : (s.userClose i).singletons = s.singletons := by
  unfold userClose; first | rfl | (split <;> rfl)
@[simp] theorem userClose_kidDisp (s : Sh) (i : Inst) : (s.userClose i).kidDisp = s.kidDisp := by
  unfold userClose; first | rfl | (split <;> rfl)
@[simp] theorem userClose_kidClosed (s : Sh) (i : Inst) : (s.userClose i).kidClosed = s.kidClosed := by
  unfold userClose; first | rfl | (split <;> rfl)
@[simp] theorem userClose_nextI (s : Sh) (i : Inst) : (s.userClose i).nextI = s.nextI := by
  unfold userClose; first | rfl | (split <;> rfl)
@[simp] theorem userClose_nextC (s : Sh) (i : Inst) : (s.userClose i).nextC = s.nextC := by
  unfold userClose; first | rfl | (split <;> rfl)
@[simp] theorem userClose_created (s : Sh) (i : Inst) : (s.userClose i).created = s.created := by
  unfold userClose; first | rfl | (split <;> rfl)
@[simp] theorem userClose_ever (s : Sh) (i : Inst) : (s.userClose i).ever = s.ever := by
  unfold userClose; first | rfl | (split <;> rfl)
@[simp] theorem userClose_casWins (s : Sh) (i : Inst) : (s.userClose i).casWins = s.casWins := by
  unfold userClose; first | rfl | (split <;> rfl)
@[simp] theorem userClose_snap (s : Sh) (i : Inst) : (s.userClose i).snap = s.snap := by
  unfold userClose; first | rfl | (split <;> rfl)
@[simp] theorem userClose_userCancelled (s : Sh) (i : Inst) : (s.userClose i).userCancelled = s.userCancelled := by
  unfold userClose; first | rfl | (split <;> rfl)
@[simp] theorem userClose_panicked (s : Sh) (i : Inst) : (s.userClose i).panicked = s.panicked := by
  unfold userClose; first | rfl | (split <;> rfl)
@[simp] theorem userClose_resurrected (s : Sh) (i : Inst) : (s.userClose i).resurrected = s.resurrected := by
  unfold userClose; first | rfl | (split <;> rfl)

theorem cacheWrite_some (s : Sh) (k : Key) (i : Inst) (c : KV (Option Inst)) (h : s.cache = some c) :
    (s.cacheWrite k i).cache = some (c.set k (some i)) ∧ (s.cacheWrite k i).ever = s.ever.set k (i :: s.ever.get k) ∧
    (s.cacheWrite k i).panicked = s.panicked := by
  unfold cacheWrite; rw [h]; exact ⟨rfl, rfl, rfl⟩
theorem childWrite_some (s : Sh) (c : Cid) (l : List Cid) (h : s.children = some l) :
    (s.childWrite c).children = some (c :: l) ∧ (s.childWrite c).panicked = s.panicked := by
  unfold childWrite; rw [h]; exact ⟨rfl, rfl⟩
theorem scopeWrite_some (s : Sh) (c : Nat) (l : List Nat) (h : s.scopes = some l) :
    (s.scopeWrite c).scopes = some (c :: l) ∧ (s.scopeWrite c).panicked = s.panicked := by
  unfold scopeWrite; rw [h]; exact ⟨rfl, rfl⟩
theorem dispAppend_some (s : Sh) (i : Inst) (l : List Inst) (h : s.disposables = some l) :
    (s.dispAppend i).disposables = some (l ++ [i]) ∧ (s.dispAppend i).resurrected = s.resurrected := by
  unfold dispAppend; rw [h]; exact ⟨rfl, rfl⟩
@[simp] theorem childDelete_children (s : Sh) (c : Cid) : (s.childDelete c).children = s.children.map (·.filter (· != c)) := rfl
@[simp] theorem scopeDelete_scopes (s : Sh) (c : Nat) : (s.scopeDelete c).scopes = s.scopes.map (·.filter (· != c)) := rfl
@[simp] theorem alloc_nextI (s : Sh) : s.alloc.nextI = s.nextI + 1 := rfl
@[simp] theorem alloc_created (s : Sh) : s.alloc.created = s.nextI :: s.created := rfl
@[simp] theorem userClose_closed (s : Sh) (i : Inst) : (s.userClose i).closed = i :: s.closed := rfl
theorem isSome_cases {α} (o : Option α) (h : o.isSome = true) : ∃ x, o = some x := by
  cases o <;> simp_all
theorem not_isNone_cases {α} (o : Option α) (h : ¬ o.isNone = true) : ∃ x, o = some x := by
  cases o <;> simp_all
theorem cacheGet_none (s : Sh) (k : Key) (h : s.cache = none) : s.cacheGet k = none := by
  unfold cacheGet; rw [h]
theorem cacheGet_some (s : Sh) (k : Key) (c : KV (Option Inst)) (h : s.cache = some c) : s.cacheGet k = c.get k := by
  unfold cacheGet; rw [h]

@[simp] theorem dispAppend_disposables (s : Sh) (i : Inst) :
    (s.dispAppend i).disposables = some (s.disposables.getD [] ++ [i]) := by
  unfold dispAppend; cases s.disposables <;> rfl
@[simp] theorem dispAppend_resurrected (s : Sh) (i : Inst) :
    (s.dispAppend i).resurrected = (s.resurrected || s.disposables.isNone) := by
  unfold dispAppend; cases s.disposables <;> simp
@[simp] theorem cacheWrite_cache (s : Sh) (k : Key) (i : Inst) :
    (s.cacheWrite k i).cache = s.cache.map (·.set k (some i)) := by
  unfold cacheWrite; cases s.cache <;> rfl
@[simp] theorem cacheWrite_panicked (s : Sh) (k : Key) (i : Inst) :
    (s.cacheWrite k i).panicked = (s.panicked || s.cache.isNone) := by
  unfold cacheWrite; cases s.cache <;> simp
@[simp] theorem cacheWrite_ever (s : Sh) (k : Key) (i : Inst) :
    (s.cacheWrite k i).ever = if s.cache.isSome then s.ever.set k (i :: s.ever.get k) else s.ever := by
  unfold cacheWrite; cases s.cache <;> simp
@[simp] theorem childWrite_children (s : Sh) (c : Cid) : (s.childWrite c).children = s.children.map (c :: ·) := by
  unfold childWrite; cases s.children <;> rfl
@[simp] theorem childWrite_panicked (s : Sh) (c : Cid) :
    (s.childWrite c).panicked = (s.panicked || s.children.isNone) := by
  unfold childWrite; cases s.children <;> simp
@[simp] theorem scopeWrite_scopes (s : Sh) (c : Nat) : (s.scopeWrite c).scopes = s.scopes.map (c :: ·) := by
  unfold scopeWrite; cases s.scopes <;> rfl
@[simp] theorem scopeWrite_panicked (s : Sh) (c : Nat) :
    (s.scopeWrite c).panicked = (s.panicked || s.scopes.isNone) := by
  unfold scopeWrite; cases s.scopes <;> simp
end Godi.Conc.Sh
