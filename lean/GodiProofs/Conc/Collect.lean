import GodiProofs.Conc.Gate
/-! `S.Close` and its children (repair 0c7a2e0 of finding F1'): the children are taken from the table
BEFORE the context is cancelled, so `S.Close` itself never wakes a child's watcher while the child is
still in the table; and every child of the snapshot stays on the closer's work list until its
`dispose` has completed — by the closer itself, or by somebody else for whom the closer waits
(`kWait`) and whose outcome (`closeErr`, written before the `closed` channel is closed) it reads. -/
namespace Godi.Conc
set_option linter.unusedSimpArgs false
set_option linter.unusedVariables false

/-- the children the thread inside `S.Close` still has to dispose (the one in progress first) -/
def Pc.work : Pc → Option (List Cid)
  | .cCancel l _ | .cKids l _ => some l
  | .kCas c (.kids rest _) | .kWait c (.kids rest _) | .kDetP c (.kids rest _) | .kDetS c (.kids rest _)
  | .kSig c (.kids rest _) => some (c :: rest)
  | .cTakeD _ | .cDrain _ _ | .cDetS _ | .cNil _ | .cErr _ | .cSig _ => some []
  | _ => none

theorem work_winS {pc : Pc} {l : List Cid} (h : pc.work = some l) : pc.winS = 1 := by
  cases pc <;> simp_all [Pc.work, Pc.winS]
  all_goals (rename_i k; cases k <;> simp_all [Pc.work, Pc.winS, K.inS])

/-- every child of the snapshot is still on the work list or completely disposed -/
def Covered (s : Sh) (l : List Cid) : Prop := ∀ x ∈ s.snap, x ∈ l ∨ x ∈ s.kidClosed

theorem act_collect {c : Cfg} {s s' : Sh} {pc pc' : Pc} {sp : List Pc}
    (h : act c s pc = some (pc', s', sp)) (hw : pc.wf = true)
    (take : pc.afterTake = true → s.children = none)
    (win : 0 < pc.winS → s.closedSig = false)
    (cov : ∀ l, pc.work = some l → Covered s l)
    (canc : s.cancelled = true → s.userCancelled = true ∨ s.children = none)
    (sig : s.closedSig = true → ∀ x ∈ s.snap, x ∈ s.kidClosed) :
    (∀ l, pc'.work = some l → Covered s' l) ∧ (∀ p ∈ sp, p.work = none) ∧
    (s'.cancelled = true → s'.userCancelled = true ∨ s'.children = none) ∧
    (s'.closedSig = true → ∀ x ∈ s'.snap, x ∈ s'.kidClosed) ∧
    (s'.snap = s.snap ∨ (0 < pc.winS ∧ pc.work = none)) ∧ (∀ x, x ∈ s.kidClosed → x ∈ s'.kidClosed) := by
  cases pc <;> (try (cases ‹K›)) <;> act_cases h
  all_goals (first
    | (simp_all [Pc.work, Pc.winS, Pc.wf, Pc.afterTake, Covered, K.inS, K.top, K.wf]; done)
    | (simp_all [Pc.work, Pc.winS, Pc.wf, Pc.afterTake, Covered, K.inS, K.top, K.wf]
       intro x hx; rcases cov x hx with (h | h) | h <;> simp_all))


structure CollectInv (s : Sys) : Prop where
  cov : ∀ th ∈ s.thr, ∀ l, th.pc.work = some l → Covered s.sh l
  canc : s.sh.cancelled = true → s.sh.userCancelled = true ∨ s.sh.children = none
  sig : s.sh.closedSig = true → ∀ x ∈ s.sh.snap, x ∈ s.sh.kidClosed

theorem CollectInv.step {s s' : Sys} (wf : WfSys s) (g : Gate s) (inv : CollectInv s) (st : Step s s') :
    CollectInv s' := by
  obtain ⟨th, pc', sp, hmem, hact, hsplit, hx⟩ := st.tot_split
  have loc := g.local hmem
  have := act_collect hact (wf th hmem) loc.take (fun hp => (loc.win hp).2) (inv.cov th hmem) inv.canc inv.sig
  obtain ⟨c1, c2, c3, c4, c5, c6⟩ := this
  refine ⟨?_, c3, c4⟩
  intro x hxm l hl
  rcases hx x hxm with h | rfl | h
  · -- another thread: its work list is untouched; the snapshot changes only when nobody else is inside
    rcases c5 with e | ⟨hp, hnone⟩
    · intro y hy
      rw [e] at hy
      rcases inv.cov x h l hl y hy with h1 | h1
      · exact Or.inl h1
      · exact Or.inr (c6 y h1)
    · exfalso
      obtain ⟨n, hn1, _⟩ := hsplit winS
      have hw := g.win
      have b := b2n_le s.sh.disposed
      have e1 : winS th = th.pc.winS := rfl
      have hn0 : n = 0 := by omega
      -- `x` is one of the others, and it is inside `S.Close` too: impossible
      have hx1 : x.pc.winS = 1 := work_winS hl
      obtain ⟨pre, post, hsp⟩ := List.append_of_mem hmem
      have hxin : x ∈ pre ∨ x = th ∨ x ∈ post := by
        rw [hsp] at h; simpa [List.mem_append, List.mem_cons] using h
      have htot : tot winS s.thr = tot winS pre + winS th + tot winS post := by
        rw [hsp]; simp [tot_append, tot_cons]; omega
      rcases hxin with hx2 | hx2 | hx2
      · have := le_tot (m := winS) hx2; simp only [winS] at this; omega
      · subst hx2
        simp [hnone] at hl
      · have := le_tot (m := winS) hx2; simp only [winS] at this; omega
  · exact c1 l hl
  · simp only [spawn, List.mem_map] at h
    obtain ⟨p, hp, rfl⟩ := h
    simp [c2 p hp] at hl

theorem initial_work {pc : Pc} (h : pc.initial = true) : pc.work = none := by
  cases pc <;> simp_all [Pc.initial, Pc.work]

theorem CollectInv.init (thr : List Thr) (h : ∀ th ∈ thr, th.pc.initial = true) : CollectInv (init thr) := by
  refine ⟨fun th ht l hl => ?_, by simp [Conc.init], by simp [Conc.init]⟩
  simp [initial_work (h th ht)] at hl

end Godi.Conc
