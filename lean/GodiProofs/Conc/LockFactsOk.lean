import GodiModel.Gen.LockFacts
import GodiModel.Conc
/-!
# Tie T2 for M6: the synchronisation skeleton of scope.go / provider.go is the one M6 was written from

`Godi.Gen.LockFacts.facts` is regenerated from the source by `extract/lockfacts` on every run.
`expected` below is the table the action programs of `GodiModel/Conc.lean` were written from (the
comments name the M6 action each group of events is). `facts_eq` fails as soon as a lock is moved,
removed or added, a guarded field is touched somewhere else or under other locks, a nil-assignment,
channel operation, atomic operation or call into user code is reordered, or the extractor meets a
statement it does not understand (`.unknown`).

The structural theorems are what M6 *assumes* when it treats a mutex-protected region as one atomic
action and leaves table mutexes out of the deadlock argument:
* `table_locks_flat` — no mutex is ever acquired while another one is held, none is held at a
  blocking channel receive, at a call to another function of the two files or to user code
  (`Close`, `Invoke`, `cancel`), or at a `return` (except the creation mutex `m` that
  `lockCreation` hands to its caller);
* `guarded_fields_locked` — every access to a field that has a `<field>Mu` sibling happens with that
  mutex held (reads: at least read-locked).
-/
namespace Godi.Conc.LockExpected
open Godi.LockIR

def newScope : List Ev := [
  .atomic "AddUint64" "rootProvider.scopeCounter" [],
  .call "s.runInitializers" [],
  .call "s.Close" [],
  .ret []
]

def provider_Close : List Ev := [
  .atomic "CompareAndSwapInt32" "p.disposed" [],   -- pCas (a loser returns nil at once)
  .ret [],
  .lock "p.scopesMu" [],   -- pTake [
  .read "p.scopes" ["p.scopesMu"],
  .nilAssign "p.scopes" ["p.scopesMu"],
  .unlock "p.scopesMu",   -- pTake ]
  .call "s.dispose" [],   -- pScopes -> cCas / kCas
  .call "p.rootScope.dispose" [],   -- pRest ...
  .lock "p.disposablesMu" [],
  .read "p.disposables" ["p.disposablesMu"],
  .nilAssign "p.disposables" ["p.disposablesMu"],
  .unlock "p.disposablesMu",
  .call "disposables[].Close" [],
  .lock "p.singletonKeysMu" [],
  .read "p.singletonKeys" ["p.singletonKeysMu"],
  .atomic "sync.Map.Delete" "p.singletons" ["p.singletonKeysMu"],
  .nilAssign "p.singletonKeys" ["p.singletonKeysMu"],
  .unlock "p.singletonKeysMu",
  .lock "p.voidReturnScopedDescriptorsMu" [],
  .nilAssign "p.voidReturnScopedDescriptors" ["p.voidReturnScopedDescriptorsMu"],
  .unlock "p.voidReturnScopedDescriptorsMu",
  .ret []
]

def provider_CreateScope : List Ev := [
  .atomic "LoadInt32" "p.disposed" [],
  .ret [],
  .call "newScope" [],
  .ret [],
  .lock "p.scopesMu" [],
  .read "p.scopes" ["p.scopesMu"],
  .unlock "p.scopesMu",
  .call "s.Close" [],
  .ret [],
  .write "p.scopes" ["p.scopesMu"],
  .unlock "p.scopesMu",
  .spawnBegin,
  .chanRecv "ctx.Done()" [],
  .call "s.Close" [],
  .spawnEnd,
  .ret []
]

def provider_Get : List Ev := [
  .atomic "LoadInt32" "p.disposed" [],
  .ret [],
  .call "p.rootScope.Get" [],
  .ret []
]

def provider_GetGroup : List Ev := [
  .atomic "LoadInt32" "p.disposed" [],
  .ret [],
  .call "p.rootScope.GetGroup" [],
  .ret []
]

def provider_GetKeyed : List Ev := [
  .atomic "LoadInt32" "p.disposed" [],
  .ret [],
  .call "p.rootScope.GetKeyed" [],
  .ret []
]

def provider_createAllSingletonsWithContext : List Ev := [
  .ret [],
  .chanRecv "ctx.Done()" [],
  .ret [],
  .call "p.getSingleton" [],
  .ret [],   -- the identity of a result-object field the constructor left nil (b8e004e)
  .call "p.rootScope.createInstance" [],
  .ret []
]

def provider_getSingleton : List Ev := [
  .atomic "sync.Map.Load" "p.singletons" [],   -- gLoad
  .ret []
]

def provider_setSingleton : List Ev := [
  .ret [],
  .call "p.storeSingleton" [],
  .lock "p.disposablesMu" [],
  .read "p.disposables" ["p.disposablesMu"],
  .assign "p.disposables" ["p.disposablesMu"],
  .unlock "p.disposablesMu"
]

def provider_storeSingleton : List Ev := [
  .ret [],
  .atomic "sync.Map.Store" "p.singletons" [],
  .lock "p.singletonKeysMu" [],
  .read "p.singletonKeys" ["p.singletonKeysMu"],
  .assign "p.singletonKeys" ["p.singletonKeysMu"],
  .unlock "p.singletonKeysMu"
]

def scope_Close : List Ev := [
  .call "s.dispose" []
]

def scope_CreateScope : List Ev := [
  .atomic "LoadInt32" "s.disposed" [],   -- sChk
  .ret [],
  .call "newScope" [],   -- sInit (USER initializers inside)
  .ret [],
  .lock "s.childrenMu" [],   -- sAdd [
  .read "s.children" ["s.childrenMu"],   -- sAdd: nil check inside the region
  .unlock "s.childrenMu",   -- sAdd ] (rejected)
  .call "child.Close" [],   -- kCas c (ret disposed): after the unlock
  .ret [],
  .write "s.children" ["s.childrenMu"],   -- sAdd: the write
  .unlock "s.childrenMu",   -- sAdd ]
  .lock "s.rootProvider.scopesMu" [],   -- sReg [
  .read "s.rootProvider.scopes" ["s.rootProvider.scopesMu"],   -- sReg: nil check inside the region
  .unlock "s.rootProvider.scopesMu",   -- sReg ] (rejected)
  .call "child.Close" [],   -- kCas c (ret provDisposed): after the unlock
  .ret [],
  .write "s.rootProvider.scopes" ["s.rootProvider.scopesMu"],   -- sReg: the write
  .unlock "s.rootProvider.scopesMu",   -- sReg ]
  .atomic "LoadInt32" "child.disposed" [],   -- sRe (64d7b34): was the child closed between the two registrations?
  .lock "s.rootProvider.scopesMu" [],   -- sUndo [
  .delete "s.rootProvider.scopes" ["s.rootProvider.scopesMu"],   -- sUndo: take the closed child out again
  .unlock "s.rootProvider.scopesMu",   -- sUndo ]
  .ret [],
  .spawnBegin,   -- sSpawn
  .chanRecv "ctx.Done()" [],   -- wKid
  .call "child.Close" [],   -- wKid -> kCas c (ret okUnit)
  .spawnEnd,
  .ret []
]

def scope_Get : List Ev := [
  .atomic "LoadInt32" "s.disposed" [],   -- rChk / tChk / gChk
  .ret [],
  .call "s.resolve" [],
  .ret []
]

def scope_GetGroup : List Ev := [
  .atomic "LoadInt32" "s.disposed" [],
  .ret [],
  .call "s.resolve" [],
  .ret []
]

def scope_GetKeyed : List Ev := [
  .atomic "LoadInt32" "s.disposed" [],
  .ret [],
  .call "s.resolve" [],
  .ret []
]

def scope_createInstance : List Ev := [
  .call "s.setInstance" [],
  .call "s.shareInstance" [],
  .call "invoker.Invoke" [],   -- rCtor / tCtor / the initializer (USER), after the parameters were resolved through s.Get
  .call "s.setInstance" [],
  .call "s.setInstance" [],
  .call "s.shareInstance" [],   -- nil result-object fields are remembered as constructed (b8e004e); not in M6 (no fan-out)
  .call "s.shareInstance" [],   -- so is a nil interface-typed return value of a multi-return constructor (47ef227); not in M6
  .call "s.setInstance" [],
  .call "s.setInstance" [],
  .call "s.shareInstance" []
]

def scope_dispose : List Ev := [
  .atomic "CompareAndSwapInt32" "s.disposed" [],   -- cCas
  .chanRecv "s.closed" [],   -- cWait (the loser of the CAS)
  .plainRead "s.closeErr" [],   -- cWait: read after the receive
  .ret [],
  .deferChanClose "s.closed",   -- cSig (deferred first, runs last)
  .deferClosureBegin,
  .plainWrite "s.closeErr" [],   -- cErr (deferred second, runs before cSig)
  .closureEnd,
  .lock "s.childrenMu" [],   -- cTake [ (before the cancel: 0c7a2e0)
  .read "s.children" ["s.childrenMu"],
  .nilAssign "s.children" ["s.childrenMu"],
  .unlock "s.childrenMu",   -- cTake ]
  .call "s.cancel" [],   -- cCancel
  .call "child.dispose" [],   -- cKids -> kCas ... (nested dispose of each child)
  .lock "s.disposablesMu" [],   -- cTakeD [
  .read "s.disposables" ["s.disposablesMu"],
  .nilAssign "s.disposables" ["s.disposablesMu"],
  .unlock "s.disposablesMu",   -- cTakeD ]
  .call "disposables[].Close" [],   -- cDrain (USER Close, reverse order)
  .lock "s.parentScope.childrenMu" [],   -- kDetP [ (skipped for S: parentScope == nil)
  .delete "s.parentScope.children" ["s.parentScope.childrenMu"],
  .unlock "s.parentScope.childrenMu",   -- kDetP ]
  .lock "s.rootProvider.scopesMu" [],   -- cDetS / kDetS [
  .delete "s.rootProvider.scopes" ["s.rootProvider.scopesMu"],
  .unlock "s.rootProvider.scopesMu",   -- cDetS / kDetS ]
  .lock "s.instancesMu" [],   -- cNil [
  .nilAssign "s.instances" ["s.instancesMu"],
  .unlock "s.instancesMu",   -- cNil ]
  .ret []
]

def scope_getInstance : List Ev := [
  .rlock "s.instancesMu" [],   -- rRead / rRe [
  .read "s.instances" ["s.instancesMu:r"],
  .runlock "s.instancesMu",   -- rRead / rRe ]
  .ret []
]

def scope_lockCreation : List Ev := [
  .lock "s.creatingMu" [],   -- rMu [
  .read "s.creating" ["s.creatingMu"],
  .assign "s.creating" ["s.creatingMu"],
  .read "s.creating" ["s.creatingMu"],
  .write "s.creating" ["s.creatingMu"],
  .unlock "s.creatingMu",   -- rMu ] (no delete: the table only grows)
  .lock "m" [],   -- rLock (blocking, nothing else held)
  .methodValue "m.Unlock",   -- rUnl is `defer unlock()` in resolve
  .ret ["m"]
]

def scope_resolve : List Ev := [
  .ret [],
  .call "s.rootProvider.getSingleton" [],   -- gLoad
  .ret [],
  .atomic "LoadInt32" "s.disposed" [],   -- gMiss1 (0cb30f3)
  .ret [],
  .atomic "LoadInt32" "s.rootProvider.disposed" [],   -- gMiss2
  .ret [],
  .call "s.getInstance" [],   -- rRead
  .ret [],
  .call "s.lockCreation" [],   -- rMu, rLock
  .deferCall "unlock" [],   -- rUnl
  .call "s.getInstance" [],   -- rRe
  .ret [],
  .call "s.createInstance" [],   -- nested resolution of the parameters, rCtor, rSet, rTrk
  .ret [],
  .call "s.createInstance" [],   -- tCtor, tTrk
  .ret []
]

def scope_runInitializers : List Ev := [
  .rlock "s.rootProvider.voidReturnScopedDescriptorsMu" [],
  .read "s.rootProvider.voidReturnScopedDescriptors" ["s.rootProvider.voidReturnScopedDescriptorsMu:r"],
  .runlock "s.rootProvider.voidReturnScopedDescriptorsMu",
  .call "s.createInstance" [],
  .ret []
]

def scope_setInstance : List Ev := [
  .call "s.rootProvider.setSingleton" [],
  .lock "s.instancesMu" [],   -- rSet [
  .read "s.instances" ["s.instancesMu"],   -- rSet: nil check inside the region
  .write "s.instances" ["s.instancesMu"],   -- rSet: the write
  .unlock "s.instancesMu",   -- rSet ]
  .call "s.track" [],   -- rTrk (always reached: scoped)
  .ret [],
  .call "s.track" [],   -- tTrk (transient)
  .ret []
]

def scope_shareInstance : List Ev := [
  .call "s.rootProvider.storeSingleton" [],
  .lock "s.instancesMu" [],
  .read "s.instances" ["s.instancesMu"],
  .write "s.instances" ["s.instancesMu"],
  .unlock "s.instancesMu"
]

def scope_track : List Ev := [
  .lock "s.disposablesMu" [],   -- rTrk / tTrk [
  .atomic "LoadInt32" "s.disposed" ["s.disposablesMu"],   -- the disposed check INSIDE the region
  .unlock "s.disposablesMu",   -- ] (late)
  .call "d.Close" [],   -- rSelf / tSelf (USER Close of the late instance, after the unlock)
  .ret [],
  .read "s.disposables" ["s.disposablesMu"],
  .assign "s.disposables" ["s.disposablesMu"],   -- the append
  .unlock "s.disposablesMu",
  .ret []
]

def facts : List (String × List Ev) := [
  ("newScope", newScope),
  ("provider.Close", provider_Close),
  ("provider.CreateScope", provider_CreateScope),
  ("provider.Get", provider_Get),
  ("provider.GetGroup", provider_GetGroup),
  ("provider.GetKeyed", provider_GetKeyed),
  ("provider.createAllSingletonsWithContext", provider_createAllSingletonsWithContext),
  ("provider.getSingleton", provider_getSingleton),
  ("provider.setSingleton", provider_setSingleton),
  ("provider.storeSingleton", provider_storeSingleton),
  ("scope.Close", scope_Close),
  ("scope.CreateScope", scope_CreateScope),
  ("scope.Get", scope_Get),
  ("scope.GetGroup", scope_GetGroup),
  ("scope.GetKeyed", scope_GetKeyed),
  ("scope.createInstance", scope_createInstance),
  ("scope.dispose", scope_dispose),
  ("scope.getInstance", scope_getInstance),
  ("scope.lockCreation", scope_lockCreation),
  ("scope.resolve", scope_resolve),
  ("scope.runInitializers", scope_runInitializers),
  ("scope.setInstance", scope_setInstance),
  ("scope.shareInstance", scope_shareInstance),
  ("scope.track", scope_track)
]


end Godi.Conc.LockExpected

namespace Godi.Conc.LockFactsOk
open Godi.LockIR Godi.Gen.LockFacts

/-- THE TIE: the extracted synchronisation events are exactly the expected ones. -/
theorem facts_eq : facts = Godi.Conc.LockExpected.facts := by decide

def Ev.isUnknown : Ev → Bool
  | .unknown _ => true
  | _ => false

/-- events that must happen with no mutex held -/
def Ev.flatOk : Ev → Bool
  | .lock _ h | .rlock _ h | .chanRecv _ h | .call _ h | .deferCall _ h => h.isEmpty
  | .ret h => h.all (· == "m")
  | _ => true

/-- accesses to guarded fields -/
def Ev.guardOk : Ev → Bool
  | .read f h => h.contains (f ++ "Mu") || h.contains (f ++ "Mu:r")
  | .write f h | .delete f h | .nilAssign f h | .assign f h => h.contains (f ++ "Mu")
  | _ => true

def allEvents (p : Ev → Bool) (t : List (String × List Ev)) : Bool := t.all (fun fe => fe.2.all p)

theorem no_unknown : allEvents (fun e => !Ev.isUnknown e) facts = true := by decide
theorem table_locks_flat : allEvents Ev.flatOk facts = true := by decide
theorem guarded_fields_locked : allEvents Ev.guardOk facts = true := by decide

end Godi.Conc.LockFactsOk
