import GodiProofs.Conc.Gate
/-! The creation mutexes: `lock q` is held iff exactly one thread is inside the locked region of `q`. -/
namespace Godi.Conc
set_option linter.unusedSimpArgs false
set_option linter.unusedVariables false

/-- the thread holds the creation mutex of key `q` (a thread resolving `b` on behalf of `a` holds `a`'s) -/
def Pc.holdsL (q : Key) : Pc → Nat
  | .rChk _ o | .rRead _ o | .rMu _ o | .rLock _ o => b2n (o && q == .a)
  | .rRe k o | .rCtor k o | .rSet k o _ | .rTrk k o _ | .rSelf k o _ | .rUnl k o _ => b2n (k == q) + b2n (o && q == .a)
  | _ => 0

def holdsL (q : Key) (th : Thr) : Nat := th.pc.holdsL q

theorem act_lock {c : Cfg} {s s' : Sh} {pc pc' : Pc} {sp : List Pc} (q : Key)
    (h : act c s pc = some (pc', s', sp)) (hw : pc.wf = true)
    (n : Nat) (hn : n + pc.holdsL q = b2n (s.lock.get q)) :
    n + pc'.holdsL q + tot (holdsL q) (spawn sp) = b2n (s'.lock.get q) := by
  have b1 := b2n_le (s.lock.get q)
  cases q <;> cases pc <;> (repeat (cases ‹Key›)) <;> (repeat (cases ‹Bool›)) <;> act_cases h
  all_goals (first
    | (simp_all [Pc.holdsL, holdsL, Pc.wf, KV.get, KV.set]; done)
    | (simp_all [Pc.holdsL, holdsL, Pc.wf, KV.get, KV.set] <;> omega))

structure LockInv (s : Sys) : Prop where
  held : ∀ q, tot (holdsL q) s.thr = b2n (s.sh.lock.get q)

theorem LockInv.step {s s' : Sys} (wf : WfSys s) (inv : LockInv s) (st : Step s s') : LockInv s' := by
  obtain ⟨th, pc', sp, hmem, hact, hsplit, hx⟩ := st.tot_split
  refine ⟨fun q => ?_⟩
  obtain ⟨n, hn1, hn2⟩ := hsplit (holdsL q)
  have := act_lock q hact (wf th hmem) n (by have := inv.held q; simp only [holdsL] at hn1 ⊢; omega)
  simp only [holdsL] at hn2 ⊢
  omega

theorem initial_holdsL {pc : Pc} (h : pc.initial = true) (q : Key) : pc.holdsL q = 0 := by
  cases pc with
  | rChk k o => cases o <;> simp_all [Pc.initial, Pc.holdsL]
  | _ => simp_all [Pc.initial, Pc.holdsL]

theorem LockInv.init (thr : List Thr) (h : ∀ th ∈ thr, th.pc.initial = true) : LockInv (init thr) := by
  refine ⟨fun q => ?_⟩
  have : tot (holdsL q) thr = 0 := tot_zero_of (fun t ht => initial_holdsL (h t ht) q)
  cases q <;> simp [Conc.init, this, KV.get]

end Godi.Conc
