import GodiProofs.Conc.Kids
/-! The provider's scope table never keeps a child whose `Close` has got past its own
`delete(p.scopes, child)` — except for the moment in which the creator of that child is between its
registration (`sReg`) and the re-check that undoes it (`sRe`, `sUndo`): repair 64d7b34 of finding F2. -/
namespace Godi.Conc
set_option linter.unusedSimpArgs false
set_option linter.unusedVariables false

/-- the creator of child `q` is between the registration in `p.scopes` and its re-check / undo -/
def Pc.fixing (q : Cid) : Pc → Nat
  | .sRe c | .sUndo c => if c = q then 1 else 0
  | _ => 0
/-- the closer of child `q` has executed its `delete(p.scopes, q)` and not yet signalled -/
def Pc.atKSig (q : Cid) : Pc → Nat
  | .kSig c _ => if c = q then 1 else 0
  | _ => 0
def fixing (q : Cid) (th : Thr) : Nat := th.pc.fixing q
def atKSig (q : Cid) (th : Thr) : Nat := th.pc.atKSig q

/-- the child a program counter talks about (for case splits) -/
def Pc.cid : Pc → Cid
  | .sAdd c | .sReg c | .sRe c | .sUndo c | .sSpawn c | .wKid c => c
  | .kCas c _ | .kWait c _ | .kDetP c _ | .kDetS c _ | .kSig c _ => c
  | _ => 0

/-- child `q` has an entry in the provider's scope table -/
def Sh.inTable (s : Sh) (q : Cid) : Bool :=
  match s.scopes with
  | some l => l.contains q
  | none => false

theorem atKSig_le_kwin (q : Cid) (pc : Pc) : pc.atKSig q ≤ pc.kwin q := by
  cases pc <;> simp [Pc.atKSig, Pc.kwin]

theorem act_stale {c : Cfg} {s s' : Sh} {pc pc' : Pc} {sp : List Pc} (q : Cid)
    (h : act c s pc = some (pc', s', sp)) (n1 n2 : Nat)
    (hk : q ∉ s.kidDisp → n1 + pc.atKSig q = 0 ∧ q ∉ s.kidClosed)
    (inv : s.inTable q = true → (0 < n1 + pc.atKSig q ∨ q ∈ s.kidClosed) → 0 < n2 + pc.fixing q) :
    s'.inTable q = true → (0 < n1 + pc'.atKSig q + tot (atKSig q) (spawn sp) ∨ q ∈ s'.kidClosed) →
      0 < n2 + pc'.fixing q + tot (fixing q) (spawn sp) := by
  by_cases hq : pc.cid = q <;> (try have hq' : ¬ q = pc.cid := fun e => hq e.symm) <;>
    cases hs : s.scopes <;> cases pc <;> act_cases h
  all_goals (first
    | (simp_all [Pc.fixing, Pc.atKSig, Pc.cid, fixing, atKSig, Sh.inTable]; done)
    | (simp_all [Pc.fixing, Pc.atKSig, Pc.cid, fixing, atKSig, Sh.inTable] <;> omega)
    | (simp [Pc.cid] at hq; subst hq; simp_all [Pc.fixing, Pc.atKSig, fixing, atKSig, Sh.inTable]; done)
    | (simp [Pc.cid] at hq; subst hq; simp_all [Pc.fixing, Pc.atKSig, fixing, atKSig, Sh.inTable] <;> omega))


structure StaleInv (s : Sys) : Prop where
  stale : ∀ q, s.sh.inTable q = true → (0 < tot (atKSig q) s.thr ∨ q ∈ s.sh.kidClosed) → 0 < tot (fixing q) s.thr

theorem StaleInv.step {s s' : Sys} (kd : KidInv s) (inv : StaleInv s) (st : Step s s') : StaleInv s' := by
  obtain ⟨th, pc', sp, hmem, hact, hsplit, hx⟩ := st.tot_split
  refine ⟨fun q => ?_⟩
  obtain ⟨n1, a1, a2⟩ := hsplit (atKSig q)
  obtain ⟨n2, f1, f2⟩ := hsplit (fixing q)
  have e1 : atKSig q th = th.pc.atKSig q := rfl
  have e2 : fixing q th = th.pc.fixing q := rfl
  have e3 : atKSig q { th with pc := pc' } = pc'.atKSig q := rfl
  have e4 : fixing q { th with pc := pc' } = pc'.fixing q := rfl
  have hk : q ∉ s.sh.kidDisp → n1 + th.pc.atKSig q = 0 ∧ q ∉ s.sh.kidClosed := by
    intro hq
    have hw := kd.win q
    have c0 : s.sh.kidDisp.count q = 0 := List.count_eq_zero.2 hq
    have hle := tot_le (m := atKSig q) (m' := kwin q) (fun t => atKSig_le_kwin q t.pc) s.thr
    refine ⟨by omega, ?_⟩
    intro hc
    have := List.count_pos_iff.2 hc
    omega
  have := act_stale q hact n1 n2 hk (by
    intro hin hp
    have := inv.stale q hin (by rcases hp with hp | hp; exact Or.inl (by omega); exact Or.inr hp)
    omega)
  intro hin hp
  have := this hin (by rcases hp with hp | hp; exact Or.inl (by omega); exact Or.inr hp)
  omega

theorem initial_atKSig {pc : Pc} (h : pc.initial = true) (q : Cid) : pc.atKSig q = 0 := by
  cases pc <;> simp_all [Pc.initial, Pc.atKSig]

theorem StaleInv.init (thr : List Thr) (h : ∀ th ∈ thr, th.pc.initial = true) : StaleInv (init thr) := by
  refine ⟨fun q _ hp => ?_⟩
  have z : tot (atKSig q) thr = 0 := tot_zero_of (fun t ht => initial_atKSig (h t ht) q)
  rcases hp with hp | hp
  · simp [Conc.init, z] at hp
  · simp [Conc.init] at hp

end Godi.Conc
