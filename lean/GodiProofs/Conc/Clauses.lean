import GodiProofs.Conc.Inv
/-! The concurrent clauses of C01, C02, C10, C12, C13, stated over every state reachable from an
initial state with ANY number of threads of each kind, under ANY interleaving (`Reach`), and for
every choice of failing constructors / initializers and map-iteration orders (`Cfg`). -/
namespace Godi.Conc
set_option linter.unusedSimpArgs false
set_option linter.unusedVariables false

/-- instance `i` of key `k` is visible in state `s`: it is in the cache, or some call returned it -/
def Visible (s : Sys) (k : Key) (i : Inst) : Prop :=
  s.sh.cacheGet k = some i ∨ ∃ th ∈ s.thr, th.pc = .done (.ok k i)

theorem visible_ever {s : Sys} (inv : Inv s) {k : Key} {i : Inst} (h : Visible s k i) : i ∈ s.sh.ever.get k := by
  rcases h with h | ⟨th, hth, hpc⟩
  · have hs : s.sh.cache.isSome = true := by
      unfold Sh.cacheGet at h
      cases hc : s.sh.cache <;> simp_all
    rw [inv.cache.c1 k hs, h]; simp
  · exact (inv.cache.loc th hth).claim k i (by simp [hpc, Pc.claim])

/-- C02 (concurrent clause): however many goroutines resolve a scoped service in one scope, at most
one instance of it is ever cached or returned: any two visible instances of a key are the same. -/
theorem C02_one_per_scope_conc {thr : List Thr} (h0 : InitThreads thr) {s : Sys} (r : Reach (init thr) s)
    (k : Key) (i j : Inst) (hi : Visible s k i) (hj : Visible s k j) : i = j := by
  have inv := Inv.reach h0 r
  have h1 := visible_ever inv hi
  have h2 := visible_ever inv hj
  have hl := inv.cache.c2 k
  generalize s.sh.ever.get k = l at *
  match l, hl, h1, h2 with
  | [x], _, h1, h2 => simp_all
  | [], _, h1, _ => simp at h1
  | _ :: _ :: _, hl, _, _ => simp at hl

/-- … and every instance ever written into the cache of a key is one and the same (the list of all
cache writes for a key has length ≤ 1), even across a concurrent Close. -/
theorem C02_one_write_conc {thr : List Thr} (h0 : InitThreads thr) {s : Sys} (r : Reach (init thr) s) (k : Key) :
    (s.sh.ever.get k).length ≤ 1 := (Inv.reach h0 r).cache.c2 k

/-- C02: a failed construction leaves the state untouched (nothing cached, nothing tracked), the
thread goes on to release the creation mutex, and the error is what the caller gets. -/
theorem C02_failed_ctor_caches_nothing (c : Cfg) (s : Sh) (k : Key) (o : Bool) (hf : c.fails k = true) :
    act c s (.rCtor k o) = some (.rUnl k o .ctorErr, s, []) := by simp [act, hf]

/-- C10 (concurrent clause): once every thread has returned (watchers may still be parked) and the
scope has been closed, every instance whose constructor completed — including those whose
construction overlapped the Close — has exactly one `Close` event. -/
theorem C10_exactly_once_conc {thr : List Thr} (h0 : InitThreads thr) {s : Sys} (r : Reach (init thr) s)
    (hfin : ∀ th ∈ s.thr, th.pc.idle = true) (hd : s.sh.disposed = true) :
    s.sh.closed.Nodup ∧ ∀ i, i ∈ s.sh.created ↔ i ∈ s.sh.closed := by
  have inv := Inv.reach h0 r
  have hw : tot winS s.thr = 0 := tot_zero_of (fun t ht => by
    have := hfin t ht
    simp only [winS]
    cases hpc : t.pc <;> simp_all [Pc.idle, Pc.winS])
  have hsig : s.sh.closedSig = true := by
    have := inv.gate.win
    rw [hw, hd] at this
    cases hc : s.sh.closedSig <;> simp_all
  refine inv.once.exactly_once (fun t ht => ?_) (inv.gate.sig hsig).2.1
  have := hfin t ht
  cases hpc : t.pc <;> simp_all [Pc.idle, Pc.holds]

/-- C10: nothing is closed before the scope's CAS. -/
theorem C10_not_early_conc {thr : List Thr} (h0 : InitThreads thr) {s : Sys} (r : Reach (init thr) s)
    (hd : s.sh.disposed = false) : s.sh.closed = [] := (Inv.reach h0 r).once.early hd

/-- C12 (concurrent clause): among any number of concurrent `Close` calls, cancellation watchers and
provider closes, exactly one passes the CAS (`casWins = 1` iff the flag is set, at most one thread
is ever inside the body); once the `closed` channel is signalled nobody is inside the body and all
three tables are released and the disposal outcome `closeErr` has been written — and a loser can only
return (and read `closeErr`) then, because `<-s.closed` is not enabled earlier; the loser's two
actions change nothing. -/
theorem C12_idempotent_conc {thr : List Thr} (h0 : InitThreads thr) {s : Sys} (r : Reach (init thr) s) :
    s.sh.casWins = b2n s.sh.disposed ∧ s.sh.casWins ≤ 1 ∧ tot winS s.thr ≤ 1 ∧
    (s.sh.closedSig = true → tot winS s.thr = 0 ∧ s.sh.cache = none ∧ s.sh.disposables = none ∧ s.sh.children = none ∧
        s.sh.errSet = true) ∧
    (∀ c k, s.sh.disposed = true → act c s.sh (.cCas k) = some (.cWait k, s.sh, [])) ∧
    (∀ c k pc' sh' sp, act c s.sh (.cWait k) = some (pc', sh', sp) →
        s.sh.closedSig = true ∧ sh' = s.sh ∧ pc' = resume k ∧ sp = []) := by
  have inv := Inv.reach h0 r
  have hw := inv.gate.win
  have b1 := b2n_le s.sh.disposed
  have b2 := b2n_le s.sh.closedSig
  refine ⟨inv.gate.cas, by rw [inv.gate.cas]; exact b1, by omega, ?_, ?_, ?_⟩
  · intro hs
    have := inv.gate.sig hs
    rw [hs] at hw
    simp at hw
    exact ⟨by omega, this.2.2.1, this.2.1, this.1, this.2.2.2⟩
  · intro c k hd; simp [act, hd]
  · intro c k pc' sh' sp h
    simp only [act] at h
    split at h
    · simp only [Option.some.injEq, Prod.mk.injEq] at h
      obtain ⟨h1, h2, h3⟩ := h
      exact ⟨by assumption, h2.symm, h1.symm, h3.symm⟩
    · cases h

/-- C13 (concurrent clause): an operation that overlaps a Close (of the scope or of the provider)
never panics (no write to a released table, no append to a drained disposal list), returns one of
its documented results — for a scoped resolution: the cached instance, the disposed error or the
constructor's error — and never hangs: as long as some call has not returned, some call can move. -/
theorem C13_overlap {thr : List Thr} (h0 : InitThreads thr) {s : Sys} (r : Reach (init thr) s) :
    s.sh.panicked = false ∧ s.sh.resurrected = false ∧
    (∀ th ∈ s.thr, ∀ res, th.pc = .done res → res.okFor th.start = true) ∧
    ((∃ th ∈ s.thr, th.pc.idle = false) → Live s) := by
  have inv := Inv.reach h0 r
  refine ⟨inv.gate.noPanic, inv.gate.noRes, ?_, progress inv.wf inv.gate inv.lock inv.kids⟩
  intro th hth res hpc
  have := inv.fam th hth
  simpa [hpc, Fam] using this

/-- C01 (concurrent clause): no resolution, scope creation or scope Close ever writes the singleton
table; it changes only when `provider.Close` clears it, so while the provider is open every
lock-free read sees the Build-time content. -/
theorem C01_table_stable_conc {thr : List Thr} (h0 : InitThreads thr) {s : Sys} (r : Reach (init thr) s) :
    (s.sh.pdisposed = false → s.sh.singletons = true) ∧
    (∀ c pc pc' sh' sp, act c s.sh pc = some (pc', sh', sp) → pc ≠ .pRest → sh'.singletons = s.sh.singletons) := by
  have inv := Inv.reach h0 r
  refine ⟨fun hp => ?_, ?_⟩
  · cases hs : s.sh.singletons
    · have := inv.gate.pSingle hs; simp_all
    · rfl
  · intro c pc pc' sh' sp h hne
    cases pc <;> act_cases h <;> simp_all


/-- C12 (concurrent clause, finding F1' / repair 0c7a2e0): the scope's own `Close` takes the children
out of the table before it cancels the context —
(1) unless the USER cancelled the context, the context is cancelled only after the snapshot was taken,
    so `S.Close` never wakes a child's watcher while the child can still slip out of the table;
(2) the snapshot is the whole table at that moment (`cTake`);
(3) every child of the snapshot stays on the closer's work list until its disposal has completed:
    the closer disposes it itself, or waits at `<-child.closed` (`kWait`, enabled only when the
    child's `closed` is signalled, which happens after its `closeErr` was written) and then reads
    the outcome; in particular
(4) when `S.closed` is signalled, every child of the snapshot has completed its disposal. -/
theorem C12_child_error_collected_conc {thr : List Thr} (h0 : InitThreads thr) {s : Sys} (r : Reach (init thr) s) :
    (s.sh.cancelled = true → s.sh.userCancelled = true ∨ s.sh.children = none) ∧
    (∀ c k, act c s.sh (.cTake k) = some (.cCancel (order c (s.sh.children.getD [])) k,
        { s.sh with children := none, snap := order c (s.sh.children.getD []) }, [])) ∧
    (∀ th ∈ s.thr, ∀ l, th.pc.work = some l → ∀ x ∈ s.sh.snap, x ∈ l ∨ x ∈ s.sh.kidClosed) ∧
    (s.sh.closedSig = true → ∀ x ∈ s.sh.snap, x ∈ s.sh.kidClosed) := by
  have inv := Inv.reach h0 r
  exact ⟨inv.collect.canc, fun c k => rfl, inv.collect.cov, inv.collect.sig⟩

/-- C14 / C13 (finding F2, repair 64d7b34): the provider's scope table never keeps a child whose
`Close` has completed, unless the creator of that child is at this very moment between its
registration and the re-check that removes it again; in particular never when all calls have
returned, and a creator that returned a child left no closed child behind. -/
theorem C14_no_stale_child_in_provider_table {thr : List Thr} (h0 : InitThreads thr) {s : Sys}
    (r : Reach (init thr) s) (q : Cid) (hfix : ∀ th ∈ s.thr, th.pc ≠ .sRe q ∧ th.pc ≠ .sUndo q)
    (hclosed : q ∈ s.sh.kidClosed) : s.sh.inTable q = false := by
  have inv := Inv.reach h0 r
  cases hin : s.sh.inTable q
  · rfl
  · have := inv.stale.stale q hin (Or.inr hclosed)
    obtain ⟨th, hth, hp⟩ := tot_pos this
    have := hfix th hth
    simp only [fixing] at hp
    cases hpc : th.pc <;> simp_all [Pc.fixing]

/-- … stated for quiescent states: once every call has returned, no closed child is registered. -/
theorem C14_no_stale_child_when_idle {thr : List Thr} (h0 : InitThreads thr) {s : Sys}
    (r : Reach (init thr) s) (hfin : ∀ th ∈ s.thr, th.pc.idle = true) (q : Cid) (hclosed : q ∈ s.sh.kidClosed) :
    s.sh.inTable q = false := by
  refine C14_no_stale_child_in_provider_table h0 r q (fun th hth => ?_) hclosed
  have := hfin th hth
  constructor <;> (intro hpc; simp [hpc, Pc.idle] at this)

/-- C13 (finding F3, repair 0cb30f3): a singleton resolution never reports
`ErrSingletonNotInitialized`: it returns the singleton, or — when it overlaps a Close — the scope- or
provider-disposed error. -/
theorem C13_singleton_overlap_reports_disposed {thr : List Thr} (h0 : InitThreads thr) {s : Sys}
    (r : Reach (init thr) s) :
    (∀ th ∈ s.thr, th.pc ≠ .done .notInit) ∧
    (∀ th ∈ s.thr, ∀ res, th.start = .gChk → th.pc = .done res →
        res = .okS ∨ res = .disposed ∨ res = .provDisposed) := by
  have inv := Inv.reach h0 r
  have h1 : ∀ th ∈ s.thr, th.pc ≠ .done .notInit := by
    intro th hth hpc
    have := inv.gate.noNotInit th hth
    simp [hpc, Pc.isNotInit, Res.isNI] at this
  refine ⟨h1, ?_⟩
  intro th hth res hst hpc
  have hf := inv.fam th hth
  have hn := h1 th hth
  rw [hst, hpc] at hf
  cases res <;> simp_all [Fam, Res.okFor]

end Godi.Conc
