import GodiProofs.Conc.Wf
/-! Which results each kind of API call can return (thread-local: follows the program text). -/
namespace Godi.Conc
set_option linter.unusedSimpArgs false
set_option linter.unusedVariables false

/-- the documented outcomes of the call that was started at `st` -/
def Res.okFor (st : Pc) (r : Res) : Bool :=
  match st, r with
  | .rChk k false, .ok k' _ => k == k'
  | .rChk _ false, .disposed => true
  | .rChk _ false, .ctorErr => true
  | .tChk, .okT _ => true
  | .tChk, .disposed => true
  | .tChk, .ctorErr => true
  | .gChk, .okS => true
  | .gChk, .disposed => true
  | .gChk, .notInit => true
  | .gChk, .provDisposed => true
  | .sChk, .okChild _ => true
  | .sChk, .disposed => true
  | .sChk, .provDisposed => true
  | .sChk, .initErr => true
  | .cCas (.ret .okUnit), .okUnit => true
  | .pCas, .okUnit => true
  | .wS, .okUnit => true
  | .wKid _, .okUnit => true
  | .xCancel, .okUnit => true
  | _, _ => false

def K.okFor (st : Pc) : K → Bool
  | .ret r => r.okFor st
  | .kids _ k => k.okFor st && (st == .cCas (.ret .okUnit) || st == .pCas || st == .wS)
  | .scopes _ => st == .pCas

/-- the key whose resolution the user asked for -/
def topKey (k : Key) (o : Bool) : Key := if o then .a else k

/-- `pc` belongs to the program started at `st` -/
def Fam (st : Pc) : Pc → Bool
  | .done r => r.okFor st
  | .rChk k o | .rRead k o | .rMu k o | .rLock k o | .rRe k o | .rCtor k o | .rSet k o _ | .rTrk k o _
  | .rSelf k o _ => st == .rChk (topKey k o) false
  | .rUnl k o r => st == .rChk (topKey k o) false && (r.inst.isSome || r.okFor st)
  | .tChk | .tCtor | .tTrk _ | .tSelf _ => st == .tChk
  | .gChk | .gLoad | .gMiss1 | .gMiss2 => st == .gChk
  | .sChk | .sInit | .sAdd _ | .sReg _ | .sRe _ | .sUndo _ | .sSpawn _ => st == .sChk
  | .kCas _ k | .kWait _ k | .kDetP _ k | .kDetS _ k | .kSig _ k => k.okFor st
  | .cCas k | .cWait k | .cCancel _ k | .cTake k | .cKids _ k | .cTakeD k | .cDrain _ k | .cDetS k | .cNil k | .cErr k
  | .cSig k => k.okFor st && (st == .cCas (.ret .okUnit) || st == .pCas || st == .wS)
  | .pCas | .pTake | .pScopes _ | .pRest => st == .pCas
  | .wS => st == .wS
  | .wKid c => st == .wKid c
  | .xCancel => st == .xCancel

set_option maxHeartbeats 1600000 in
theorem act_fam {c : Cfg} {s s' : Sh} {st pc pc' : Pc} {sp : List Pc}
    (h : act c s pc = some (pc', s', sp)) (hw : pc.wf = true) (hf : Fam st pc = true) :
    Fam st pc' = true ∧ ∀ p ∈ sp, Fam p p = true := by
  cases pc <;> (repeat (cases ‹Key›)) <;> (repeat (cases ‹Bool›)) <;> (repeat (cases ‹Res›)) <;> act_cases h
  all_goals (first
    | (simp [Pc.wf] at hw; done)
    | (simp_all [Fam, K.okFor, topKey, Pc.wf]; done)
    | (simp_all [Fam, K.okFor, Res.okFor, topKey, Pc.wf]; done)
    | (simp only [Fam, Bool.and_eq_true, beq_iff_eq, Bool.or_eq_true] at hf
       obtain ⟨rfl, h2⟩ := hf
       simp_all [Fam, Res.okFor, topKey]; done))


/-- every thread is inside the program it was started with -/
def FamSys (s : Sys) : Prop := ∀ th ∈ s.thr, Fam th.start th.pc = true

theorem FamSys.step {s s' : Sys} (wf : WfSys s) (inv : FamSys s) (st : Step s s') : FamSys s' := by
  obtain ⟨th, pc', sp, hmem, hact, _, hx⟩ := st.tot_eq
  have := act_fam (st := th.start) hact (wf th hmem) (inv th hmem)
  intro x hxm
  rcases hx x hxm with h | rfl | h
  · exact inv x h
  · exact this.1
  · simp only [spawn, List.mem_map] at h
    obtain ⟨p, hp, rfl⟩ := h
    exact this.2 p hp

theorem initial_fam {pc : Pc} (h : pc.initial = true) : Fam pc pc = true := by
  cases pc with
  | rChk k o => cases o <;> simp_all [Pc.initial, Fam, topKey]
  | cCas k =>
    cases k with
    | ret r => cases r <;> simp_all [Pc.initial, Fam, K.okFor, Res.okFor]
    | _ => simp_all [Pc.initial]
  | _ => simp_all [Pc.initial, Fam]

theorem FamSys.init (thr : List Thr) (h : ∀ th ∈ thr, th.pc.initial = true ∧ th.start = th.pc) : FamSys (init thr) := by
  intro th ht
  rw [(h th ht).2]
  exact initial_fam (h th ht).1

end Godi.Conc
