import GodiProofs.Conc.Basic
/-! Thread-local well-formedness of program counters (which continuation a Close frame may carry). -/
namespace Godi.Conc

def b2n (b : Bool) : Nat := if b then 1 else 0
@[simp] theorem b2n_true : b2n true = 1 := rfl
@[simp] theorem b2n_false : b2n false = 0 := rfl
@[simp] theorem Key.beq_aa : (Key.a == Key.a) = true := by decide
@[simp] theorem Key.beq_bb : (Key.b == Key.b) = true := by decide
@[simp] theorem Key.beq_ab : (Key.a == Key.b) = false := by decide
@[simp] theorem Key.beq_ba : (Key.b == Key.a) = false := by decide
theorem b2n_le (b : Bool) : b2n b ≤ 1 := by cases b <;> simp

/-- results that carry no scoped instance (what a `Close`, a `CreateScope` … may return) -/
def Res.plain : Res → Bool
  | .ok _ _ => false
  | _ => true
/-- the scoped instance a result carries -/
def Res.inst : Res → Option (Key × Inst)
  | .ok k i => some (k, i)
  | _ => none
@[simp] theorem Res.inst_ok (k : Key) (i : Inst) : (Res.ok k i).inst = some (k, i) := rfl
@[simp] theorem Res.inst_okT (i : Inst) : (Res.okT i).inst = none := rfl
@[simp] theorem Res.inst_okS : Res.okS.inst = none := rfl
@[simp] theorem Res.inst_okChild (c : Cid) : (Res.okChild c).inst = none := rfl
@[simp] theorem Res.inst_okUnit : Res.okUnit.inst = none := rfl
@[simp] theorem Res.inst_disposed : Res.disposed.inst = none := rfl
@[simp] theorem Res.inst_provDisposed : Res.provDisposed.inst = none := rfl
@[simp] theorem Res.inst_ctorErr : Res.ctorErr.inst = none := rfl
@[simp] theorem Res.inst_initErr : Res.initErr.inst = none := rfl
@[simp] theorem Res.inst_notInit : Res.notInit.inst = none := rfl
theorem Res.inst_plain {r : Res} (h : r.plain = true) : r.inst = none := by
  cases r <;> simp_all [Res.plain, Res.inst]

/-- `ErrSingletonNotInitialized`: only the singleton read produces it, no frame carries it around -/
def Res.isNI : Res → Bool
  | .notInit => true
  | _ => false

/-- the frame below is not `S.Close` itself -/
def K.top : K → Bool
  | .kids _ _ => false
  | .ret r => r.plain && !r.isNI
  | .scopes _ => true
/-- the frame below is the children loop of `S.Close` -/
def K.inS : K → Bool
  | .kids _ _ => true
  | _ => false
/-- somewhere below is the scope loop of `provider.Close` -/
def K.inP : K → Bool
  | .ret _ => false
  | .kids _ k => k.inP
  | .scopes _ => true
def K.wf : K → Bool
  | .kids _ k => k.top
  | .ret r => r.plain && !r.isNI
  | .scopes _ => true

def Pc.wf : Pc → Bool
  | .cCas k | .cWait k | .cCancel _ k | .cTake k | .cKids _ k | .cTakeD k | .cDrain _ k | .cDetS k | .cNil k | .cErr k | .cSig k => k.top
  | .kCas _ k | .kWait _ k | .kDetP _ k | .kDetS _ k | .kSig _ k => k.wf
  | .rChk k o | .rRead k o | .rMu k o | .rLock k o | .rRe k o | .rCtor k o | .rSet k o _ | .rTrk k o _
  | .rSelf k o _ => !(o && k == .a)
  | .rUnl k o r => !(o && k == .a) && !r.isNI
  | _ => true

theorem resume_wf {k : K} (h : k.wf = true) : (resume k).wf = true := by
  cases k <;> simp_all [resume, Pc.wf, K.wf]

theorem resume_wf_top {k : K} (h : k.top = true) : (resume k).wf = true := by
  cases k <;> simp_all [resume, Pc.wf, K.top]

theorem act_wf {c : Cfg} {s s' : Sh} {pc pc' : Pc} {sp : List Pc}
    (h : act c s pc = some (pc', s', sp)) (hw : pc.wf = true) : pc'.wf = true ∧ ∀ p ∈ sp, p.wf = true := by
  cases pc <;> act_cases h
  all_goals (first
    | (simp_all [Pc.wf, K.wf, K.top, Res.plain, Res.isNI]; done)
    | (simp only [Pc.wf] at hw; simp_all [Pc.wf, K.wf, K.top, Res.plain, Res.isNI, resume_wf, resume_wf_top]; done))

/-- every thread's pc is well-formed -/
def WfSys (s : Sys) : Prop := ∀ th ∈ s.thr, th.pc.wf = true

theorem WfSys.step {s s' : Sys} (inv : WfSys s) (st : Step s s') : WfSys s' := by
  obtain ⟨th, pc', sp, hmem, hact, _, hx⟩ := st.tot_eq
  intro x hxm
  rcases hx x hxm with h | rfl | h
  · exact inv x h
  · exact (act_wf hact (inv th hmem)).1
  · simp only [spawn, List.mem_map] at h
    obtain ⟨p, hp, rfl⟩ := h
    exact (act_wf hact (inv th hmem)).2 p hp

theorem initial_wf {pc : Pc} (h : pc.initial = true) : pc.wf = true := by
  cases pc with
  | rChk k o => cases o <;> simp_all [Pc.initial, Pc.wf]
  | cCas k =>
    cases k with
    | ret r => cases r <;> simp_all [Pc.initial, Pc.wf, K.top, Res.plain, Res.isNI]
    | _ => simp_all [Pc.initial]
  | _ => simp_all [Pc.initial, Pc.wf]

theorem WfSys.init (thr : List Thr) (h : ∀ th ∈ thr, th.pc.initial = true) : WfSys (init thr) :=
  fun th hth => initial_wf (h th hth)

end Godi.Conc
