import GodiProofs.Collection.Reach
/-!
# C20 — modules are transparent groupings of registration calls

"Registering services through any nesting of modules is equivalent to issuing the same Add and
Remove calls directly, left to right: the resulting collection and any provider built from it are
indistinguishable. The first failing registration stops processing, registrations made before it
stay, and its error is returned wrapped once per enclosing named module (outermost first) with the
original cause still reachable through errors.Is/As; nil entries are ignored."

Quantification: every module tree `m : Mod` / builder list `ms : Items` (arbitrary nesting, `nil`
entries = `Items.skip`, `Remove`/`RemoveKeyed`/`Add*` leaves with arbitrary requests, failing
entries anywhere), from every collection `c`. Model: `GodiModel/Module.lean` (M3').
`runOps c ops` = the direct calls left to right, stopping at the first failure, which it reports
with its position; `annotItems [] ms` = the leaves of the tree left to right, each with the names of
its enclosing modules; `moduleError` wraps the direct error with the names at that position.
-/
namespace Godi.Props.C20
open Godi.Coll

/-- `AddModules(ms...)` = the flattened direct calls: same collection, and the error is the direct
call's error wrapped once per module enclosing the first failing leaf, outermost first (no error iff
no direct call fails). -/
theorem C20_flatten (c : Coll) (ms : Items) :
    addModules c ms =
      ((runOps c (flattenItems ms)).1, moduleError (annotItems [] ms) (runOps c (flattenItems ms)).2) := by
  have h1 := runAnn_items ms c []
  have h2 := runAnn_runOps (annotItems [] ms) c
  rw [h1, wrapPath_nil_map] at h2
  exact h2

/-- the same for calling one module (a `ModuleOption` built by `NewModule` or a leaf builder) -/
theorem C20_flatten_mod (c : Coll) (m : Mod) :
    runMod c m = ((runOps c (flattenMod m)).1, moduleError (annotMod [] m) (runOps c (flattenMod m)).2) := by
  have h1 := runAnn_mod m c []
  have h2 := runAnn_runOps (annotMod [] m) c
  rw [h1, wrapPath_nil_map] at h2
  exact h2

/-- the direct calls: everything before the failing one is applied, nothing after it; the failing
call is the first that fails -/
theorem C20_prefix_applied (ops : List Op) : ∀ (c c' : Coll) (i : Nat) (e : Err),
    runOps c ops = (c', some (i, e)) →
    ∃ (o : Op) (cmid : Coll), ops[i]? = some o ∧ runOps c (ops.take i) = (cmid, none) ∧ step cmid o = (c', some e) := by
  induction ops with
  | nil => intro c c' i e h; cases h
  | cons o rest ih =>
    intro c c' i e h
    unfold runOps at h
    cases hs : step c o with
    | mk c1 r =>
      rw [hs] at h
      cases r with
      | some e1 =>
        injection h with h1 h2
        injection h2 with h2
        injection h2 with h3 h4
        subst h1 h3 h4
        exact ⟨o, c, rfl, rfl, hs⟩
      | none =>
        simp only [] at h
        cases hr : runOps c1 rest with
        | mk c2 r2 =>
          rw [hr] at h
          cases r2 with
          | none => cases h
          | some je =>
            obtain ⟨j, e2⟩ := je
            injection h with h1 h2
            injection h2 with h2
            injection h2 with h3 h4
            subst h1 h3 h4
            obtain ⟨o', cmid, g1, g2, g3⟩ := ih c1 c2 j e2 hr
            refine ⟨o', cmid, by simpa using g1, ?_, g3⟩
            simp only [List.take_succ_cons, runOps, hs, g2]

/-- `ModuleError` layers: exactly one per enclosing module, in order, and below them the untouched
chain of the original error — so everything `errors.Is`/`errors.As` find in the direct error they
also find in the module's error. -/
theorem C20_cause_reachable (path : List String) (e : Err) :
    (∃ layers : List Err, (wrapPath path e).chain = layers ++ e.chain ∧
        layers.map Err.moduleName? = path.map some) ∧
    (∀ x ∈ e.chain, x ∈ (wrapPath path e).chain) ∧ e ∈ (wrapPath path e).chain := by
  obtain ⟨ls, h1, h2⟩ := chain_wrapPath path e
  refine ⟨⟨ls, h1, h2⟩, ?_, ?_⟩
  · intro x hx; rw [h1]; exact List.mem_append.2 (Or.inr hx)
  · rw [h1]; exact List.mem_append.2 (Or.inr (mem_chain_self e))

/-- `nil` entries are ignored -/
theorem C20_nil_ignored (c : Coll) (ms : Items) :
    addModules c (.skip ms) = addModules c ms ∧ flattenItems (.skip ms) = flattenItems ms := by
  constructor
  · simp [addModules, runItems]
  · simp [flattenItems, annotItems]

/-- a module without a failing entry returns no error, and a module whose flattening fails returns
an error: verdicts coincide -/
theorem C20_verdict (c : Coll) (ms : Items) :
    (addModules c ms).2 = none ↔ (runOps c (flattenItems ms)).2 = none := by
  rw [C20_flatten]
  cases (runOps c (flattenItems ms)).2 with
  | none => simp [moduleError]
  | some ie => obtain ⟨i, e⟩ := ie; simp [moduleError]

/-- hence any provider built afterwards is built from the same registry -/
theorem C20_same_provider (h : Heap) (r : CollRef) (ms : Items) :
    let viaModules := h.modify r (fun c => addModules c ms)
    let direct := h.modify r (fun c => ((runOps c (flattenItems ms)).1, (none : Option Err)))
    viaModules.1 = direct.1 ∧ viaModules.2.1 = direct.2.1 := by
  constructor <;> simp [Heap.modify, C20_flatten]

/-! ### non-vacuity: a tree with nested modules of the same name, a nil entry, a Remove entry, and
a failing entry in the middle of the innermost module -/
def a4 (n : Nat) : Op := .add { ctor := n, primary := 4, rets := [4] }
def a5 (n : Nat) : Op := .add { ctor := n, primary := 5, rets := [5] }

def tree : Items :=
  .cons (.node "a" (.skip (.cons (.op (a4 1)) (.cons (.node "a" (.cons (.op (.rm 4)) (.cons (.op (a5 2))
    (.cons (.op (a5 3)) (.cons (.op (a4 4)) .nil))))) (.cons (.op (a4 5)) .nil))))) .nil

example : (flattenItems tree).length = 6 := by decide
example : (runOps empty (flattenItems tree)).2.map (·.1) = some 3 := by decide
example : pathAt (annotItems [] tree) 3 = ["a", "a"] := by decide
example : ((addModules empty tree).2.map Err.chain).map (·.map Err.moduleName?) =
    some [some "a", some "a", none] := by decide
example : (toSlice (addModules empty tree).1).map (·.ctor) = [2] := by decide

end Godi.Props.C20
