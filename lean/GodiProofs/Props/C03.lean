import GodiProofs.Container.Instances
import GodiProofs.Container.TransientFresh
/-!
# C03 — Transient: a fresh instance for every resolution and every injection site
-/
namespace Godi.Props.C03
open Godi.Container

/-- NEVER CACHED: resolving a transient registration always goes to `createInstance`, whatever the
caches hold — by type, by key, as a group member, as an argument -/
theorem always_constructs (beh : Beh) (st : State) (s f : Nat) (d : Desc) (hl : d.life = .transient) :
    resolveDesc beh (f + 1) st s d = createInstance beh f st s d := by
  unfold resolveDesc; simp [hl]

/-- … and storing it leaves the scope's cache untouched: it can never be handed out again -/
theorem never_enters_cache (st : State) (s : Nat) (d : Desc) (k : Ident) (v : Val) (hl : d.life = .transient) :
    ((setInstance st s d k v).1.scope s).instances = (st.scope s).instances :=
  setInstance_transient_cache st s d k v hl

/-- the instance counter never decreases, whatever is resolved -/
theorem counter_monotone (beh : Beh) (st : State) (s ty key : Nat) (wf : WF st.descs) :
    st.next ≤ (scopeGet beh st s ty key).1.next := ((frame beh _).1 st s ty key wf).next

/-- FRESH: a successfully constructed (plain) transient instance gets an id that was never used
before — at least the counter's value before the call, and below its value afterwards. Together
with `counter_monotone` two constructions never yield the same instance. -/
theorem fresh_instance (beh : Beh) (f : Nat) (st : State) (s : Nat) (d : Desc) (wf : WF st.descs) (hd : d ∈ st.descs)
    (hl : d.life = .transient) (hk : d.kind = .plain) (i : Inst)
    (h : (createInstance beh (f + 1) st s d).2 = .ok (.inst i)) :
    st.next ≤ i ∧ i < (createInstance beh (f + 1) st s d).1.next := by
  have hframe := (frame beh f).2.2.2.2.1 st s d.deps [] wf
  unfold createInstance at h ⊢
  simp only [hk] at h ⊢
  generalize buildArgs beh f st s d.deps [] = ra at hframe h ⊢
  cases hra : ra.2 with
  | error e => simp [hra] at h
  | ok args =>
    simp only [hra] at h ⊢
    have hnext : st.next ≤ (bumpInv ra.1 d.ctor).next := hframe.next
    cases hb : beh.ctor d.ctor ((bumpInv ra.1 d.ctor).invs d.ctor) with
    | err => simp [hb] at h
    | panic => simp [hb] at h
    | nilOut => simp [hb] at h
    | ok =>
      simp only [hb] at h ⊢
      have hl' : d.life ≠ .singleton := by rw [hl]; simp
      have hset := setInstance_ext (logEv (alloc (bumpInv ra.1 d.ctor) 1 d.ctor ((bumpInv ra.1 d.ctor).invs d.ctor))
        (.ctor d.id d.ctor ((bumpInv ra.1 d.ctor).invs d.ctor) s args [(bumpInv ra.1 d.ctor).next])) s d d.ident
        (.inst (bumpInv ra.1 d.ctor).next) hl'
      generalize setInstance (logEv (alloc (bumpInv ra.1 d.ctor) 1 d.ctor ((bumpInv ra.1 d.ctor).invs d.ctor))
        (.ctor d.id d.ctor ((bumpInv ra.1 d.ctor).invs d.ctor) s args [(bumpInv ra.1 d.ctor).next])) s d d.ident
        (.inst (bumpInv ra.1 d.ctor).next) = r at hset h ⊢
      cases hr : r.2 with
      | error e => simp [hr] at h
      | ok u =>
        simp only [hr] at h ⊢
        injection h with h; injection h with h; subst h
        have hsh := shareAll_ext s d.id (.inst (bumpInv ra.1 d.ctor).next)
          (d.sibs.filterMap (findDesc (bumpInv ra.1 d.ctor).descs)) r.1 (by
            intro sd hsd
            obtain ⟨sid, hsid, hf⟩ := List.mem_filterMap.1 hsd
            have hdd : (bumpInv ra.1 d.ctor).descs = st.descs := hframe.descs
            rw [hdd] at hf
            rw [wf.sibLife d hd sid hsid sd hf]; exact hl')
        have h1 : (bumpInv ra.1 d.ctor).next + 1 ≤ r.1.next := hset.next
        have h2 := hsh.next
        exact ⟨hnext, Nat.lt_of_lt_of_le (Nat.lt_of_succ_le h1) h2⟩

/-- NEVER STORED ANYWHERE, over Build and all histories: for every registry with the collection's
structural guarantees, every constructor behaviour, every creation order with which Build succeeds and
every history of resolutions, group resolutions, scope creations and closes afterwards, neither the
singleton table nor the cache of any scope holds an instance that a constructor of a transient
registration produced. So the only way a transient instance is ever obtained is the single return of the
`createInstance` call that constructed it (`always_constructs`, `fresh_instance`): it cannot be handed
out a second time — whatever scope, key, alias or group it is reached through. -/
theorem transient_instances_never_stored (beh : Beh) (descs : List Desc) (order : List Nat) (ops : List Op)
    (wf : WF descs) (rw' : RegWF descs) (hz : ¬ TransCtor descs 0)
    (hok : (buildRuntime beh descs order).2 = .ok ()) :
    (∀ k i, lookup (run beh (buildRuntime beh descs order).1 ops).singletons k = some (.inst i) →
      ¬ TransCtor descs ((run beh (buildRuntime beh descs order).1 ops).instMeta i).1) ∧
    (∀ s k i, lookup (((run beh (buildRuntime beh descs order).1 ops).scope s).instances.getD []) k = some (.inst i) →
      ¬ TransCtor descs ((run beh (buildRuntime beh descs order).1 ops).instMeta i).1) := by
  have cfg : TCfg descs := ⟨wf, rw'⟩
  have tc := tc_run beh cfg ops _ (build_tc beh cfg hz order hok)
  exact ⟨fun k i h => (tc.tbl k _ h).1, fun s k i h => (tc.cache s k _ h).1⟩

/-- the instances a transient constructor produces carry that constructor in `instMeta`: the hypothesis
of the theorem above is about the right instances -/
theorem produced_by (st : State) (k c n d s : Nat) (args : List Val) (outs : List Inst) (i : Inst)
    (h1 : st.next ≤ i) (h2 : i < st.next + k) :
    ((logEv (alloc st k c n) (.ctor d c n s args outs)).instMeta i).1 = c := by
  rw [instMeta_alloc_log st k c n d s args outs i h1 h2]

def ex : List Desc :=
  [{ id := 0, ident := ⟨3, 0, 0⟩, life := .transient, ctor := 1, kind := .plain, deps := [] },
   { id := 1, ident := ⟨4, 0, 0⟩, life := .scoped, ctor := 2, kind := .plain, deps := [{ ty := 3 }, { ty := 3 }] }]
/-- a consumer taking the transient twice gets two different instances; a direct request a third -/
example : (scopeGet {} (scopeGet {} (buildRuntime {} ex []).1 0 4 0).1 0 3 0).1.log =
    [.ctor 0 1 1 0 [] [1], .ctor 0 1 2 0 [] [2], .ctor 1 2 1 0 [.inst 1, .inst 2] [3], .ctor 0 1 3 0 [] [4]] := by decide

/-- the hypotheses of `transient_instances_never_stored` are satisfiable -/
example : WF ex ∧ RegWF ex ∧ ¬ TransCtor ex 0 ∧
    (match (buildRuntime {} ex []).2 with | .ok _ => true | .error _ => false) = true := by
  refine ⟨⟨?_, ?_⟩, ⟨?_, ?_, ?_, ?_, ?_, ?_⟩, ?_, by decide⟩ <;>
    simp [SibLife, ex, findDesc, TransCtor] <;> decide

end Godi.Props.C03
