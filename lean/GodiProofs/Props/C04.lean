import GodiProofs.Props.C07
import GodiModel.Analyzer
/-!
# C04 — Wiring fidelity: the registered constructor, the right arguments

* "exactly the constructor value that was registered" — M2 (`GodiModel/Analyzer.lean`): the analysis
  cache is keyed by (code pointer, signature) and may hand back a record analysed for *another*
  function value; `createInstance` overrides the value with the descriptor's own before calling.
* arguments — M5: `buildArgs` resolves each declared dependency, in declaration order, by exactly
  its (type, key) or by its (type, group); group members come in registration order.
* identities — a non-built-in (type, key) resolves iff a service descriptor is registered for it.
The registration-side half ("resolvable under exactly those identities": which descriptors an `Add*`
call with aliases / names / groups / multiple returns / result fields creates) is `C17_accept_exact`.
-/
namespace Godi.Props.C04
open Godi.Container

/-- THE REGISTERED CONSTRUCTOR: whatever the cache contains — in particular entries created by other
function values sharing the code pointer and signature — the value that is called is the one that
was registered -/
theorem registered_constructor_called (c : Godi.Analyzer.Cache) (k : Godi.Analyzer.Ctor) :
    (Godi.Analyzer.toCall (Godi.Analyzer.analyze c k).2 k).value = k.fnId := rfl

/-- while the cached record alone is *not* enough: two closures sharing code collide in the cache -/
theorem cache_alone_would_collide :
    ∃ c k, (Godi.Analyzer.analyze c k).2.value ≠ k.fnId :=
  ⟨[((7, 1), ⟨1, 100⟩)], ⟨7, 1, 200⟩, by decide⟩

/-- ARGUMENTS, one step: the next declared dependency is resolved by exactly its (type, key) — or its
(type, group) — through the constructing scope, and appended at its declaration position -/
theorem args_in_declaration_order (beh : Beh) (f : Nat) (st : State) (s : Nat) (dep : Dep) (deps : List Dep)
    (acc : List Val) (v : Val) (st1 : State)
    (h : (if dep.grp != 0 then getGroup beh f st s dep.ty dep.grp else resolve beh f st s dep.ty dep.key) = (st1, .ok v)) :
    buildArgs beh (f + 1) st s (dep :: deps) acc = buildArgs beh f st1 s deps (acc ++ [v]) := by
  conv => lhs; unfold buildArgs
  simp only [h]

/-- a failing required dependency stops construction with that error (nothing is invented) -/
theorem required_failure_propagates (beh : Beh) (f : Nat) (st : State) (s : Nat) (dep : Dep) (deps : List Dep)
    (acc : List Val) (e : Err) (st1 : State) (hreq : dep.optional = false)
    (h : (if dep.grp != 0 then getGroup beh f st s dep.ty dep.grp else resolve beh f st s dep.ty dep.key) = (st1, .error e)) :
    buildArgs beh (f + 1) st s (dep :: deps) acc = (st1, .error e) := by
  conv => lhs; unfold buildArgs
  simp only [h, hreq, Bool.false_and, Bool.false_eq_true, ↓reduceIte]

/-- OPTIONAL: the field stays zero only when the dependency is absent; a registered dependency whose
construction fails (constructor error or panic on the chain) fails the consumer -/
theorem optional_swallows_only_absence (beh : Beh) (f : Nat) (st : State) (s : Nat) (dep : Dep) (deps : List Dep)
    (acc : List Val) (e : Err) (st1 : State) (hopt : dep.optional = true)
    (h : (if dep.grp != 0 then getGroup beh f st s dep.ty dep.grp else resolve beh f st s dep.ty dep.key) = (st1, .error e)) :
    buildArgs beh (f + 1) st s (dep :: deps) acc =
      (if isConstruction e then (st1, .error e) else buildArgs beh f st1 s deps (acc ++ [.zero])) := by
  conv => lhs; unfold buildArgs
  simp only [h, hopt, Bool.true_and]
  cases isConstruction e <;> simp

/-- GROUP ORDER: the members handed to a group field are the registered members in registration
order (`groupMembers` is a filter of the descriptor list, which is in registration order) -/
theorem group_members_in_registration_order (descs : List Desc) (ty grp : Nat) :
    (groupMembers descs ty grp).Sublist descs := List.filter_sublist

theorem group_resolution_keeps_order (beh : Beh) (f : Nat) (st : State) (s : Nat) (d : Desc) (ds : List Desc)
    (acc : List Inst) (i : Inst) (st1 : State) (h : resolveDesc beh f st s d = (st1, .ok (.inst i))) :
    resolveMembers beh (f + 1) st s (d :: ds) acc = resolveMembers beh f st1 s ds (acc ++ [i]) := by
  conv => lhs; unfold resolveMembers
  simp only [h]

/-- IDENTITIES: a (type, key) that is not built in is answered "not found" exactly when no service
descriptor is registered under it — no other identity ever answers for it -/
theorem not_found_iff_unregistered (beh : Beh) (st : State) (s f ty key : Nat)
    (hopen : (st.scope s).disposed = false) (hnb : ¬ (key = 0 ∧ ty < 3)) :
    resolve beh (f + 1) st s ty key = (st, .error [.resolution, .notFound]) ↔
      findService st.descs ty key = none ∨
      (∃ t, findService st.descs ty key = some t ∧ resolveDesc beh f st s t = (st, .error [.resolution, .notFound])) := by
  cases hf : findService st.descs ty key with
  | none =>
    have h0 : ¬ (key = 0 ∧ ty = tyCtx) := fun h => hnb ⟨h.1, by rw [h.2]; decide⟩
    have h1 : ¬ (key = 0 ∧ ty = tyProvider) := fun h => hnb ⟨h.1, by rw [h.2]; decide⟩
    have h2 : ¬ (key = 0 ∧ ty = tyScope) := fun h => hnb ⟨h.1, by rw [h.2]; decide⟩
    unfold resolve; simp [hopen, h0, h1, h2, hf]
  | some t =>
    rw [Godi.Props.C07.resolve_consults_provider beh st s f ty key t hopen hnb hf]
    simp

def ex : List Desc :=
  [{ id := 0, ident := ⟨3, 101, 1⟩, life := .transient, ctor := 1, kind := .plain, deps := [] },
   { id := 1, ident := ⟨3, 102, 1⟩, life := .transient, ctor := 2, kind := .plain, deps := [] },
   { id := 2, ident := ⟨4, 7, 0⟩, life := .transient, ctor := 3, kind := .plain, deps := [] },
   { id := 3, ident := ⟨5, 0, 0⟩, life := .transient, ctor := 4, kind := .plain,
     deps := [{ ty := 3, grp := 1 }, { ty := 4, key := 7 }, { ty := 9, optional := true }] }]
/-- group in registration order, keyed dependency, absent optional dependency left zero -/
example : (scopeGet {} (buildRuntime {} ex []).1 0 5 0).1.log =
    [.ctor 0 1 1 0 [] [1], .ctor 1 2 1 0 [] [2], .ctor 2 3 1 0 [] [3],
     .ctor 3 4 1 0 [.group [1, 2], .inst 3, .zero] [4]] := by decide

end Godi.Props.C04
