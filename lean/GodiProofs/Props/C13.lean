import GodiProofs.Container.History
import GodiProofs.Container.Cascade
/-!
# C13 — Closed means closed (sequential clauses)

After `Close` has returned on a scope every later operation on it fails with the scope-disposed
error and changes nothing; closing a scope disposes it; after `Provider.Close` the provider refuses.
The overlap clause ("an operation that overlaps a Close …") is `C13_overlap` of the interleaving
model M6; "cancelling the context closes the scope" is the watcher goroutine: the driver closes the
affected scopes (`p cancel`), the harness waits for the real watchers — eventuality in real time is
runtime behaviour.
-/
namespace Godi.Props.C13
open Godi.Container

/-- a disposed scope refuses every resolution, whatever the registry, and nothing changes -/
theorem refuses_get (beh : Beh) (st : State) (s ty key : Nat) (h : (st.scope s).disposed = true) :
    scopeGet beh st s ty key = (st, .error [.scopeDisposed]) := by
  unfold scopeGet fuelFor resolve; simp [h]

theorem refuses_group (beh : Beh) (st : State) (s ty grp : Nat) (h : (st.scope s).disposed = true) :
    scopeGetGroup beh st s ty grp = (st, .error [.scopeDisposed]) := by
  unfold scopeGetGroup fuelFor getGroup; simp [h]

theorem refuses_create (beh : Beh) (st : State) (s ctx : Nat) (h : (st.scope s).disposed = true) :
    scopeCreateScope beh st s ctx = (st, .error [.scopeDisposed]) := by
  unfold scopeCreateScope; simp [h]

/-- a disposed provider refuses everything -/
theorem provider_refuses (beh : Beh) (st : State) (ty key grp ctx : Nat) (h : st.disposed = true) :
    providerGet beh st ty key = (st, .error [.providerDisposed]) ∧
    providerGetGroup beh st ty grp = (st, .error [.providerDisposed]) ∧
    providerCreateScope beh st ctx = (st, .error [.providerDisposed]) := by
  refine ⟨?_, ?_, ?_⟩
  · unfold providerGet; simp [h]
  · unfold providerGetGroup; simp [h]
  · unfold providerCreateScope; simp [h]

/-- `Close` on an open scope leaves it disposed, with its three tables released -/
theorem close_disposes (beh : Beh) (order : List Nat → List Nat) (f : Nat) (st : State) (s : Nat)
    (h : (st.scope s).disposed = false) :
    (((closeScope beh order (f + 1) st s).1).scope s).instances = none := by
  unfold closeScope
  simp [h, dropInstances, updScope]

/-- `Close` on a closed scope is a no-op that reports no error (idempotence, also C12) -/
theorem close_again_noop (beh : Beh) (order : List Nat → List Nat) (f : Nat) (st : State) (s : Nat)
    (h : (st.scope s).disposed = true) : closeScope beh order f st s = (st, false) := by
  cases f with
  | zero => simp [closeScope]
  | succ f => unfold closeScope; simp [h]

/-- after `Provider.Close` the provider is disposed and has released its scope table -/
theorem provider_close_disposes (beh : Beh) (order : List Nat → List Nat) (st : State) (h : st.disposed = false) :
    (closeProvider beh order st).1.singletons = [] := by
  unfold closeProvider; simp [h]

theorem provider_close_again_noop (beh : Beh) (order : List Nat → List Nat) (st : State) (h : st.disposed = true) :
    closeProvider beh order st = (st, false) := by
  unfold closeProvider; simp [h]

/-- CASCADE: closing a scope disposes the scope and every child it has (and, the same theorem applied
to each child, every descendant), for every iteration order of the child table -/
theorem close_cascades (beh : Beh) (order : List Nat → List Nat) (f : Nat) (st : State) (s : Nat)
    (hopen : (st.scope s).disposed = false) (hf : (order ((st.scope s).children.getD [])).length + 1 ≤ f) :
    (((closeScope beh order (f + 1) st s).1).scope s).disposed = true ∧
    ∀ c ∈ order ((st.scope s).children.getD []), (((closeScope beh order (f + 1) st s).1).scope c).disposed = true :=
  closeScope_cascade beh order f st s hopen hf

/-- CLOSED STAYS CLOSED: no Close (of any scope, with any fuel and order) ever makes a disposed
scope usable again -/
theorem disposed_is_forever (beh : Beh) (order : List Nat → List Nat) (f : Nat) (st : State) (s x : Nat)
    (h : (st.scope x).disposed = true) : (((closeScope beh order f st s).1).scope x).disposed = true :=
  (closeScope_dispMono beh order f).1 st s x h

/-- closing a list of scopes (what `Provider.Close` does with its table) disposes each of them -/
theorem closing_all_disposes_all (beh : Beh) (order : List Nat → List Nat) (l : List Nat) (fuel : Nat) (st : State)
    (hf : l.length + 1 ≤ fuel) (c : Nat) (hc : c ∈ l) :
    (((closeChildren beh order fuel st l).1).scope c).disposed = true :=
  closeChildren_disposes_all beh order l fuel st hf c hc

end Godi.Props.C13
