import GodiProofs.Container.History
import GodiProofs.Container.Cascade
import GodiProofs.Container.TreeBuild
import GodiProofs.Container.HypSound
import GodiProofs.Container.Cancel
/-!
# C13 — Closed means closed (sequential clauses)

After `Close` has returned on a scope every later operation on it fails with the scope-disposed
error and changes nothing; closing a scope disposes it; after `Provider.Close` the provider refuses.
The overlap clause ("an operation that overlaps a Close …") is `C13_overlap` of the interleaving
model M6; "cancelling the context closes the scope" is the watcher goroutine: the driver closes the
affected scopes (`p cancel`), the harness waits for the real watchers — eventuality in real time is
runtime behaviour.
-/
namespace Godi.Props.C13
open Godi.Container

/-- a disposed scope refuses every resolution, whatever the registry, and nothing changes -/
theorem refuses_get (beh : Beh) (st : State) (s ty key : Nat) (h : (st.scope s).disposed = true) :
    scopeGet beh st s ty key = (st, .error [.scopeDisposed]) := by
  unfold scopeGet fuelFor resolve; simp [h]

theorem refuses_group (beh : Beh) (st : State) (s ty grp : Nat) (h : (st.scope s).disposed = true) :
    scopeGetGroup beh st s ty grp = (st, .error [.scopeDisposed]) := by
  unfold scopeGetGroup fuelFor getGroup; simp [h]

theorem refuses_create (beh : Beh) (st : State) (s ctx : Nat) (h : (st.scope s).disposed = true) :
    scopeCreateScope beh st s ctx = (st, .error [.scopeDisposed]) := by
  unfold scopeCreateScope; simp [h]

/-- a disposed provider refuses everything -/
theorem provider_refuses (beh : Beh) (st : State) (ty key grp ctx : Nat) (h : st.disposed = true) :
    providerGet beh st ty key = (st, .error [.providerDisposed]) ∧
    providerGetGroup beh st ty grp = (st, .error [.providerDisposed]) ∧
    providerCreateScope beh st ctx = (st, .error [.providerDisposed]) := by
  refine ⟨?_, ?_, ?_⟩
  · unfold providerGet; simp [h]
  · unfold providerGetGroup; simp [h]
  · unfold providerCreateScope; simp [h]

/-- `Close` on an open scope leaves it disposed, with its three tables released -/
theorem close_disposes (beh : Beh) (order : List Nat → List Nat) (f : Nat) (st : State) (s : Nat)
    (h : (st.scope s).disposed = false) :
    (((closeScope beh order (f + 1) st s).1).scope s).instances = none := by
  unfold closeScope
  simp [h, dropInstances, updScope]

/-- `Close` on a closed scope is a no-op that reports no error (idempotence, also C12) -/
theorem close_again_noop (beh : Beh) (order : List Nat → List Nat) (f : Nat) (st : State) (s : Nat)
    (h : (st.scope s).disposed = true) : closeScope beh order f st s = (st, false) := by
  cases f with
  | zero => simp [closeScope]
  | succ f => unfold closeScope; simp [h]

/-- after `Provider.Close` the provider is disposed and has released its scope table -/
theorem provider_close_disposes (beh : Beh) (order : List Nat → List Nat) (st : State) (h : st.disposed = false) :
    (closeProvider beh order st).1.singletons = [] := by
  unfold closeProvider; simp [h]

theorem provider_close_again_noop (beh : Beh) (order : List Nat → List Nat) (st : State) (h : st.disposed = true) :
    closeProvider beh order st = (st, false) := by
  unfold closeProvider; simp [h]

/-- CASCADE: closing a scope disposes the scope and every child it has (and, the same theorem applied
to each child, every descendant), for every iteration order of the child table -/
theorem close_cascades (beh : Beh) (order : List Nat → List Nat) (f : Nat) (st : State) (s : Nat)
    (hopen : (st.scope s).disposed = false) (hf : (order ((st.scope s).children.getD [])).length + 1 ≤ f) :
    (((closeScope beh order (f + 1) st s).1).scope s).disposed = true ∧
    ∀ c ∈ order ((st.scope s).children.getD []), (((closeScope beh order (f + 1) st s).1).scope c).disposed = true :=
  closeScope_cascade beh order f st s hopen hf

/-- CLOSED STAYS CLOSED: no Close (of any scope, with any fuel and order) ever makes a disposed
scope usable again -/
theorem disposed_is_forever (beh : Beh) (order : List Nat → List Nat) (f : Nat) (st : State) (s x : Nat)
    (h : (st.scope x).disposed = true) : (((closeScope beh order f st s).1).scope x).disposed = true :=
  (closeScope_dispMono beh order f).1 st s x h

/-- closing a list of scopes (what `Provider.Close` does with its table) disposes each of them -/
theorem closing_all_disposes_all (beh : Beh) (order : List Nat → List Nat) (l : List Nat) (fuel : Nat) (st : State)
    (hf : l.length + 1 ≤ fuel) (c : Nat) (hc : c ∈ l) :
    (((closeChildren beh order fuel st l).1).scope c).disposed = true :=
  closeChildren_disposes_all beh order l fuel st hf c hc

/-! ### the whole subtree, over histories (`Container/Tree.lean`, `TreeOps.lean`, `TreeBuild.lean`) -/

/-- the forest invariant holds after every history that starts from a successful Build -/
theorem forest_invariant_over_histories (beh : Beh) (descs : List Desc) (order : List Nat) (ops : List Op)
    (hyp : failedHyps descs = []) (hok : (buildRuntime beh descs order).2 = .ok ())
    (hv : ValidHistT beh (buildRuntime beh descs order).1 ops) :
    Tree (run beh (buildRuntime beh descs order).1 ops) := by
  obtain ⟨wf, rw', is, idist, _⟩ := hyps_of_check hyp
  obtain ⟨_, hsucc, _⟩ := build_ledger beh descs order wf rw' is idist
  obtain ⟨_, _, hdescs, hinit, _⟩ := hsucc hok
  have hb : buildRuntime beh descs order = ((buildRuntime beh descs order).1, .ok ()) := by
    cases h : buildRuntime beh descs order with
    | mk a b => rw [h] at hok; simp only at hok; subst hok; rfl
  obtain ⟨t0, h0⟩ := tree_buildRuntime beh descs order _ hb
  exact tree_run beh ops _ (by rw [hdescs]; exact wf) hinit t0 h0 hv

/-- CLOSED MEANS CLOSED, ALL THE WAY DOWN: at every point of every history, a closed scope has no open
descendant — however deep, whoever closed it (its own `Close`, an ancestor's, a failed creation) -/
theorem closed_scope_has_no_open_descendant (beh : Beh) (descs : List Desc) (order : List Nat) (ops : List Op)
    (hyp : failedHyps descs = []) (hok : (buildRuntime beh descs order).2 = .ok ())
    (hv : ValidHistT beh (buildRuntime beh descs order).1 ops) (s x : Nat) :
    let st := run beh (buildRuntime beh descs order).1 ops
    (st.scope s).disposed = true → x < st.nscopes → Below st s x → (st.scope x).disposed = true := by
  intro st hs hx hb
  exact closed_has_no_open_descendant (forest_invariant_over_histories beh descs order ops hyp hok hv) s hs x hx hb

/-- CASCADE, WHOLE SUBTREE: after any history, `Close` of any scope — ranging over the child tables in any
order — leaves that scope and every descendant closed (with the fuel the model runs on: the recursion reaches
all of them), and the invariant holds again -/
theorem close_reaches_every_descendant (beh : Beh) (descs : List Desc) (order : List Nat) (ops : List Op)
    (hyp : failedHyps descs = []) (hok : (buildRuntime beh descs order).2 = .ok ())
    (hv : ValidHistT beh (buildRuntime beh descs order).1 ops)
    (corder : List Nat → List Nat) (hperm : ∀ l, (corder l).Perm l) (s : Nat) :
    let st := run beh (buildRuntime beh descs order).1 ops
    s < st.nscopes →
    let st' := (closeScope beh corder (closeFuel st) st s).1
    (st'.scope s).disposed = true ∧ ∀ x, x < st.nscopes → Below st s x → (st'.scope x).disposed = true := by
  intro st hs st'
  have t := forest_invariant_over_histories beh descs order ops hyp hok hv
  obtain ⟨_, h2, h3⟩ := close_whole_subtree beh corder hperm st t s hs (closeFuel st) (closeFuel_ge st s)
  exact ⟨h2, fun x hx hb => (h3 x hx hb).1⟩

/-- CANCELLING A CONTEXT CLOSES ITS SCOPES: after any history, `cancel()` of a user context `x` — followed by the
cancellation watchers it wakes, which is what the model's `cancelCtx` runs — leaves closed every scope (other than
the root) that was created with `x` or with a context derived from `x`, and every scope created *without* a context
by such a scope, at any depth (`ScopeUnder`); nothing that was closed is reopened; the forest invariant holds again.
(When the watcher goroutines actually run is runtime behaviour: the harness waits for them.) -/
theorem cancelling_a_context_closes_its_scopes (beh : Beh) (descs : List Desc) (order : List Nat) (ops : List Op)
    (hyp : failedHyps descs = []) (hok : (buildRuntime beh descs order).2 = .ok ())
    (hv : ValidHistT beh (buildRuntime beh descs order).1 ops) (x : Nat) :
    let st := run beh (buildRuntime beh descs order).1 ops
    CtxWF st →
    Tree (cancelCtx beh st x) ∧
    (∀ s, (st.scope s).disposed = true → ((cancelCtx beh st x).scope s).disposed = true) ∧
    ∀ s, s < st.nscopes → s ≠ rootScope → ScopeUnder st x s → ((cancelCtx beh st x).scope s).disposed = true := by
  intro st wfc
  exact cancel_closes_scopes_under beh st (forest_invariant_over_histories beh descs order ops hyp hok hv) wfc x

/-! non-vacuity: context 2 is derived from context 1; s1 is created with context 2, s2 by s1 without a context,
s3 with no context from the provider. Cancelling 1 closes s1 and s2, not s3 -/
example :
    let st0 := (buildRuntime {} [] []).1
    let st0 := { st0 with ctxParent := fun c => if c = 2 then 1 else 0 }
    let st1 := (providerCreateScope {} st0 2).1
    let st2 := (scopeCreateScope {} st1 1 0).1
    let st3 := (providerCreateScope {} st2 0).1
    let st4 := cancelCtx {} st3 1
    ((st4.scope 1).disposed, (st4.scope 2).disposed, (st4.scope 3).disposed) = (true, true, false) := by
  decide

/-! non-vacuity: root ← s1 ← s2 ← s3; closing s1 closes s2 and s3 -/
example :
    let st0 := (buildRuntime {} [] []).1
    let st1 := (providerCreateScope {} st0 0).1
    let st2 := (scopeCreateScope {} st1 1 0).1
    let st3 := (scopeCreateScope {} st2 2 0).1
    let st4 := (closeScope {} id (closeFuel st3) st3 1).1
    ((st4.scope 1).disposed, (st4.scope 2).disposed, (st4.scope 3).disposed, st4.provScopes) = (true, true, true, some []) := by
  decide

end Godi.Props.C13
