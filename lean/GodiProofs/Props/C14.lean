import GodiProofs.Container.Close
/-!
# C14 — Closing a scope releases everything held on its behalf (table clauses)

The tables are `provider.scopes` (`provScopes`), each scope's `children`, its `instances` cache and
its disposal list. Goroutine exit, context cancellation by Go's `context` package and garbage
collection are runtime behaviour: the harness measures them (goroutine count back to the baseline,
`Context().Err() != nil`, table sizes compared with the model line by line) — they are not theorems.
-/
namespace Godi.Props.C14
open Godi.Container

/-- closing releases the cache, the disposal list and the child table of the scope -/
theorem tables_released (beh : Beh) (order : List Nat → List Nat) (f : Nat) (st : State) (s : Nat)
    (h : (st.scope s).disposed = false) :
    (((closeScope beh order (f + 1) st s).1).scope s).instances = none := by
  unfold closeScope; simp [h, dropInstances, updScope]

/-- the provider forgets a closed scope: its entry is erased from the provider's table … -/
theorem detached_from_provider (st : State) (s : Nat) :
    (detach st s).provScopes = st.provScopes.map (fun (l : List Nat) => List.erase l s) := by
  unfold detach
  split <;> rfl

/-- … and from the parent's child table -/
theorem detached_from_parent (st : State) (s p : Nat) (hp : (st.scope s).parent = some p) :
    ((detach st s).scope p).children = ((st.scope p).children.map (fun (l : List Nat) => List.erase l s)) := by
  unfold detach
  simp [hp, updScope]

/-- CREATE–CLOSE RETURNS: tracking a fresh scope and detaching it again restores the provider's table
(so any number of create/use/close cycles keeps it bounded) -/
theorem erase_append_self (s : Nat) : ∀ (l : List Nat), s ∉ l → (l ++ [s]).erase s = l := by
  intro l
  induction l with
  | nil => intro _; simp
  | cons a rest ih =>
    intro hs
    have ha : a ≠ s := fun e => hs (by simp [e])
    have hr : s ∉ rest := fun h => hs (List.mem_cons_of_mem _ h)
    have hb : (a == s) = false := by simp [ha]
    rw [List.cons_append, List.erase_cons, hb]
    simp [ih hr]

theorem create_close_restores (st : State) (s : Nat) (l : List Nat) (hl : st.provScopes = some l) (hs : s ∉ l) :
    (detach (addProvScope st s) s).provScopes = st.provScopes := by
  rw [detached_from_provider]
  simp only [addProvScope, hl, Option.map_some]
  rw [erase_append_self s l hs]

/-- A FAILED CREATION LEAVES NOTHING: the scope is not entered into the provider's table -/
theorem failed_creation_not_tracked (beh : Beh) (st : State) (ctx : Nat) (e : Err) (hd : st.disposed = false)
    (h : (newScope beh st none ctx true).2 = .error e) :
    providerCreateScope beh st ctx = ((newScope beh st none ctx true).1, .error e) := by
  unfold providerCreateScope
  simp only [hd, Bool.false_eq_true, ↓reduceIte]
  rw [h]

end Godi.Props.C14
