import GodiProofs.Container.Close
import GodiProofs.Props.C13
/-!
# C14 — Closing a scope releases everything held on its behalf (table clauses)

The tables are `provider.scopes` (`provScopes`), each scope's `children`, its `instances` cache and
its disposal list. Goroutine exit, context cancellation by Go's `context` package and garbage
collection are runtime behaviour: the harness measures them (goroutine count back to the baseline,
`Context().Err() != nil`, table sizes compared with the model line by line) — they are not theorems.
-/
namespace Godi.Props.C14
open Godi.Container

/-- closing releases the cache, the disposal list and the child table of the scope -/
theorem tables_released (beh : Beh) (order : List Nat → List Nat) (f : Nat) (st : State) (s : Nat)
    (h : (st.scope s).disposed = false) :
    (((closeScope beh order (f + 1) st s).1).scope s).instances = none := by
  unfold closeScope; simp [h, dropInstances, updScope]

/-- the provider forgets a closed scope: its entry is erased from the provider's table … -/
theorem detached_from_provider (st : State) (s : Nat) :
    (detach st s).provScopes = st.provScopes.map (fun (l : List Nat) => List.erase l s) := by
  unfold detach
  split <;> rfl

/-- … and from the parent's child table -/
theorem detached_from_parent (st : State) (s p : Nat) (hp : (st.scope s).parent = some p) :
    ((detach st s).scope p).children = ((st.scope p).children.map (fun (l : List Nat) => List.erase l s)) := by
  unfold detach
  simp [hp, updScope]

/-- CREATE–CLOSE RETURNS: tracking a fresh scope and detaching it again restores the provider's table
(so any number of create/use/close cycles keeps it bounded) -/
theorem erase_append_self (s : Nat) : ∀ (l : List Nat), s ∉ l → (l ++ [s]).erase s = l := by
  intro l
  induction l with
  | nil => intro _; simp
  | cons a rest ih =>
    intro hs
    have ha : a ≠ s := fun e => hs (by simp [e])
    have hr : s ∉ rest := fun h => hs (List.mem_cons_of_mem _ h)
    have hb : (a == s) = false := by simp [ha]
    rw [List.cons_append, List.erase_cons, hb]
    simp [ih hr]

theorem create_close_restores (st : State) (s : Nat) (l : List Nat) (hl : st.provScopes = some l) (hs : s ∉ l) :
    (detach (addProvScope st s) s).provScopes = st.provScopes := by
  rw [detached_from_provider]
  simp only [addProvScope, hl, Option.map_some]
  rw [erase_append_self s l hs]

/-- A FAILED CREATION LEAVES NOTHING: the scope is not entered into the provider's table -/
theorem failed_creation_not_tracked (beh : Beh) (st : State) (ctx : Nat) (e : Err) (hd : st.disposed = false)
    (h : (newScope beh st none ctx true).2 = .error e) :
    providerCreateScope beh st ctx = ((newScope beh st none ctx true).1, .error e) := by
  unfold providerCreateScope
  simp only [hd, Bool.false_eq_true, ↓reduceIte]
  rw [h]

/-! ### over histories: the tables hold live scopes only -/

/-- NEITHER THE PROVIDER NOR A PARENT KEEPS A CLOSED SCOPE: at every point of every history that starts from a
successful Build (resolutions, scope creations — failing initializers included —, closes in any order), every
entry of the provider's scope table and of every scope's child table is an *open* scope, listed once -/
theorem tables_hold_live_scopes_only (beh : Beh) (descs : List Desc) (order : List Nat) (ops : List Op)
    (hyp : failedHyps descs = []) (hok : (buildRuntime beh descs order).2 = .ok ())
    (hv : ValidHistT beh (buildRuntime beh descs order).1 ops) :
    let st := run beh (buildRuntime beh descs order).1 ops
    (∀ l, st.provScopes = some l → l.Nodup ∧ ∀ x ∈ l, (st.scope x).disposed = false) ∧
    (∀ p C, (st.scope p).children = some C → C.Nodup ∧ ∀ c ∈ C, (st.scope c).disposed = false ∧ (st.scope c).parent = some p) := by
  intro st
  have t := Godi.Props.C13.forest_invariant_over_histories beh descs order ops hyp hok hv
  refine ⟨?_, ?_⟩
  · intro l hl
    refine ⟨(t.tbl l hl).1, fun x hx => ?_⟩
    rcases ((t.tbl l hl).2 x hx).2.2 with h | h
    · exact h
    · exact h.elim
  · intro p C hC
    refine ⟨(t.kids p C hC).1, fun c hc => ?_⟩
    obtain ⟨_, h2, h3⟩ := (t.kids p C hC).2 c hc
    rcases h3 with h | h
    · exact ⟨h, h2⟩
    · exact h.elim

/-- … and a closed scope has released its own child table and its instance cache, and is in nobody's table -/
theorem closed_scope_is_released_everywhere (beh : Beh) (descs : List Desc) (order : List Nat) (ops : List Op)
    (hyp : failedHyps descs = []) (hok : (buildRuntime beh descs order).2 = .ok ())
    (hv : ValidHistT beh (buildRuntime beh descs order).1 ops) (s : Nat) :
    let st := run beh (buildRuntime beh descs order).1 ops
    (st.scope s).disposed = true →
    (∀ l, st.provScopes = some l → s ∉ l) ∧ (∀ p C, (st.scope p).children = some C → s ∉ C) ∧
    (st.scope s).children = none ∧ (st.scope s).instances = none := by
  intro st hs
  exact closed_scope_is_released (Godi.Props.C13.forest_invariant_over_histories beh descs order ops hyp hok hv) s hs

/-- create–use–close cycles do not accumulate: after the cycle the provider's table is what it was -/
example :
    let st0 := (buildRuntime {} [] []).1
    let st1 := (providerCreateScope {} st0 0).1
    let st2 := (closeScope {} id (closeFuel st1) st1 1).1
    let st3 := (providerCreateScope {} st2 0).1
    let st4 := (closeScope {} id (closeFuel st3) st3 2).1
    (st0.provScopes, st2.provScopes, st4.provScopes) = (some [], some [], some []) := by decide

end Godi.Props.C14
