import GodiProofs.Container.History
/-!
# C18 — Built-in injectables and context linkage are scope-correct

Model M5: `context.Context`, `Provider`, `Scope` are type ids 0, 1, 2 (`tyCtx`, `tyProvider`,
`tyScope`); a resolved context is `Val.ctx s` = "the context of scope `s`". The context *tree*
(values and cancellation inherited from the context passed to `CreateScope`, `FromContext` on
derived contexts) is Go's `context` package and is observed by the harness monitors, not modelled —
see the trusted base. That the three types cannot be registered is `C17`'s reserved-type rejection
(`Props/C17.lean`, reserved flag) plus the monitor of the collection harness.
-/
namespace Godi.Props.C18
open Godi.Container

/-- in any open scope, at any time, whatever is registered: the three built-ins are the scope's own
context, the root provider, and that very scope — and resolving them changes nothing -/
theorem builtin_context (beh : Beh) (st : State) (s f : Nat) (h : (st.scope s).disposed = false) :
    resolve beh (f + 1) st s tyCtx 0 = (st, .ok (.ctx s)) := by
  unfold resolve; simp [h]

theorem builtin_provider (beh : Beh) (st : State) (s f : Nat) (h : (st.scope s).disposed = false) :
    resolve beh (f + 1) st s tyProvider 0 = (st, .ok .provider) := by
  unfold resolve; simp [h, tyProvider, tyCtx]

theorem builtin_scope (beh : Beh) (st : State) (s f : Nat) (h : (st.scope s).disposed = false) :
    resolve beh (f + 1) st s tyScope 0 = (st, .ok (.scope s)) := by
  unfold resolve; simp [h, tyScope, tyCtx, tyProvider]

/-- as a constructor parameter or parameter-object field of anything constructed in scope `s`:
the argument vector receives exactly those values, in declaration position -/
theorem builtin_injected (beh : Beh) (st : State) (s f : Nat) (deps : List Dep) (acc : List Val)
    (opt : Bool) (h : (st.scope s).disposed = false) :
    buildArgs beh (f + 2) st s ({ ty := tyScope, optional := opt } :: deps) acc =
      buildArgs beh (f + 1) st s deps (acc ++ [.scope s]) ∧
    buildArgs beh (f + 2) st s ({ ty := tyCtx, optional := opt } :: deps) acc =
      buildArgs beh (f + 1) st s deps (acc ++ [.ctx s]) ∧
    buildArgs beh (f + 2) st s ({ ty := tyProvider, optional := opt } :: deps) acc =
      buildArgs beh (f + 1) st s deps (acc ++ [.provider]) := by
  refine ⟨?_, ?_, ?_⟩
  · conv => lhs; unfold buildArgs
    simp [builtin_scope beh st s f h]
  · conv => lhs; unfold buildArgs
    simp [builtin_context beh st s f h]
  · conv => lhs; unfold buildArgs
    simp [builtin_provider beh st s f h]

/-- keyed requests for a built-in type are ordinary look-ups: nothing registered ⇒ not found -/
theorem keyed_builtin_not_found (beh : Beh) (st : State) (s f ty key : Nat) (hk : key ≠ 0)
    (h : (st.scope s).disposed = false) (hn : findService st.descs ty key = none) :
    resolve beh (f + 1) st s ty key = (st, .error [.resolution, .notFound]) := by
  unfold resolve; simp [h, hk, hn]

/-- singletons are constructed through the root scope: `Build` creates them with
`createInstance … rootScope`, so by `builtin_injected` they receive the root scope and its context -/
theorem singletons_built_in_root (beh : Beh) (st : State) (id : Nat) (rest : List Nat) (d : Desc)
    (hd : findDesc st.descs id = some d) (hl : d.life = .singleton) (hn : lookup st.singletons d.ident = none) :
    createSingletons beh st (id :: rest) =
      (match (createInstance beh (fuelFor st) st rootScope d).2 with
       | .ok _ => createSingletons beh (createInstance beh (fuelFor st) st rootScope d).1 rest
       | .error e => ((createInstance beh (fuelFor st) st rootScope d).1, .error (.resolution :: e))) := by
  conv => lhs; unfold createSingletons
  simp only [hd, hl, hn]
  generalize createInstance beh (fuelFor st) st rootScope d = r
  obtain ⟨st1, res⟩ := r
  cases res <;> simp

/-! non-vacuity: a scoped service taking (Scope, Context), resolved in a child scope s1 -/
def exDescs : List Desc :=
  [{ id := 0, ident := ⟨3, 0, 0⟩, life := .scoped, ctor := 1, kind := .plain,
     deps := [{ ty := tyScope }, { ty := tyCtx }] }]

example : ((scopeGet {} (providerCreateScope {} (buildRuntime {} exDescs []).1 0).1 1 3 0).1.log) =
    [.ctor 0 1 1 1 [.scope 1, .ctx 1] [1]] := by decide

end Godi.Props.C18
