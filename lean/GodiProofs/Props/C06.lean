import GodiProofs.Graph.Bridge
import GodiProofs.Container.BuildOrder
/-!
# C06 (graph component) — topological ordering

"Topological ordering of any acyclic dependency graph lists every node exactly once with all of a
node's dependencies before it", for **every** iteration order of the Go maps involved
(`norder` = order of `range depCounts`, `eorder` = order of `range g.edges` in `updateDegrees`).
The container-level clauses of C06 (verdict independent of registration order, singletons created
after their dependencies) are in `Props/C06b.lean`.
-/
namespace Godi.Props.C06
open Godi.Kahn (Key)
open Godi.Graph Godi.Spec

/-- a successful sort is a permutation of the nodes with every dependency strictly earlier -/
def ValidOrder (g : Graph) (l : List Key) : Prop :=
  l.Perm g.nodes ∧ ∀ a ∈ l, ∀ d ∈ g.edges a, d ∈ l ∧ l.idxOf d < l.idxOf a

/-- SOUNDNESS of `TopologicalSort` when it recomputes. -/
theorem topo_valid (g : Graph) (b : Base g) (s : Synced g) (norder : List Key) (hp : norder.Perm g.nodes)
    (hd : g.sortedDirty = true) (g' : Graph) (l : List Key)
    (h : topologicalSortWith g norder = (g', some l)) : ValidOrder g l := by
  unfold topologicalSortWith at h
  rw [hd] at h
  simp only [] at h
  split at h
  next l' hs =>
    injection h with _ h2; injection h2 with h2; subst h2
    obtain ⟨p1, p2⟩ := Kahn.sort_sound _ (kahn_wf g b s norder hp) l' hs
    refine ⟨p1.trans hp, ?_⟩
    intro a ha d hdm
    have ha' : a ∈ g.nodes := (p1.trans hp).mem_iff.1 ha
    exact p2 a ha d (by simpa [kahnView, b.deps a ha'] using hdm)
  next hs => cases h

/-- COMPLETENESS: on an acyclic graph the sort succeeds, whatever the iteration orders. -/
theorem topo_complete (g : Graph) (b : Base g) (s : Synced g) (norder : List Key) (hp : norder.Perm g.nodes)
    (hac : ¬ HasCycle (abs g)) : ∃ g' l, topologicalSortWith g norder = (g', some l) := by
  unfold topologicalSortWith
  have hac' : ¬ Kahn.HasCycle (kahnView g norder) := fun h => hac ((kahn_hasCycle_iff b norder hp).1 h)
  obtain ⟨l, hl⟩ := Kahn.sort_complete _ (kahn_wf g b s norder hp) hac'
  split
  · exact ⟨_, _, rfl⟩
  · rw [hl]; exact ⟨_, _, rfl⟩

/-- and it fails on every graph that has a cycle (when it recomputes) -/
theorem topo_fails_on_cycle (g : Graph) (b : Base g) (s : Synced g) (norder : List Key) (hp : norder.Perm g.nodes)
    (hd : g.sortedDirty = true) (hc : HasCycle (abs g)) : (topologicalSortWith g norder).2 = none := by
  unfold topologicalSortWith
  rw [hd]
  simp only []
  split
  next l hs =>
    exact absurd ((kahn_hasCycle_iff b norder hp).2 hc) (Kahn.sort_some_acyclic _ (kahn_wf g b s norder hp) l hs)
  next => rfl

/-- What `Build` does (collection.go phases 1, 2, 6): any number of deferred adds, the cycle check,
then the sort. For every registration list and all iteration orders the singleton creation order
is a valid dependency-first order of exactly the registered graph. -/
def addAll (g : Graph) : List (Key × Nat × List Key) → Graph
  | [] => g
  | (k, p, ds) :: rest => addAll (addProviderDeferred g k p ds) rest

theorem addAll_base (regs : List (Key × Nat × List Key)) : ∀ g, Base g → Base (addAll g regs) := by
  induction regs with
  | nil => intro g b; exact b
  | cons r rest ih =>
    intro g b
    obtain ⟨k, p, ds⟩ := r
    exact ih _ (addProviderDeferred_base g k p ds b)

theorem build_order_valid (regs : List (Key × Nat × List Key)) (eorder norder norder' : List Key)
    (g1 g2 : Graph) (r : CycleRes) (l : List Key)
    (he : eorder.Perm (addAll {} regs).ekeys) (hn : norder'.Perm (addAll {} regs).nodes)
    (h1 : detectCyclesWith (addAll {} regs) eorder norder = (g1, r))
    (h2 : topologicalSortWith g1 norder' = (g2, some l)) :
    l.Perm (addAll {} regs).nodes ∧
      ∀ a ∈ l, ∀ d ∈ (addAll {} regs).edges a, d ∈ l ∧ l.idxOf d < l.idxOf a := by
  have b0 := addAll_base regs {} base_empty
  obtain ⟨b1, s1, n1, e1⟩ := detectCyclesWith_base_synced _ eorder norder he b0
  rw [h1] at b1 s1 n1 e1
  simp only [] at b1 s1 n1 e1
  have hdirty : g1.sortedDirty = true ∨ g1.sortedDirty = false := by cases g1.sortedDirty <;> simp
  have hn' : norder'.Perm g1.nodes := by rw [n1]; exact hn
  -- the sorted cache of a graph that was only built by deferred adds is dirty
  have hd : g1.sortedDirty = true := by
    have : ∀ regs g, g.sortedDirty = true → (addAll g regs).sortedDirty = true := by
      intro regs
      induction regs with
      | nil => intro g h; exact h
      | cons r rest ih =>
        intro g _
        obtain ⟨k, p, ds⟩ := r
        apply ih
        unfold addProviderDeferred; rfl
    have h0 := this regs {} rfl
    have fr : (detectCyclesWith (addAll {} regs) eorder norder).1.sortedDirty = (addAll {} regs).sortedDirty := by
      have f := (updateDegreesWith_frame (addAll {} regs) eorder).2.2.2.2.2.1
      have hloop : ∀ l g, (detectLoop g l).1.sortedDirty = g.sortedDirty := by
        intro l
        induction l with
        | nil => intro g; rfl
        | cons k rest ih =>
          intro g
          unfold detectLoop
          have hk : (detectCyclesFrom g k).1.sortedDirty = g.sortedDirty := by
            unfold detectCyclesFrom; split; rfl; split <;> rfl
          split
          next g1' heq =>
            have : g1' = (detectCyclesFrom g k).1 := by rw [heq]
            subst this; rw [ih]; exact hk
          next => exact hk
      cases hd : (updateDegreesWith (addAll {} regs) eorder).cycleDirty with
      | false => rw [detectCyclesWith_clean _ eorder norder hd]; exact f
      | true =>
        rw [detectCyclesWith_dirty _ eorder norder hd]
        simp only [setCycleClean_sortedDirty, hloop, resetCycleCache_sortedDirty]
        exact f
    rw [h1] at fr; simp only [] at fr; rw [fr]; exact h0
  have hv := topo_valid g1 b1 s1 norder' hn' hd g2 l h2
  unfold ValidOrder at hv
  rw [n1, e1] at hv
  exact hv

/-- the executable checker the correspondence check applies to the implementation's answer is sound -/
theorem isTopoOrder_sound (d : Digraph) (l : List Key) (h : isTopoOrder d l = true) :
    l.Nodup ∧ (∀ k, k ∈ l ↔ k ∈ d.nodes) := by
  unfold isTopoOrder at h
  simp only [Bool.and_eq_true, decide_eq_true_eq] at h
  obtain ⟨⟨⟨_, hs⟩, hn⟩, _⟩ := h
  refine ⟨hn, fun k => ?_⟩
  unfold sameSet at hs
  simp only [Bool.and_eq_true, List.all_eq_true, decide_eq_true_eq] at hs
  exact ⟨hs.1 k, hs.2 k⟩

/-- ORDER INDEPENDENCE (container level): permuting the registration calls — any order of the `Add*`
calls producing the same set of descriptors — does not change the verdict of Build's phases 1–3
(circular / lifetime conflict / missing dependency / ok). Hypotheses: one registration per service
identity and pairwise distinct graph keys, both evaluated on every generated registry by `p hyp`. -/
theorem build_verdict_order_independent {descs descs' : List Godi.Container.Desc} (hp : descs'.Perm descs)
    (hu : Godi.Container.ServiceUnique descs) (hk : Godi.Container.KeysDistinct descs) :
    Godi.Container.verdict descs' = Godi.Container.verdict descs :=
  Godi.Container.verdict_order_independent hp hu hk

/-- … and the dependency relation itself (what the graph records) is a property of the registration set -/
theorem build_graph_relation_order_independent {descs descs' : List Godi.Container.Desc} (hp : descs'.Perm descs)
    (hk : Godi.Container.KeysDistinct descs) (a b : Key) :
    b ∈ (Godi.Container.buildGraph descs').edges a ↔ b ∈ (Godi.Container.buildGraph descs).edges a := by
  rw [Godi.Container.buildGraph_edge_mem descs' (Godi.Container.keysDistinct_perm hp hk),
    Godi.Container.buildGraph_edge_mem descs hk, Godi.Container.graphInput_edge_iff,
    Godi.Container.graphInput_edge_iff, Godi.Container.edgeRel_perm hp]

/-! non-vacuity: a concrete three-node graph built the way `Build` builds it satisfies the
hypotheses, and the model sorts it dependencies-first -/
example : (topologicalSort (detectCycles (addAll {} [(1, 10, [2, 3]), (2, 11, [3]), (3, 12, [])])).1).2
    = some [3, 2, 1] := by decide

end Godi.Props.C06
