import GodiProofs.Props.C02
/-!
# C15 — Failures are returned, classifiable errors — never panics or partial state

In M5 every operation returns `State × Except Err _`: there is no panic outcome left in the model
because the repaired code guards every partial operation (nil-map writes, `reflect.Set` of a
non-assignable value) — that the *implementation* does not panic is what the harness's `recover`
around every call and the correspondence check (an escaped panic is the observation `panic`, which the
model never prints) establish. `Err` is the list of godi's error layers that `errors.Is/As` can reach.
-/
namespace Godi.Props.C15
open Godi.Container

/-- a constructor that returns an error is reported as an invocation error wrapping *its* error -/
theorem ctor_error_wrapped (beh : Beh) (f : Nat) (st : State) (s : Nat) (d : Desc) (hk : ∀ v, d.kind ≠ .inst v)
    (args : List Val) (ha : (buildArgs beh f st s d.deps []).2 = .ok args)
    (hb : beh.ctor d.ctor ((buildArgs beh f st s d.deps []).1.invs d.ctor + 1) = .err) :
    (createInstance beh (f + 1) st s d).2 = .error [.invocation, .injected d.ctor] := by
  unfold createInstance
  split
  next v hv => exact absurd hv (hk v)
  · simp only [ha]
    have hn : (bumpInv (buildArgs beh f st s d.deps []).1 d.ctor).invs d.ctor =
        (buildArgs beh f st s d.deps []).1.invs d.ctor + 1 := by simp [bumpInv]
    rw [hn, hb]

/-- a constructor that panics is reported as a panic error -/
theorem ctor_panic_reported (beh : Beh) (f : Nat) (st : State) (s : Nat) (d : Desc) (hk : ∀ v, d.kind ≠ .inst v)
    (args : List Val) (ha : (buildArgs beh f st s d.deps []).2 = .ok args)
    (hb : beh.ctor d.ctor ((buildArgs beh f st s d.deps []).1.invs d.ctor + 1) = .panic) :
    (createInstance beh (f + 1) st s d).2 = .error [.panicL] := by
  unfold createInstance
  split
  next v hv => exact absurd hv (hk v)
  · simp only [ha]
    have hn : (bumpInv (buildArgs beh f st s d.deps []).1 d.ctor).invs d.ctor =
        (buildArgs beh f st s d.deps []).1.invs d.ctor + 1 := by simp [bumpInv]
    rw [hn, hb]

/-- WRAPPERS KEEP THE CAUSE: a failing dependency's error travels outward with layers only added in
front — through argument building, the consumer's invocation error and group resolution — so every
sentinel and typed layer of the cause stays reachable -/
theorem cause_reachable_through_invocation (beh : Beh) (f : Nat) (st : State) (s : Nat) (d : Desc) (hk : ∀ v, d.kind ≠ .inst v)
    (e : Err) (ha : (buildArgs beh f st s d.deps []).2 = .error e) :
    (createInstance beh (f + 1) st s d).2 = .error (.invocation :: e) := by
  unfold createInstance
  split
  next v hv => exact absurd hv (hk v)
  · simp only [ha]

theorem cause_reachable_through_group (beh : Beh) (f : Nat) (st : State) (s : Nat) (d : Desc) (ds : List Desc)
    (acc : List Inst) (e : Err) (h : (resolveDesc beh f st s d).2 = .error e) :
    (resolveMembers beh (f + 1) st s (d :: ds) acc).2 = .error (.resolution :: e) := by
  conv => lhs; unfold resolveMembers
  simp only [h]

/-- the Build wrapper: validation failures are `BuildError`s whose cause is the specific error -/
theorem build_errors_classified (descs : List Desc) :
    (verdict descs = .circular → verdictErr (verdict descs) = [.build, .circular]) ∧
    (verdict descs = .lifetime → verdictErr (verdict descs) = [.build, .lifetimeConflict]) ∧
    (verdict descs = .missing → verdictErr (verdict descs) = [.build, .resolution, .notFound]) := by
  refine ⟨fun h => by rw [h]; rfl, fun h => by rw [h]; rfl, fun h => by rw [h]; rfl⟩

/-- "disposed" is distinguishable: the bare sentinels -/
theorem disposed_errors (beh : Beh) (st : State) (s ty key : Nat) :
    ((st.scope s).disposed = true → (scopeGet beh st s ty key).2 = .error [.scopeDisposed]) ∧
    (st.disposed = true → (providerGet beh st ty key).2 = .error [.providerDisposed]) := by
  refine ⟨fun h => ?_, fun h => ?_⟩
  · unfold scopeGet fuelFor resolve; simp [h]
  · unfold providerGet; simp [h]

/-- NOT CACHED: a failed construction leaves the cache as argument building left it, i.e. only
successfully constructed dependencies remain (owned by the scope's disposal list and closed with it),
and the call reports an error -/
theorem failure_not_cached (beh : Beh) (f : Nat) (st : State) (s : Nat) (d : Desc)
    (hk : ∀ v, d.kind ≠ .inst v) (args : List Val)
    (ha : (buildArgs beh f st s d.deps []).2 = .ok args)
    (hb : beh.ctor d.ctor ((buildArgs beh f st s d.deps []).1.invs d.ctor + 1) ≠ .ok) :
    ((createInstance beh (f + 1) st s d).1.scope s).instances =
      ((buildArgs beh f st s d.deps []).1.scope s).instances ∧
    ∃ e, (createInstance beh (f + 1) st s d).2 = .error e :=
  Godi.Props.C02.failed_construction_not_cached beh f st s d hk args ha hb

def ex : List Desc :=
  [{ id := 0, ident := ⟨3, 0, 0⟩, life := .transient, ctor := 1, kind := .plain, deps := [] },
   { id := 1, ident := ⟨4, 0, 0⟩, life := .scoped, ctor := 2, kind := .plain, deps := [{ ty := 3 }] }]
/-- the dependency's constructor fails on its first invocation: the consumer's error carries it; the
retry (second invocation succeeds) behaves like a first attempt -/
def exBeh : Beh := { ctor := fun c n => if c = 1 ∧ n = 1 then .err else .ok }
def errIs (r : Except Err Val) (e : Err) : Bool := match r with | .error e' => e' == e | .ok _ => false
example : errIs (scopeGet exBeh (buildRuntime exBeh ex []).1 0 4 0).2 [.invocation, .invocation, .injected 1] = true := by decide
example : okIs (scopeGet exBeh (scopeGet exBeh (buildRuntime exBeh ex []).1 0 4 0).1 0 4 0).2 (.inst 2) = true := by decide

end Godi.Props.C15
