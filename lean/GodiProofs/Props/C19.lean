import GodiProofs.Props.C06
import GodiProofs.Props.C05
import GodiProofs.Graph.Remove
import GodiProofs.Graph.AddRollback
import GodiProofs.Graph.Transitive
import GodiProofs.Graph.Depths
import GodiProofs.Graph.DepthsComplete
/-!
# C19 — The dependency graph always agrees with a plain digraph model

`abs g = ⟨g.nodes, g.edges⟩` is the plain reference digraph. The structural invariant `Base` holds
in the empty graph and is preserved by every mutation proved below; `Synced` (degree and dependents
fields agree with the adjacency lists) is re-established by every operation that ends with
`updateDegrees`, for every iteration order of the `edges` map. Under `Base ∧ Synced` every query
equals the plain digraph's answer.

Proved here: the immediate `AddProvider` (accepted: the digraph update; rejected: the graph is the
digraph it was; accepted exactly when the updated digraph is acyclic), the deferred add (+ the documented
`DetectCycles`), `RemoveProvider`, `Clear`, all queries, cache freshness of the sort. The exhaustive
correspondence stream (every op sequence of length ≤ 3 over 3 identities, all queries after every
step) ties these definitions to graph.go on every run.
-/
namespace Godi.Props.C19
open Godi.Kahn (Key)
open Godi.Graph Godi.Spec

/-! ### mutations -/

theorem empty_ok : Base ({} : Graph) ∧ Synced ({} : Graph) := ⟨base_empty, synced_empty⟩

theorem clear_refines (g : Graph) : abs (clear g) = ⟨[], fun _ => []⟩ ∧ Base (clear g) ∧ Synced (clear g) :=
  ⟨rfl, base_empty, synced_empty⟩

/-- deferred add: the node and its dependencies exist afterwards, its adjacency list is replaced by
the new dependency list, every other adjacency list is untouched -/
theorem addDeferred_refines (g : Graph) (b : Base g) (k : Key) (p : Nat) (ds : List Key) :
    Base (addProviderDeferred g k p ds) ∧
    (addProviderDeferred g k p ds).edges = upd g.edges k ds ∧
    (∀ x, x ∈ (addProviderDeferred g k p ds).nodes ↔ x ∈ g.nodes ∨ x = k ∨ x ∈ ds) :=
  ⟨addProviderDeferred_base g k p ds b, addProviderDeferred_edges g k p ds b,
   addProviderDeferred_nodes g k p ds b⟩

/-- the documented completion: `DetectCycles` leaves the digraph as it is and brings every derived
field in sync, for every iteration order of the two maps -/
theorem detect_completes (g : Graph) (b : Base g) (eorder norder : List Key) (he : eorder.Perm g.ekeys) :
    Base (detectCyclesWith g eorder norder).1 ∧ Synced (detectCyclesWith g eorder norder).1 ∧
    abs (detectCyclesWith g eorder norder).1 = abs g := by
  obtain ⟨h1, h2, h3, h4⟩ := detectCyclesWith_base_synced g eorder norder he b
  exact ⟨h1, h2, by simp [abs, h3, h4]⟩

/-! ### queries, under `Base ∧ Synced` -/

theorem size_eq (g : Graph) : size g = (abs g).nodes.length := rfl
theorem hasNode_eq (g : Graph) (k : Key) : hasNode g k = decide (k ∈ (abs g).nodes) := rfl

theorem dependencies_eq (g : Graph) (b : Base g) (k : Key) :
    getDependencies g k = if k ∈ g.nodes then some ((abs g).edge k) else none := by
  unfold getDependencies
  split
  next h => rw [b.deps k h]; rfl
  next h => rfl

/-- the dependents of `q` are exactly the nodes that list `q` among their dependencies, with multiplicity -/
theorem dependents_eq (g : Graph) (s : Synced g) (q k : Key) (hq : q ∈ g.nodes) (hk : k ∈ g.nodes) :
    ∃ l, getDependents g q = some l ∧ l.count k = ((abs g).edge k).count q ∧ ∀ x ∈ l, x ∈ g.nodes := by
  refine ⟨g.ndependents q, by simp [getDependents, hq], s.cons q hq k hk, s.depnSub q hq⟩

/-- leaves: nodes without dependencies -/
theorem leaves_eq (g : Graph) (s : Synced g) (k : Key) :
    k ∈ getLeaves g ↔ k ∈ g.nodes ∧ (abs g).edge k = [] := by
  unfold getLeaves
  simp only [List.mem_filter, beq_iff_eq]
  constructor
  · rintro ⟨hk, h0⟩
    rw [s.outDeg k hk] at h0
    exact ⟨hk, List.eq_nil_of_length_eq_zero h0⟩
  · rintro ⟨hk, he⟩
    refine ⟨hk, ?_⟩
    rw [s.outDeg k hk]
    show (g.edges k).length = 0
    have : g.edges k = [] := he
    rw [this]; rfl

/-- roots: nodes nobody depends on -/
theorem roots_eq (g : Graph) (s : Synced g) (k : Key) :
    k ∈ getRoots g ↔ k ∈ g.nodes ∧ ∀ q ∈ g.nodes, k ∉ (abs g).edge q := by
  unfold getRoots
  simp only [List.mem_filter, beq_iff_eq]
  constructor
  · rintro ⟨hk, h0⟩
    refine ⟨hk, ?_⟩
    intro q hq hmem
    rw [s.inDeg k hk] at h0
    have hnil : g.ndependents k = [] := List.eq_nil_of_length_eq_zero h0
    have hc := s.cons k hk q hq
    rw [hnil] at hc
    simp only [List.count_nil] at hc
    have : 0 < (g.edges q).count k := List.count_pos_iff.2 hmem
    omega
  · rintro ⟨hk, hno⟩
    refine ⟨hk, ?_⟩
    rw [s.inDeg k hk]
    cases hd : g.ndependents k with
    | nil => rfl
    | cons x rest =>
      exfalso
      have hx : x ∈ g.ndependents k := by rw [hd]; simp
      have hxn := s.depnSub k hk x hx
      have hc := s.cons k hk x hxn
      have : 0 < (g.ndependents k).count x := List.count_pos_iff.2 hx
      have : 0 < (g.edges x).count k := by omega
      exact hno x hxn (List.count_pos_iff.1 this)

/-- acyclicity and topological order: `Props/C05.detectCycles_exact`, `Props/C06.topo_valid`,
`topo_complete`, `topo_fails_on_cycle` -/
theorem acyclicity_eq (g : Graph) (b : Base g) (hd : g.cycleDirty = true) (eorder norder : List Key)
    (he : eorder.Perm g.ekeys) (hn : norder.Perm g.nodes) :
    (detectCyclesWith g eorder norder).2 = .ok ↔ ¬ HasCycle (abs g) :=
  Godi.Props.C05.detectCycles_exact g b hd eorder norder he hn

/-! ### caches are never stale -/

/-- every mutation marks both caches dirty … -/
theorem mutations_invalidate (g : Graph) (k : Key) (p : Nat) (ds : List Key) :
    (addProviderDeferred g k p ds).sortedDirty = true ∧ (addProviderDeferred g k p ds).cycleDirty = true ∧
    (clear g).sortedDirty = true ∧ (clear g).cycleDirty = true ∧
    (k ∈ g.nodes → (removeProvider g k).sortedDirty = true ∧ (removeProvider g k).cycleDirty = true) := by
  refine ⟨rfl, rfl, rfl, rfl, ?_⟩
  intro hk
  unfold removeProvider
  simp [hk]

/-- … and the only way the sort cache becomes clean is by storing a freshly computed valid order -/
theorem sort_cache_fresh (g : Graph) (b : Base g) (s : Synced g) (norder : List Key) (hp : norder.Perm g.nodes)
    (hd : g.sortedDirty = true) (g' : Graph) (l : List Key) (h : topologicalSortWith g norder = (g', some l)) :
    g'.sorted = some l ∧ g'.sortedDirty = false ∧ Godi.Props.C06.ValidOrder g l ∧
    (topologicalSortWith g' norder).2 = some l := by
  have hv := Godi.Props.C06.topo_valid g b s norder hp hd g' l h
  unfold topologicalSortWith at h
  rw [hd] at h
  simp only [] at h
  split at h
  next l' hs =>
    injection h with h1 h2; injection h2 with h2; subst h2; subst h1
    refine ⟨rfl, rfl, hv, ?_⟩
    unfold topologicalSortWith
    simp
  next => cases h

/-! ### the immediate `AddProvider` -/

/-- ACCEPTED ADD refines "replace `k`'s adjacency list, create missing nodes" -/
theorem add_accepted_refines (g : Graph) (b : Base g) (k : Key) (p : Nat) (ds : List Key)
    (h : (addProvider g k p ds).2 = .ok) :
    Base (addProvider g k p ds).1 ∧ Synced (addProvider g k p ds).1 ∧
    (addProvider g k p ds).1.edges = upd g.edges k ds ∧
    (∀ x, x ∈ (addProvider g k p ds).1.nodes ↔ x ∈ g.nodes ∨ x = k ∨ x ∈ ds) :=
  addProvider_accepted g b k p ds h

/-- REJECTED ADD leaves the digraph as it was (same node set, same adjacency function), with the
invariant and all derived fields in sync -/
theorem add_rejected_unchanged (g : Graph) (b : Base g) (k : Key) (p : Nat) (ds : List Key)
    (h : (addProvider g k p ds).2 ≠ .ok) :
    Base (addProvider g k p ds).1 ∧ Synced (addProvider g k p ds).1 ∧
    (addProvider g k p ds).1.edges = g.edges ∧
    (∀ x, x ∈ (addProvider g k p ds).1.nodes ↔ x ∈ g.nodes) :=
  addProvider_rejected g b k p ds h

/-- DECISION: on an acyclic graph the add is accepted exactly when the updated digraph is acyclic -/
theorem add_accepts_iff_acyclic (g : Graph) (b : Base g) (k : Key) (p : Nat) (ds : List Key)
    (hacyc : ∀ c, ¬ Reach g.edges c c) :
    (addProvider g k p ds).2 = .ok ↔ ∀ c, ¬ Reach (upd g.edges k ds) c c :=
  addProvider_ok_iff g b k p ds hacyc

/-- every reachable state of the mutation API satisfies `Base ∧ Synced`; a graph grown by immediate
adds and removes only is acyclic throughout -/
theorem add_preserves (g : Graph) (b : Base g) (k : Key) (p : Nat) (ds : List Key) :
    Base (addProvider g k p ds).1 ∧ Synced (addProvider g k p ds).1 := by
  by_cases h : (addProvider g k p ds).2 = .ok
  · exact ⟨(addProvider_accepted g b k p ds h).1, (addProvider_accepted g b k p ds h).2.1⟩
  · exact ⟨(addProvider_rejected g b k p ds h).1, (addProvider_rejected g b k p ds h).2.1⟩

theorem add_keeps_acyclic (g : Graph) (b : Base g) (k : Key) (p : Nat) (ds : List Key)
    (hacyc : ∀ c, ¬ Reach g.edges c c) : ∀ c, ¬ Reach (addProvider g k p ds).1.edges c c := by
  by_cases h : (addProvider g k p ds).2 = .ok
  · rw [(addProvider_accepted g b k p ds h).2.2.1]
    exact (addProvider_ok_iff g b k p ds hacyc).1 h
  · rw [(addProvider_rejected g b k p ds h).2.2.1]
    exact hacyc

/-- REMOVE refines "delete the node and every edge pointing at it" (and is a no-op for an unknown
node): afterwards the invariant holds, every derived field is in sync, the node is gone, every
adjacency list has lost it and nothing else changed -/
theorem remove_refines (g : Graph) (b : Base g) (k : Key) (hk : k ∈ g.nodes) :
    Base (removeProvider g k) ∧ Synced (removeProvider g k) ∧
    (∀ x, x ∈ (removeProvider g k).nodes ↔ x ∈ g.nodes ∧ x ≠ k) ∧
    (∀ x, (removeProvider g k).edges x = if x = k then [] else (g.edges x).filter (· ≠ k)) :=
  removeProvider_refines g b k hk

/-- removing a provider never creates a cycle -/
theorem remove_keeps_acyclic (g : Graph) (b : Base g) (k : Key)
    (hacyc : ∀ c, ¬ Reach g.edges c c) : ∀ c, ¬ Reach (removeProvider g k).edges c c := by
  by_cases hk : k ∈ g.nodes
  · have he := (removeProvider_refines g b k hk).2.2.2
    have sub : ∀ a c, Reach (removeProvider g k).edges a c → Reach g.edges a c := by
      intro a c h
      have hsub : ∀ x y, y ∈ (removeProvider g k).edges x → y ∈ g.edges x := by
        intro x y hy
        rw [he x] at hy
        split at hy
        · simp at hy
        · exact (List.mem_filter.1 hy).1
      induction h with
      | single h => exact .single (hsub _ _ h)
      | cons h _ ih => exact .cons (hsub _ _ h) ih
    intro c hc; exact hacyc c (sub c c hc)
  · have : removeProvider g k = g := by unfold removeProvider; simp [hk]
    rw [this]; exact hacyc

theorem remove_unknown_noop (g : Graph) (k : Key) (hk : k ∉ g.nodes) : removeProvider g k = g := by
  unfold removeProvider; simp [hk]

/-- `GetTransitiveDependencies` returns the plain digraph's answer: exactly the nodes reachable from `k` by one or more
edges, `k` itself excepted (it is marked visited before the walk, so a cycle through `k` does not list it), each once —
with the fuel the model runs on, for every graph that satisfies the structural invariant (`Graph/Transitive.lean`) -/
theorem transitive_dependencies_eq (g : Graph) (b : Base g) (k : Key) :
    (getTransitiveDependencies g k).Nodup ∧
    ∀ x, x ∈ getTransitiveDependencies g k ↔ (x ≠ k ∧ Reach (abs g).edge k x) :=
  transitive_spec g b k

/-- `CalculateDepths`, soundness half (`depths_partial`): on a graph that satisfies the invariants — cyclic or not,
whatever the iteration order and the fuel — a depth `m ≥ 0` assigned to `k` is witnessed by a chain of exactly `m`
dependency edges from `k` down to a node without dependencies; every other node keeps `-1`. What is missing for the
full statement (on an acyclic graph the depth is the LONGEST such chain) is the maximality, which the exhaustive
correspondence stream and the reference-digraph monitor `longest` validate. -/
theorem depths_partial (g : Graph) (b : Base g) (s : Synced g) (norder : List Key) (hn : ∀ k ∈ norder, k ∈ g.nodes) (k : Key) :
    (calculateDepthsWith g norder).depth k = -1 ∨
    ∃ m : Nat, (calculateDepthsWith g norder).depth k = (m : Int) ∧ Chain (abs g).edge k m :=
  depths_witnessed g b s norder hn k

/-- `CalculateDepths` on an ACYCLIC graph, full statement (`Graph/DepthsComplete.lean`): for every iteration order of
the node map, with the fuel the model runs on, the depth of a node bounds the length of every dependency chain from it
down to a node without dependencies and is the length of one of them — it is the length of the longest chain, which is
what the plain digraph says. (Chains are shorter than the number of nodes, so the guard `depth < len(nodes)` never stops
a relaxation; the potential Σ (n − 1 − depth) + |queue| drops with every iteration, so `n² + n + 1` iterations suffice;
a node outside the queue is relaxed.) -/
theorem depths_are_longest_chains (g : Graph) (b : Base g) (s : Synced g) (hac : ¬ HasCycle (abs g))
    (norder : List Key) (hp : norder.Perm g.nodes) (k : Key) (hk : k ∈ g.nodes) :
    (∀ m', Chain (abs g).edge k m' → (m' : Int) ≤ (calculateDepthsWith g norder).depth k) ∧
    ((calculateDepthsWith g norder).depth k = -1 ∨
      ∃ m : Nat, (calculateDepthsWith g norder).depth k = (m : Int) ∧ Chain (abs g).edge k m) := by
  have hac' : Acyclic g := by
    intro x hr
    exact hac ⟨x, Godi.Props.C05.mem_nodes_of_reach b hr, hr⟩
  exact depths_exact g b s hac' norder hp k hk

/-- non-vacuity: 3 → 2 → 1 and 3 → 1: depths 1:0, 2:1, 3:2 (the longer chain) -/
example : let g := (detectCycles (addProviderDeferred (addProviderDeferred (addProviderDeferred {} 3 30 [2, 1]) 2 20 [1]) 1 10 [])).1
    ((calculateDepths g).depth 1, (calculateDepths g).depth 2, (calculateDepths g).depth 3) = (0, 1, 2) := by decide

/-- non-vacuity: 3 → 2 → 1 → 3 is a ring with a tail 1 → 4: from 3 everything but 3 itself -/
example : let g := (detectCycles (addProviderDeferred (addProviderDeferred (addProviderDeferred {} 3 30 [2]) 2 20 [1]) 1 10 [3, 4])).1
    getTransitiveDependencies g 3 = [2, 1, 4] ∧ getTransitiveDependencies g 4 = [] ∧ getTransitiveDependencies g 9 = [] := by decide

/-- non-vacuity of `add_rejected_unchanged`, on the D14 witness: node 1 exists as a placeholder
(2 depends on it); adding 1 → 2 closes a cycle, is rejected, and the graph is as before -/
example : let g := (addProvider {} 2 20 [1]).1
    let r := addProvider g 1 10 [2]
    r.2 = .cycle 1 (some [1, 2, 1]) ∧ r.1.nodes = g.nodes ∧ r.1.edges 1 = g.edges 1 ∧ r.1.edges 2 = g.edges 2 ∧
    (topologicalSort r.1).2 = some [1, 2] := by decide

end Godi.Props.C19
