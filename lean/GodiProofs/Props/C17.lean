import GodiProofs.Collection.Reach
import GodiProofs.Collection.Reject
import GodiProofs.Collection.Views
import GodiProofs.Collection.Accept
/-!
# C17 — the collection is an exact, atomic registry and Build takes a snapshot

"Each (type, key) identity holds at most one registration - a second is rejected as already
registered - while a group accumulates members in call order, and Contains/ContainsKeyed/Count/
ToSlice always describe exactly the registrations a later Build will use. A rejected registration
leaves the collection as it was; Remove/RemoveKeyed make the removed registration have no effect on
later builds (its constructor never runs); and a provider that has been built is unaffected by later
changes to the collection."

Quantification: `cs : List Call` is any history of `Add*`, `Remove`, `RemoveKeyed` and `AddModules`
calls (with any module trees) from `NewCollection()`; `r : Req` any request (any option combination,
any fan-out, valid or not). Queries and Build do not change the collection, so they do not appear
in the history; `C17_snapshot` quantifies over any operations after a Build.
Model: `GodiModel/Collection.lean` (M3), spec: `GodiModel/Spec/Registry.lean`.
-/
namespace Godi.Props.C17
open Godi.Coll Godi.Spec

/-- the collection after a history of calls on a new collection -/
abbrev after (cs : List Call) : Coll := runCalls empty cs

/-- At most one registration per identity: the service entries of the list Build iterates have
pairwise different `(type, key)` identities, and `services[k]` is that entry. -/
theorem C17_unique (cs : List Call) :
    Unique (after cs).reg.all ∧ ∀ k, (after cs).reg.svc k = lookup (after cs).reg.all k :=
  ⟨(reachable_inv cs).uniq, (reachable_inv cs).svc_spec⟩

/-- A second registration of an identity is rejected: registering a descriptor whose identity is
taken fails, and unless its type is reserved `AlreadyRegisteredError{type}` is on the unwrap chain
(directly for an unkeyed service, inside a `RegistrationError` for a keyed one). -/
theorem C17_second_rejected (cs : List Call) (d : Desc) (hp : svcPath d)
    (hc : containsKeyed (after cs) d.ty d.key = true) :
    ∃ e, registerDescriptor (after cs) d = .error e ∧ (reserved d.ty = true ∨ eAlready d.ty ∈ e.chain) :=
  registerDescriptor_collision _ d hp hc

/-- … and so is every Add call, whatever its form, that passes the argument checks and has the
taken identity among its outputs (primary type, further return, result-object field or alias); the
collection is left as it was. -/
theorem C17_second_rejected_call (cs : List Call) (r : Req) (key0 : Key)
    (hp : (preChecks (after cs) r).2 = .ok key0)
    (h : ∃ it ∈ r.items key0, svcPath it.d ∧ containsKeyed (after cs) it.d.ty it.d.key = true) :
    (addService (after cs) r).2 ≠ none ∧ (addService (after cs) r).1.reg = (after cs).reg := by
  have h1 := addService_collision (after cs) r key0 hp h
  exact ⟨h1, (addService_spec _ r (reachable_inv cs)).2.2.1 h1⟩

/-- A group is the sub-list of its members in the order of the list, i.e. in call order. -/
theorem C17_group_order (cs : List Call) (g : GKey) :
    (after cs).reg.grp g = members (after cs).reg.all g := (reachable_inv cs).grp_spec g

/-- Registering a grouped descriptor appends it to its group and to the list; it never fails for
being a duplicate. -/
theorem C17_group_append (cs : List Call) (d0 : Desc) (hk : d0.key = .nil) (hg : d0.grp ≠ 0)
    (hr : reserved d0.ty = false) :
    ∃ c' d, registerDescriptor (after cs) d0 = .ok c' ∧ d.ty = d0.ty ∧ d.grp = d0.grp ∧ d.ctor = d0.ctor ∧
      c'.reg.grp d0.gkey = (after cs).reg.grp d0.gkey ++ [d] ∧ c'.reg.all = (after cs).reg.all ++ [d] := by
  have hpath : ¬ (({ d0 with id := (after cs).nextId } : Desc).key ≠ .nil ∨ ({ d0 with id := (after cs).nextId } : Desc).grp = 0) := by
    simp only [hk, ne_eq, not_true_eq_false, false_or]; exact hg
  let d : Desc := { d0 with id := (after cs).nextId, key := .idx (((after cs).reg.grp d0.gkey).length + 1) }
  refine ⟨{ (after cs) with reg := ((after cs).reg.setGrp d0.gkey ((after cs).reg.grp d0.gkey ++ [d])).push d,
                            nextId := (after cs).nextId + 1 }, d, ?_, rfl, rfl, rfl, ?_, rfl⟩
  · unfold registerDescriptor
    rw [hr]
    simp only [Bool.false_eq_true, if_false]
    rw [if_neg hpath]
    rfl
  · simp [Reg.push, Reg.setGrp, Desc.gkey]

/-- Remove/RemoveKeyed leave every group alone. -/
theorem C17_remove_keeps_groups (c : Coll) (k : Ident) : (removeKey c k).reg.grp = c.reg.grp := by
  unfold removeKey; split <;> rfl

/-- The three views agree. The maps are functions of the list Build iterates (`services[k]` = its
service entry with identity `k`, `groups[g]` = its members of `g`); the list is, up to order, exactly
the values of `services` plus the members of all groups, nothing twice; the key lists hold exactly
the keys present; so `Contains`, `ContainsKeyed`, `HasGroup`, `Count`, `ToSlice` all describe the same
set of registrations — the one `doBuild` iterates. -/
theorem C17_views_agree (cs : List Call) :
    let c := after cs
    c.reg.all.Perm (c.reg.skeys.filterMap c.reg.svc ++ c.reg.gkeys.flatMap c.reg.grp) ∧
    c.reg.all.Nodup ∧
    (∀ ty, contains c ty = (lookup (toSlice c) (ty, .nil)).isSome) ∧
    (∀ ty k, containsKeyed c ty k = (lookup (toSlice c) (ty, k)).isSome) ∧
    (∀ ty g, hasGroup c ty g = (g != 0 && !(members (toSlice c) (ty, g)).isEmpty)) ∧
    count c = (toSlice c).length ∧
    (∀ d ∈ toSlice c, (isSvc d = true ∧ c.reg.svc d.ident = some d) ∨ (isMember d = true ∧ d ∈ c.reg.grp d.gkey)) := by
  have inv := reachable_inv cs
  refine ⟨views_perm inv, all_nodup inv, ?_, ?_, ?_, rfl, entry_in_view inv⟩
  · intro ty; simp only [contains, toSlice, inv.svc_spec]
  · intro ty k; simp only [containsKeyed, toSlice, inv.svc_spec]
  · intro ty g; simp only [hasGroup, toSlice, inv.grp_spec]

/-- A rejected registration leaves the collection as it was: all three views (maps, key lists,
descriptor list) are *equal* to what they were, also when the call had registered some of its
outputs before it failed. -/
theorem C17_reject_atomic (cs : List Call) (r : Req) (c' : Coll) (e : Err)
    (h : addService (after cs) r = (c', some e)) : c'.reg = (after cs).reg :=
  (addService_spec' _ r (reachable_inv cs) c' (some e) h).2.2.1 (by simp)

/-- … hence every query answers as before. -/
theorem C17_reject_queries (cs : List Call) (r : Req) (c' : Coll) (e : Err)
    (h : addService (after cs) r = (c', some e)) :
    (∀ ty, contains c' ty = contains (after cs) ty) ∧ (∀ ty k, containsKeyed c' ty k = containsKeyed (after cs) ty k) ∧
    (∀ ty g, hasGroup c' ty g = hasGroup (after cs) ty g) ∧ count c' = count (after cs) ∧ toSlice c' = toSlice (after cs) := by
  have := C17_reject_atomic cs r c' e h
  refine ⟨fun _ => ?_, fun _ _ => ?_, fun _ _ => ?_, ?_, ?_⟩ <;>
    simp only [contains, containsKeyed, hasGroup, count, toSlice, this]

/-- An accepted registration only appends to the list Build iterates. -/
theorem C17_accept_appends (cs : List Call) (r : Req) (c' : Coll)
    (h : addService (after cs) r = (c', none)) : ∃ news, c'.reg.all = (after cs).reg.all ++ news :=
  (addService_spec' _ r (reachable_inv cs) c' none h).2.1 rfl

/-- … and what it appends is exactly what the call asked for: one descriptor per output of the
fan-out, in order, with the requested type, group and constructor, under the requested key when it
is a service (a group member gets its running number). -/
theorem C17_accept_exact (cs : List Call) (op : String) (items : List Item)
    (hk : ∀ it ∈ items, it.d.key.isIdx = false) (h : (registerEach op (after cs) items).2 = none) :
    ∃ news, (registerEach op (after cs) items).1.reg.all = (after cs).reg.all ++ news ∧
      news.map Desc.sig = items.map (fun it => it.d.sig) ∧
      ∀ p ∈ news.zip items, svcPath p.2.d → p.1.key = p.2.d.key :=
  registerEach_accepts op items _ (reachable_inv cs) hk h

/-- "The removed registration has no effect on later builds": whatever an invocation of a still
registered constructor stores, it stores under identities that are currently registered by the same
call — never under an identity that was removed (and possibly registered again by someone else). -/
def NoGhost (reg : Registry) : Prop := NoGhostWith storeOuts reg

def C17_remove_effective_statement : Prop := ∀ cs : List Call, NoGhost (after cs).reg.all

/-- The clause holds (since /repo 852a640; it was finding D25 before: `createInstance` stored the
outputs of all siblings of a call, removed or not). -/
theorem C17_remove_effective : C17_remove_effective_statement := fun cs => noGhost_storeOuts (after cs).reg.all

/-- After Remove/RemoveKeyed the registration is in none of the three views —
`Contains` is false, the key is gone, the list Build iterates is the old one without that identity
(so Count drops, and the snapshot a later Build copies does not hold it), other identities and all
groups are untouched; and a constructor none of whose descriptors is left in the list is not run by
Build. -/
theorem C17_remove_effective_views (cs : List Call) (k : Ident) :
    let c := after cs
    let c' := removeKey c k
    c'.reg.svc k = none ∧ k ∉ c'.reg.skeys ∧ c'.reg.all = removeIdent c.reg.all k ∧
    (∀ d ∈ c'.reg.all, ¬ (isSvc d = true ∧ d.ident = k)) ∧
    (∀ k', k' ≠ k → c'.reg.svc k' = c.reg.svc k') ∧ c'.reg.grp = c.reg.grp ∧
    (∀ n, (∀ d ∈ c'.reg.all, d.ctor ≠ n) → n ∉ buildRuns c'.reg.all) := by
  have inv := reachable_inv cs
  have inv' := removeKey_inv inv k
  have hall := removeKey_all inv k
  have hnone : (removeKey (after cs) k).reg.svc k = none := by
    rw [inv'.svc_spec, hall, lookup_removeIdent]; simp
  refine ⟨hnone, ?_, hall, ?_, ?_, C17_remove_keeps_groups _ k, ?_⟩
  · intro hin
    have := (inv'.skeys_spec k).1 hin
    rw [hnone] at this; cases this
  · have : lookup (removeKey (after cs) k).reg.all k = none := by rw [← inv'.svc_spec]; exact hnone
    exact lookup_none this
  · intro k' hk'
    rw [inv'.svc_spec, hall, lookup_removeIdent, if_neg hk', inv.svc_spec]
  · intro n hn hmem
    obtain ⟨d, hd, hdn⟩ := buildRuns_sound _ n hmem
    exact hn d hd hdn

/-- the former witness of D25: `AddSingleton(func() (*A, *B))` then `Remove(*A)`, then a new
registration of `*A` (type 4). The descriptor of `*B` still lists `*A` among its siblings, but an
invocation of its constructor stores `*B` only; the new `*A` is produced by its own constructor. -/
def witnessD25 : List Call :=
  [.op (.add { ctor := 1, primary := 4, rets := [4, 5] }), .op (.rm 4), .op (.add { ctor := 2, primary := 4, rets := [4] })]

example : (toSlice (after witnessD25)).map (fun d => (d.ty, d.ctor)) = [(5, 1), (4, 2)] := by decide
example : (toSlice (after witnessD25)).map (·.stores) = [[(4, Key.nil, 0), (5, Key.nil, 0)], [(4, Key.nil, 0)]] := by decide
example : (toSlice (after witnessD25)).map (storeOuts (toSlice (after witnessD25))) =
    [[(5, Key.nil, 0)], [(4, Key.nil, 0)]] := by decide

/-- A provider that has been built is unaffected by later changes to the collection. `doBuild`
allocates two new map objects and copies the contents; the provider keeps references to those and
the descriptors its graph was built from. Whatever operations run on the collection afterwards
(through the collection's own references), every lookup the provider can make answers what the
collection held at Build; and the collection itself goes on exactly as if no Build had happened. -/
theorem C17_snapshot (h : Heap) (r : CollRef) (hs : r.sref < h.next) (hg : r.gref < h.next)
    (fs : List (Coll → Coll × Option Err)) :
    let b := h.build r
    let later := b.1.runAll r fs
    (∀ k, later.1.provFind b.2 k = (h.load r).reg.svc k) ∧
    (∀ g, later.1.provGroup b.2 g = if g.2 = 0 then [] else (h.load r).reg.grp g) ∧
    b.2.built = (h.load r).reg.all ∧
    later.1.load later.2 = applyAll (h.load r) fs := by
  simp only []
  obtain ⟨h1, h2, h3⟩ := runAll_spec fs (h.build r).1 r
  have hps : (h.build r).2.sref = h.next := rfl
  have hpg : (h.build r).2.gref = h.next + 1 := rfl
  have hbs : (h.build r).1.smaps h.next = h.smaps r.sref := by simp [Heap.build]
  have hbg : (h.build r).1.gmaps (h.next + 1) = h.gmaps r.gref := by simp [Heap.build]
  have hload : (h.build r).1.load r = h.load r := by
    have e1 : (h.build r).1.smaps r.sref = h.smaps r.sref := by
      simp only [Heap.build]; exact upd_ne _ _ (by omega)
    have e2 : (h.build r).1.gmaps r.gref = h.gmaps r.gref := by
      simp only [Heap.build]; exact upd_ne _ _ (by omega)
    simp only [Heap.load, e1, e2]
  refine ⟨?_, ?_, rfl, ?_⟩
  · intro k
    simp only [Heap.provFind, hps]
    rw [h2 h.next (by omega), hbs]; rfl
  · intro g
    simp only [Heap.provGroup, hpg]
    rw [h3 (h.next + 1) (by omega), hbg]; rfl
  · rw [h1, hload]

/-! ### non-vacuity -/

/-- a history with an accepted plain, keyed, grouped, multi-return and result-object registration,
a removal, a module, and three rejected calls (duplicate, half-way collision of a result object with
two members of one group before the colliding field, alias that is not implemented) -/
def sample : List Call :=
  [ .op (.add { ctor := 1, primary := 4, rets := [4] }),
    .op (.add { ctor := 2, primary := 4, rets := [4] }),                                     -- duplicate
    .op (.add { ctor := 3, primary := 4, rets := [4], name := 1 }),
    .op (.add { ctor := 4, primary := 5, rets := [5], group := 1, life := .transient }),
    .op (.add { ctor := 5, primary := 50, resultObj := true,
                fields := [{ ty := 5, grp := 1 }, { ty := 5, grp := 1 }, { ty := 4 }] }),     -- rolled back
    .op (.add { ctor := 6, primary := 6, rets := [6, 7] }),
    .op (.rm 6),
    .mods (.cons (.node "m" (.skip (.cons (.op (.add { ctor := 7, primary := 8, rets := [8], as := [(10, true), (11, false)] })) .nil))) .nil),
    .op (.add { ctor := 8, primary := 5, rets := [5], group := 1 }) ]

example : (toSlice (after sample)).map (fun d => (d.ty, d.key, d.grp, d.ctor)) =
    [(4, .nil, 0, 1), (4, .name 1, 0, 3), (5, .idx 1, 1, 4), (7, .nil, 0, 6), (5, .idx 2, 1, 8)] := by decide
example : count (after sample) = 5 ∧ contains (after sample) 4 = true ∧ contains (after sample) 6 = false ∧
    containsKeyed (after sample) 4 (.name 1) = true ∧ hasGroup (after sample) 5 1 = true ∧
    contains (after sample) 10 = false := by decide
/-- the hypotheses of `C17_second_rejected_call` are met by a concrete call: a multi-return
constructor whose second output is taken -/
example : ∃ key0, (preChecks (after sample) { ctor := 9, primary := 9, rets := [9, 4] }).2 = .ok key0 ∧
    ∃ it ∈ Req.items { ctor := 9, primary := 9, rets := [9, 4] } key0, svcPath it.d ∧
      containsKeyed (after sample) it.d.ty it.d.key = true :=
  ⟨.nil, rfl, { d := { ty := 4, ctor := 9, stores := [(9, .nil, 0), (4, .nil, 0)] } }, (by decide), (by decide), (by decide)⟩
/-- and a rejected call that had already registered two group members -/
def halfWay : Req :=
  { ctor := 5, primary := 50, resultObj := true, fields := [{ ty := 5, grp := 1 }, { ty := 5, grp := 1 }, { ty := 4 }] }
example : (addService (after (sample.take 4)) halfWay).2.isSome = true ∧
    (registerEach "x" (after (sample.take 4)) halfWay.fieldItems).1.reg.all.length = 5 ∧
    count (addService (after (sample.take 4)) halfWay).1 = 3 := by decide
/-- D26 as the code now is: a result-object field with a name and a group tag is refused when the
loop reaches it, after a service and two group members of the same call were registered; the
registry is the one before the call -/
def bothTags : Req :=
  { ctor := 9, primary := 50, resultObj := true,
    fields := [{ ty := 6 }, { ty := 5, grp := 1 }, { ty := 5, grp := 1 }, { ty := 4, name := 2, grp := 1 }, { ty := 7 }] }
example : (addService (after (sample.take 4)) bothTags).2.isSome = true ∧
    (registerEach "x" (after (sample.take 4)) (linkSiblings bothTags.fieldItems)).1.reg.all.length = 6 ∧
    count (addService (after (sample.take 4)) bothTags).1 = 3 ∧
    contains (addService (after (sample.take 4)) bothTags).1 6 = false := by decide

/-- a snapshot: Build, then a registration and a removal; the provider still finds what was there -/
example :
    let (h0, r0) := ({} : Heap).newCollection
    let (h1, r1, _) := h0.modify r0 (fun c => addService c { ctor := 1, primary := 4, rets := [4] })
    let (h2, p) := h1.build r1
    let (h3, r3) := h2.runAll r1 [fun c => addService c { ctor := 2, primary := 5, rets := [5], group := 1 },
                                   fun c => (remove c 4, none)]
    ((h3.provFind p (4, .nil)).map (·.ctor) = some 1 ∧ h3.provGroup p (5, 1) = [] ∧
      contains (h3.load r3) 4 = false ∧ hasGroup (h3.load r3) 5 1 = true) := by decide

/-- `C17_snapshot` is a statement about aliasing, not a triviality about values: a Build that hands
the provider the collection's own `groups` map (what `/repo` did before f284974, and what "clone only
when non-empty" would do again) makes a later grouped registration visible to the old provider -/
def buildSharing (h : Heap) (r : CollRef) : Heap × Prov := (h, { sref := r.sref, gref := r.gref, built := r.all })
example :
    let (h0, r0) := ({} : Heap).newCollection
    let (h1, p) := buildSharing h0 r0
    let (h2, _) := h1.runAll r0 [fun c => addService c { ctor := 2, primary := 5, rets := [5], group := 1 }]
    (h1.provGroup p (5, 1)).length = 0 ∧ (h2.provGroup p (5, 1)).length = 1 := by decide

end Godi.Props.C17
