import GodiProofs.Props.C07
import GodiProofs.Container.NoNotFound
import GodiProofs.Container.BuildTotal
/-!
# C08 — Build accepts exactly the registration sets whose services are resolvable (validation half)
-/
namespace Godi.Props.C08
open Godi.Container

/-- ACCEPTS EXACTLY: validation passes iff there is no cycle, no lifetime conflict and no missing
required dependency — missing *optional* dependencies, empty groups and built-in parameters never
make it fail (they do not occur in the right-hand side) -/
theorem accepts_iff (descs : List Desc) :
    verdict descs = .ok ↔
      (Godi.Graph.detectCycles (buildGraph descs)).2 = .ok ∧
      ¬ (∃ d ∈ descs, d.life ≠ .scoped ∧ ∃ dep ∈ d.deps, ∃ t, Provides descs dep t ∧ t.life = .scoped) ∧
      ¬ (∃ d ∈ descs, ∃ dep ∈ d.deps, dep.optional = false ∧ dep.grp = 0 ∧ isBuiltin dep = false ∧
            findService descs dep.ty dep.key = none) := by
  rw [← lifetimeConflict_iff, ← missingDependency_iff]
  unfold verdict
  split
  next hok =>
    by_cases h1 : lifetimeConflict descs = true
    · simp [h1]
    · by_cases h2 : missingDependency descs = true
      · simp [h1, h2]
      · simp [h1, h2, hok]
  next hne =>
    constructor
    · intro h; cases h
    · intro ⟨h, _⟩; exact absurd h hne

/-- NO "NOT FOUND" for declared dependencies: once validation passed, every non-optional, non-group
dependency of every registration — whatever its lifetime — is registered or built in, so resolving
it in an open scope reaches a descriptor (it never answers `ErrServiceNotFound`) -/
theorem required_dependency_is_found (beh : Beh) (st : State) (hv : verdict st.descs = .ok)
    (d : Desc) (hd : d ∈ st.descs) (dep : Dep) (hdep : dep ∈ d.deps) (hreq : dep.optional = false) (hg : dep.grp = 0)
    (s f : Nat) (hopen : (st.scope s).disposed = false) :
    (isBuiltin dep = true ∧ ∃ v, resolve beh (f + 1) st s dep.ty dep.key = (st, .ok v)) ∨
    (∃ t, findService st.descs dep.ty dep.key = some t ∧
          resolve beh (f + 1) st s dep.ty dep.key = resolveDesc beh f st s t) := by
  have hm := ((accepts_iff st.descs).1 hv).2.2
  by_cases hb : isBuiltin dep = true
  · left
    refine ⟨hb, ?_⟩
    unfold isBuiltin at hb
    simp only [Bool.and_eq_true, beq_iff_eq, decide_eq_true_eq] at hb
    obtain ⟨⟨hk, _⟩, ht⟩ := hb
    unfold resolve
    simp only [hopen, Bool.false_eq_true, ↓reduceIte, hk, true_and]
    have : dep.ty = 0 ∨ dep.ty = 1 ∨ dep.ty = 2 := by omega
    rcases this with h | h | h <;> simp [h, tyCtx, tyProvider, tyScope]
  · right
    cases hf : findService st.descs dep.ty dep.key with
    | none =>
      exact absurd ⟨d, hd, dep, hdep, hreq, hg, by simpa using hb, hf⟩ hm
    | some t =>
      refine ⟨t, rfl, ?_⟩
      have hnb : ¬ (dep.key = 0 ∧ dep.ty < 3) := by
        intro ⟨h1, h2⟩; apply hb; unfold isBuiltin; simp [h1, hg, h2]
      exact Godi.Props.C07.resolve_consults_provider beh st s f dep.ty dep.key t hopen hnb hf

/-- an empty group resolves to the empty slice -/
theorem empty_group_ok (beh : Beh) (st : State) (s f ty grp : Nat) (hopen : (st.scope s).disposed = false)
    (he : groupMembers st.descs ty grp = []) :
    getGroup beh (f + 2) st s ty grp = (st, .ok (.group [])) := by
  unfold getGroup; simp [hopen, he, resolveMembers]

/-- a missing optional dependency leaves the field zero and construction goes on -/
theorem optional_missing_is_zero (beh : Beh) (st : State) (s f : Nat) (dep : Dep) (deps : List Dep) (acc : List Val)
    (hopt : dep.optional = true) (hg : dep.grp = 0) (hnb : ¬ (dep.key = 0 ∧ dep.ty < 3))
    (hopen : (st.scope s).disposed = false) (hn : findService st.descs dep.ty dep.key = none) :
    buildArgs beh (f + 2) st s (dep :: deps) acc = buildArgs beh (f + 1) st s deps (acc ++ [.zero]) := by
  have h0 : ¬ (dep.key = 0 ∧ dep.ty = tyCtx) := fun h => hnb ⟨h.1, by rw [h.2]; decide⟩
  have h1 : ¬ (dep.key = 0 ∧ dep.ty = tyProvider) := fun h => hnb ⟨h.1, by rw [h.2]; decide⟩
  have h2 : ¬ (dep.key = 0 ∧ dep.ty = tyScope) := fun h => hnb ⟨h.1, by rw [h.2]; decide⟩
  have hr : resolve beh (f + 1) st s dep.ty dep.key = (st, .error [.resolution, .notFound]) := by
    unfold resolve; simp [hopen, h0, h1, h2, hn]
  conv => lhs; unfold buildArgs
  simp [hg, hr, hopt, isConstruction]

/-- **NEVER "SERVICE NOT FOUND"**: on a registry that passed validation, in every state over it (any
history, any scope — fresh or not — any behaviour of the constructors), resolving a registered identity
never yields an error whose chain contains `ErrServiceNotFound`, however deep the dependency nesting:
every non-optional dependency of every registration met on the way is registered or built in, and an
unregistered *optional* dependency is tolerated where it occurs -/
theorem registered_service_never_not_found (beh : Beh) (st : State) (hv : verdict st.descs = .ok)
    (s ty key : Nat) (hreg : (findService st.descs ty key).isSome) :
    noNF (scopeGet beh st s ty key).2 = true :=
  ((noNotFound beh st.descs (present_of_verdict _ hv) (fuelFor st)).1 st s ty key rfl).1 (Or.inl hreg)

/-- … nor does the resolution of a group (whatever its members depend on), … -/
theorem group_never_not_found (beh : Beh) (st : State) (hv : verdict st.descs = .ok) (s ty grp : Nat) :
    noNF (scopeGetGroup beh st s ty grp).2 = true :=
  (noNotFound beh st.descs (present_of_verdict _ hv) (fuelFor st)).2.2.1 st s ty grp rfl

/-- … nor the construction of any registration (singletons at Build, initializers at scope creation) -/
theorem construction_never_not_found (beh : Beh) (st : State) (hv : verdict st.descs = .ok) (s : Nat) (d : Desc)
    (hd : d ∈ st.descs) : noNF (createInstance beh (fuelFor st) st s d).2 = true :=
  (noNotFound beh st.descs (present_of_verdict _ hv) (fuelFor st)).2.2.2.2.2 st s d rfl hd

/-- the built-in injectables are always found -/
theorem builtin_never_not_found (beh : Beh) (st : State) (hv : verdict st.descs = .ok) (s ty : Nat) (ht : ty < 3) :
    noNF (scopeGet beh st s ty 0).2 = true :=
  ((noNotFound beh st.descs (present_of_verdict _ hv) (fuelFor st)).1 st s ty 0 rfl).1 (Or.inr ⟨rfl, ht⟩)

/-- **BUILD ACCEPTS EVERY VALID SET** (the converse): a registration set with the collection's structural guarantees
that passes validation — no dependency cycle, no lifetime conflict, no missing required dependency; missing optional
dependencies, empty groups and initializers that depend on singletons are all allowed —, whose constructors succeed
(`GoodBeh`: no invocation fails, no result-object field is left nil), built in a creation order that lists every
singleton after the singletons it reaches directly or through transients/scoped services (what the topological sort
delivers, `Props/C06`): `doBuild` creates the root scope, every singleton and runs the root scope's initializers
without an error. (`Container/BuildTotal.lean`: a construction whose singleton dependencies are stored succeeds or runs
out of fuel, by induction on the fuel over the six resolution functions; it does not run out of fuel, `Props/C05b`.) -/
theorem build_accepts_valid_sets (beh : Beh) (gb : GoodBeh beh) (descs : List Desc) (order : List Nat)
    (hyp : failedHyps descs = []) (hv : verdict descs = .ok)
    (hall : ∀ d ∈ descs, d.life = .singleton → d.id ∈ order)
    (hord : ∀ pre id post, order = pre ++ id :: post → ∀ d, findDesc descs id = some d → d.life = .singleton →
      ∀ t, ReachLong descs d t → t.life = .singleton → t.id ∈ pre) :
    (build beh descs order).2 = .ok () :=
  build_succeeds beh gb descs order hyp hv hall hord

/-- … and on the provider it returns (as in any state where the singletons are stored), every registered service
resolves from every open scope: the result is a value, not an error -/
theorem every_service_resolves (beh : Beh) (gb : GoodBeh beh) (descs : List Desc)
    (hyp : failedHyps descs = []) (hv : verdict descs = .ok) (st : State) (s : Nat)
    (hst : st.descs = descs) (hopen : (st.scope s).disposed = false) (hna : NoAbsent st)
    (hall : ∀ t ∈ descs, t.life = .singleton → StoredS st t) (d : Desc) (hd : d ∈ descs) :
    ∃ v, (createInstance beh (fuelFor st) st s d).2 = .ok v :=
  createInstance_succeeds beh gb descs (valid_of_check descs hyp hv) st s ⟨hst, hopen, hna⟩ d hd
    (fun t ht htl => hall t (reachLong_mem ht) htl)

/-- singleton 8 ← transient 7 ← singleton 6 ← scoped initializer: built in the order 8, 6 -/
def exChain : List Desc :=
  [{ id := 0, ident := ⟨6, 0, 0⟩, life := .singleton, ctor := 1, kind := .plain, deps := [{ ty := 7 }, { ty := 9, optional := true }] },
   { id := 1, ident := ⟨7, 0, 0⟩, life := .transient, ctor := 2, kind := .plain, deps := [{ ty := 8 }, { ty := 5, grp := 3 }] },
   { id := 2, ident := ⟨8, 0, 0⟩, life := .singleton, ctor := 3, kind := .plain, deps := [] },
   { id := 3, ident := ⟨10, 0, 0⟩, life := .scoped, ctor := 4, kind := .void, deps := [{ ty := 6 }] }]
example : failedHyps exChain = [] ∧ verdict exChain = .ok := by decide
def isOkU (r : Except Err Unit) : Bool := match r with | .ok _ => true | .error _ => false
example : isOkU (build {} exChain [2, 1, 0, 3]).2 = true := by decide
/-- the order matters for the premise: with 6 before 8 the model's Build reports "singleton not initialized" -/
example : isOkU (build {} exChain [0, 2]).2 = false := by decide

def exMissing : List Desc :=
  [{ id := 0, ident := ⟨3, 0, 0⟩, life := .scoped, ctor := 1, kind := .plain, deps := [{ ty := 9 }] }]
def exOptional : List Desc :=
  [{ id := 0, ident := ⟨3, 0, 0⟩, life := .scoped, ctor := 1, kind := .plain,
     deps := [{ ty := 9, optional := true }, { ty := 5, grp := 2 }, { ty := tyScope }] }]
example : verdict exMissing = .missing := by decide
example : verdict exOptional = .ok := by decide
/-- the optional dependency on the unregistered type 9 is tolerated: the service is constructed -/
example : okIs (scopeGet {} { descs := exOptional, nscopes := 1 } 0 3 0).2 (.inst 1) = true := by decide
/-- without validation the premise fails for a reason: the missing required dependency surfaces as notFound -/
example : noNF (scopeGet {} { descs := exMissing, nscopes := 1 } 0 3 0).2 = false := by decide

end Godi.Props.C08
