import GodiProofs.Container.Verdict
/-!
# C07 — No captive dependencies

`verdict` is phases 1–3 of `doBuild` (cycle check, `validateLifetimes`, `validateDependencies`).
`Provides descs dep t`: registration `t` can satisfy the declared dependency `dep` — the service
registered under exactly (type, key) for plain, keyed, aliased and parameter-object dependencies,
or *any member* of (type, group) for a group dependency.
-/
namespace Godi.Props.C07
open Godi.Container

/-- Build answers "lifetime conflict" exactly when there is no cycle and some singleton or transient
declares a dependency that a scoped registration provides -/
theorem conflict_iff (descs : List Desc) :
    verdict descs = .lifetime ↔
      (Godi.Graph.detectCycles (buildGraph descs)).2 = .ok ∧
      ∃ d ∈ descs, d.life ≠ .scoped ∧ ∃ dep ∈ d.deps, ∃ t, Provides descs dep t ∧ t.life = .scoped := by
  rw [← lifetimeConflict_iff]
  unfold verdict
  split
  next hok =>
    by_cases h : lifetimeConflict descs = true
    · simp [h, hok]
    · simp only [h, Bool.false_eq_true, ↓reduceIte, and_false, iff_false]
      split <;> simp
  next hne =>
    constructor
    · intro h; cases h
    · intro ⟨h, _⟩; exact absurd h hne

/-- never for sets where only scoped services depend on scoped ones -/
theorem never_when_only_scoped_depend_on_scoped (descs : List Desc)
    (h : ∀ d ∈ descs, ∀ dep ∈ d.deps, ∀ t, Provides descs dep t → t.life = .scoped → d.life = .scoped) :
    verdict descs ≠ .lifetime := by
  intro hv
  obtain ⟨_, d, hd, hl, dep, hdep, t, hp, ht⟩ := (conflict_iff descs).1 hv
  exact hl (h d hd dep hdep t hp ht)

/-- NO CAPTIVE, direct form: if Build gets past validation, then whatever registration the container
consults to satisfy a dependency of a singleton or transient is itself not scoped -/
theorem accepted_means_no_scoped_provider (descs : List Desc) (h : verdict descs = .ok ∨ verdict descs = .missing)
    (d : Desc) (hd : d ∈ descs) (hl : d.life ≠ .scoped) (dep : Dep) (hdep : dep ∈ d.deps)
    (t : Desc) (hp : Provides descs dep t) : t.life ≠ .scoped := by
  intro ht
  have hc : lifetimeConflict descs = true := (lifetimeConflict_iff descs).2 ⟨d, hd, hl, dep, hdep, t, hp, ht⟩
  unfold verdict at h
  split at h
  · simp [hc] at h
  · simp at h

/-- … and resolution consults exactly those registrations: a plain/keyed dependency is answered by
`findService`, a group dependency by the group's members, in order -/
theorem resolve_consults_provider (beh : Beh) (st : State) (s f ty key : Nat) (t : Desc)
    (h : (st.scope s).disposed = false) (hnb : ¬ (key = 0 ∧ ty < 3)) (ht : findService st.descs ty key = some t) :
    resolve beh (f + 1) st s ty key = resolveDesc beh f st s t := by
  unfold resolve
  have h0 : ¬ (key = 0 ∧ ty = tyCtx) := fun h => hnb ⟨h.1, by rw [h.2]; decide⟩
  have h1 : ¬ (key = 0 ∧ ty = tyProvider) := fun h => hnb ⟨h.1, by rw [h.2]; decide⟩
  have h2 : ¬ (key = 0 ∧ ty = tyScope) := fun h => hnb ⟨h.1, by rw [h.2]; decide⟩
  simp [h, h0, h1, h2, ht]

theorem group_consults_members (beh : Beh) (st : State) (s f ty grp : Nat) (h : (st.scope s).disposed = false) :
    getGroup beh (f + 1) st s ty grp = resolveMembers beh f st s (groupMembers st.descs ty grp) [] := by
  unfold getGroup; simp [h]

/-! non-vacuity: singleton 0 takes a group whose member 1 is scoped ⇒ lifetime conflict;
the same with a scoped consumer is accepted -/
def bad : List Desc :=
  [{ id := 0, ident := ⟨3, 0, 0⟩, life := .singleton, ctor := 1, kind := .plain, deps := [{ ty := 4, grp := 1 }] },
   { id := 1, ident := ⟨4, 101, 1⟩, life := .scoped, ctor := 2, kind := .plain, deps := [] }]
def good : List Desc :=
  [{ id := 0, ident := ⟨3, 0, 0⟩, life := .scoped, ctor := 1, kind := .plain, deps := [{ ty := 4, grp := 1 }] },
   { id := 1, ident := ⟨4, 101, 1⟩, life := .scoped, ctor := 2, kind := .plain, deps := [] }]
example : verdict bad = .lifetime := by decide
example : verdict good = .ok := by decide

end Godi.Props.C07
