import GodiProofs.Container.Verdict
import GodiProofs.Container.NoCaptive
/-!
# C07 — No captive dependencies

`verdict` is phases 1–3 of `doBuild` (cycle check, `validateLifetimes`, `validateDependencies`).
`Provides descs dep t`: registration `t` can satisfy the declared dependency `dep` — the service
registered under exactly (type, key) for plain, keyed, aliased and parameter-object dependencies,
or *any member* of (type, group) for a group dependency.
-/
namespace Godi.Props.C07
open Godi.Container

/-- Build answers "lifetime conflict" exactly when there is no cycle and some singleton or transient
declares a dependency that a scoped registration provides -/
theorem conflict_iff (descs : List Desc) :
    verdict descs = .lifetime ↔
      (Godi.Graph.detectCycles (buildGraph descs)).2 = .ok ∧
      ∃ d ∈ descs, d.life ≠ .scoped ∧ ∃ dep ∈ d.deps, ∃ t, Provides descs dep t ∧ t.life = .scoped := by
  rw [← lifetimeConflict_iff]
  unfold verdict
  split
  next hok =>
    by_cases h : lifetimeConflict descs = true
    · simp [h, hok]
    · simp only [h, Bool.false_eq_true, ↓reduceIte, and_false, iff_false]
      split <;> simp
  next hne =>
    constructor
    · intro h; cases h
    · intro ⟨h, _⟩; exact absurd h hne

/-- never for sets where only scoped services depend on scoped ones -/
theorem never_when_only_scoped_depend_on_scoped (descs : List Desc)
    (h : ∀ d ∈ descs, ∀ dep ∈ d.deps, ∀ t, Provides descs dep t → t.life = .scoped → d.life = .scoped) :
    verdict descs ≠ .lifetime := by
  intro hv
  obtain ⟨_, d, hd, hl, dep, hdep, t, hp, ht⟩ := (conflict_iff descs).1 hv
  exact hl (h d hd dep hdep t hp ht)

/-- NO CAPTIVE, direct form: if Build gets past validation, then whatever registration the container
consults to satisfy a dependency of a singleton or transient is itself not scoped -/
theorem accepted_means_no_scoped_provider (descs : List Desc) (h : verdict descs = .ok ∨ verdict descs = .missing)
    (d : Desc) (hd : d ∈ descs) (hl : d.life ≠ .scoped) (dep : Dep) (hdep : dep ∈ d.deps)
    (t : Desc) (hp : Provides descs dep t) : t.life ≠ .scoped := by
  intro ht
  have hc : lifetimeConflict descs = true := (lifetimeConflict_iff descs).2 ⟨d, hd, hl, dep, hdep, t, hp, ht⟩
  unfold verdict at h
  split at h
  · simp [hc] at h
  · simp at h

/-- … and resolution consults exactly those registrations: a plain/keyed dependency is answered by
`findService`, a group dependency by the group's members, in order -/
theorem resolve_consults_provider (beh : Beh) (st : State) (s f ty key : Nat) (t : Desc)
    (h : (st.scope s).disposed = false) (hnb : ¬ (key = 0 ∧ ty < 3)) (ht : findService st.descs ty key = some t) :
    resolve beh (f + 1) st s ty key = resolveDesc beh f st s t := by
  unfold resolve
  have h0 : ¬ (key = 0 ∧ ty = tyCtx) := fun h => hnb ⟨h.1, by rw [h.2]; decide⟩
  have h1 : ¬ (key = 0 ∧ ty = tyProvider) := fun h => hnb ⟨h.1, by rw [h.2]; decide⟩
  have h2 : ¬ (key = 0 ∧ ty = tyScope) := fun h => hnb ⟨h.1, by rw [h.2]; decide⟩
  simp [h, h0, h1, h2, ht]

theorem group_consults_members (beh : Beh) (st : State) (s f ty grp : Nat) (h : (st.scope s).disposed = false) :
    getGroup beh (f + 1) st s ty grp = resolveMembers beh f st s (groupMembers st.descs ty grp) [] := by
  unfold getGroup; simp [h]

/-! ### what long-lived constructors actually receive, over Build and all histories -/

theorem accepted_of_verdict (descs : List Desc) (h : verdict descs = .ok ∨ verdict descs = .missing) : Accepted descs :=
  fun d hd hl dep hdep t hp => accepted_means_no_scoped_provider descs h d hd hl dep hdep t hp

/-- NO CAPTIVE DEPENDENCIES. For every registry with the collection's structural guarantees that
validation accepts, every constructor behaviour, every creation order with which Build succeeds and
every history of resolutions, group resolutions, scope creations and closes afterwards: a constructor
of a singleton or transient registration has never received — as a plain, keyed or aliased argument,
as a parameter-object field or inside a group argument — an instance produced by a constructor of a
scoped registration. (The indirect form of the property is this statement applied to the events of the
other singletons and transients: what they hold are their own arguments.) -/
theorem no_captive_dependencies (beh : Beh) (descs : List Desc) (order : List Nat) (ops : List Op)
    (wf : WF descs) (rw' : RegWF descs) (is : InstSingleton descs) (idist : InstDistinct descs) (hz : LongCtor descs 0)
    (hv : verdict descs = .ok) (hok : (buildRuntime beh descs order).2 = .ok ())
    (did c inv s : Nat) (args : List Val) (outs : List Inst)
    (he : Event.ctor did c inv s args outs ∈ (run beh (buildRuntime beh descs order).1 ops).log)
    (x : Desc) (hx : findDesc descs did = some x) (hlong : x.life ≠ .scoped) :
    (∀ i, Val.inst i ∈ args → LongCtor descs ((run beh (buildRuntime beh descs order).1 ops).instMeta i).1) ∧
    (∀ l i, Val.group l ∈ args → i ∈ l → LongCtor descs ((run beh (buildRuntime beh descs order).1 ops).instMeta i).1) := by
  have cfg : NCfg descs := ⟨wf, rw', is, accepted_of_verdict descs (Or.inl hv)⟩
  have nc0 := build_nc beh cfg hz order hok
  have hinit : InitOK (buildRuntime beh descs order).1 :=
    ((build_ledger beh descs order wf rw' is idist).2.1 hok).2.2.2.1
  exact (nc_run beh cfg ops _ nc0 hinit).event_args_clean did c inv s args outs he x hx hlong

/-! non-vacuity: singleton 0 takes a group whose member 1 is scoped ⇒ lifetime conflict;
the same with a scoped consumer is accepted -/
def bad : List Desc :=
  [{ id := 0, ident := ⟨3, 0, 0⟩, life := .singleton, ctor := 1, kind := .plain, deps := [{ ty := 4, grp := 1 }] },
   { id := 1, ident := ⟨4, 101, 1⟩, life := .scoped, ctor := 2, kind := .plain, deps := [] }]
def good : List Desc :=
  [{ id := 0, ident := ⟨3, 0, 0⟩, life := .scoped, ctor := 1, kind := .plain, deps := [{ ty := 4, grp := 1 }] },
   { id := 1, ident := ⟨4, 101, 1⟩, life := .scoped, ctor := 2, kind := .plain, deps := [] }]
example : verdict bad = .lifetime := by decide
example : verdict good = .ok := by decide

/-- the hypotheses of `no_captive_dependencies` are satisfiable, Build succeeds on the accepted registry -/
example : WF good ∧ RegWF good ∧ InstSingleton good ∧ InstDistinct good ∧ LongCtor good 0 ∧
    (match (buildRuntime {} good [1, 0]).2 with | .ok _ => true | .error _ => false) = true := by
  refine ⟨⟨?_, ?_⟩, ⟨?_, ?_, ?_, ?_, ?_, ?_⟩, ?_, ?_, ?_, by decide⟩ <;>
    simp [SibLife, good, findDesc, InstSingleton, InstDistinct, LongCtor] <;> decide

end Godi.Props.C07
