import GodiProofs.Middleware.Seq
/-!
# C16 — web middleware: one scope per request, visible to handlers, always closed

Every theorem below is about `Godi.Mw.integrations` = the five integrations whose programs
(`Gen.<fw>ScopeMw`, `Gen.<fw>Handle`, `Gen.<fw>Opts`) are REGENERATED from `/repo/<fw>/<fw>.go` by
`extract/` before every build, and is quantified over every request `rq : Req`:

* `rq.installed`            is the scope middleware in the chain at all
* `rq.nMw`, `rq.mwFail`     ANY number of configured middlewares, ANY (or no) failing index
* `rq.create`               `CreateScope` succeeds / fails / the provider is already closed
* `rq.down`, `rq.outcome`   plain handler or `Handle(method, WithPanicRecovery(b))` (with or without a
                            resolution failure); handler returns / fails / panics
* `rq.closeErr`             `scope.Close()` reports an error
* `rq.outer`                the incoming request context already carries somebody else's scope
                            (`rq.WF`: considered for requests that pass the scope middleware)
* `base`                    the identity the provider gives to the next scope

so "every exit path" (normal return, middleware error at position i, handler error, handler panic,
scope-creation failure, provider closed) is the universal quantifier over `rq`. The exit-path
vocabulary (`created`, `reaches`, `invoked`, `panicEscapes`, `panicRecovered`, `ranCount`,
`mwFails`) is defined in `Middleware/Loop.lean` / `SpecProps.lean` by plain case distinctions on `rq`.

The per-framework behaviour around the extracted functions that is modelled and not verified is the
record `Facts` in `GodiModel/Middleware.lean` (gin continues the chain unless aborted; fasthttp
closes `io.Closer` locals at the end of the request). Isolation of *scoped instances* between
scopes is C02; here: no two requests ever see the same scope.
-/
namespace Godi.Props.C16
open Godi.Mw

/-- **Exactly one scope per request.** A request that passes the scope middleware makes exactly one
`CreateScope` call; when it succeeds exactly one scope — the fresh one — exists for the request,
otherwise none. -/
theorem C16_one_scope : ∀ I ∈ integrations, ∀ (rq : Req), rq.WF → ∀ (base : Sid),
    createAttempts (I.trace rq base) = (if rq.installed then 1 else 0) ∧
    createdScopes (I.trace rq base) = (if created rq then [base] else []) := by
  intro I hI rq hw base
  rw [trace_eq hI rq hw]
  exact ⟨spec_attempts _ rq base, spec_created _ rq base⟩

/-- **That scope is the one everybody sees.** (1) no event of the request mentions any other scope;
(2) every configured middleware that runs gets it as argument AND finds it in the request context
(and in the locals where the integration uses them), the plain handler finds it in the context, and
`Handle` looks up / resolves from / calls the method with exactly it — all while it is still open;
(3) the configured middlewares run in configuration order `0, 1, …`, stopping after the failing one. -/
theorem C16_same_scope_everywhere : ∀ I ∈ integrations, ∀ (rq : Req), rq.WF → ∀ (base : Sid),
    (∀ e ∈ I.trace rq base, ∀ x ∈ e.seen, x = base) ∧
    (created rq = true → ∀ e ∈ I.trace rq base, e.seesFully (usesLocals I) base = true) ∧
    mwIndices (I.trace rq base) = (if created rq then List.range (ranCount rq) else []) := by
  intro I hI rq hw base
  rw [trace_eq hI rq hw, usesLocals_style I hI]
  refine ⟨?_, ?_, spec_mw_order _ rq base⟩
  · have h := spec_seen (styleOf I) rq base
    simp only [List.all_eq_true, beq_iff_eq] at h
    exact h
  · intro hc
    have h := spec_sees (styleOf I) rq base hc
    simp only [List.all_eq_true] at h
    exact h

/-- **Closed exactly once, on every exit path, never early.** By the end of the request the
request's scope has been closed exactly once (and nothing else has been closed), whatever the
request does; and no middleware, handler, `Handle` lookup/resolution or controller method uses the
scope after the event that closed it. -/
theorem C16_closed_once : ∀ I ∈ integrations, ∀ (rq : Req), rq.WF → ∀ (base : Sid),
    (∀ x, closes (I.trace rq base) x = (if created rq ∧ base = x then 1 else 0)) ∧
    noUseAfterClose (I.trace rq base) [] = true := by
  intro I hI rq hw base
  rw [trace_eq hI rq hw]
  exact ⟨fun x => spec_closes _ rq base x, spec_noUse _ rq base⟩

/-- **Error handler instead of the handler.** If the scope cannot be created (failure or closed
provider) or a configured middleware fails, the error handler runs exactly once and the routed
handler does not run at all; otherwise the error handler does not run and the handler runs exactly
once. (`reaches rq = !installed || (create = ok && no middleware fails)`.) -/
theorem C16_error_handler_instead : ∀ I ∈ integrations, ∀ (rq : Req), rq.WF → ∀ (base : Sid),
    errorHandlerRuns (I.trace rq base) = (if rq.installed && !reaches rq then 1 else 0) ∧
    downRuns (I.trace rq base) = (if reaches rq then 1 else 0) := by
  intro I hI rq hw base
  rw [trace_eq hI rq hw]
  exact ⟨spec_eh _ rq base, spec_down _ rq base⟩

/-- **Handle: resolve first, then call; otherwise exactly one error handler.** The controller
method is only called with a controller resolved earlier in the same request (from the request's
scope, by `C16_same_scope_everywhere`); whenever the `Handle` wrapper runs exactly one of
{method called, scope-error handler, resolution-error handler} happens: the scope-error handler iff
there is no scope middleware, the resolution-error handler iff resolution fails. -/
theorem C16_handle_order : ∀ I ∈ integrations, ∀ (rq : Req), rq.WF → ∀ (base : Sid),
    methodAfterResolve (I.trace rq base) [] = true ∧
    methodCalls (I.trace rq base) = (if invoked rq && rq.down ≠ .plain then 1 else 0) ∧
    scopeErrs (I.trace rq base) = (if !rq.installed && rq.down ≠ .plain then 1 else 0) ∧
    resolutionErrs (I.trace rq base) =
      (if reaches rq && rq.installed && (match rq.down with | .plain => false | .handle _ rf => rf) then 1 else 0) ∧
    (rq.down ≠ .plain →
      methodCalls (I.trace rq base) + scopeErrs (I.trace rq base) + resolutionErrs (I.trace rq base)
        = (if reaches rq then 1 else 0)) := by
  intro I hI rq hw base
  rw [trace_eq hI rq hw]
  refine ⟨spec_methodAfter _ rq base, spec_method _ rq base, spec_seh _ rq base, spec_reh _ rq base, ?_⟩
  intro hd
  rw [spec_method, spec_seh, spec_reh]
  rcases hdn : rq.down with _ | ⟨r, rf⟩
  · exact absurd hdn hd
  · cases hi : rq.installed <;> cases hc : rq.create <;> cases hm : mwFails rq <;> cases rf <;>
      simp [invoked, reaches, hi, hc, hm, hdn]

/-- **Panics are swallowed iff recovery is enabled.** A panic of the controller method is handled
by the panic handler exactly when `WithPanicRecovery(true)`; otherwise (and for plain handlers) it
leaves the stack — after the scope has been closed (`C16_closed_once` holds on that path too). No
panic appears out of nowhere. -/
theorem C16_recover_iff_enabled : ∀ I ∈ integrations, ∀ (rq : Req), rq.WF → ∀ (base : Sid),
    panicsOut (I.trace rq base) = (if panicEscapes rq then 1 else 0) ∧
    panicHandlers (I.trace rq base) = (if panicRecovered rq then 1 else 0) := by
  intro I hI rq hw base
  rw [trace_eq hI rq hw]
  exact ⟨spec_pout _ rq base, spec_ph _ rq base⟩

/-- the extracted programs never dereference the nil `scope` variable and contain no statement the
extractor did not recognise (on any path) -/
theorem C16_no_nil_no_unknown : ∀ I ∈ integrations, ∀ (rq : Req), rq.WF → ∀ (base : Sid),
    (I.trace rq base).countP Ev.isBad = 0 := by
  intro I hI rq hw base
  rw [trace_eq hI rq hw]
  exact spec_bad _ rq base

/-! ## request sequences and concurrent batches -/

/-- **Request sequences.** For ANY list of requests served one after the other on the same
provider: every request has its own trace; the scopes created are pairwise distinct (a request never
gets a scope an earlier one had); whatever scope any event of a request mentions is the scope
created in that very request, and it is closed exactly once within that request. -/
theorem C16_sequences : ∀ I ∈ integrations, ∀ (rqs : List Req), (∀ rq ∈ rqs, rq.WF) →
    (I.runSeq {} rqs).length = rqs.length ∧
    ((I.runSeq {} rqs).flatMap createdScopes).Pairwise (· < ·) ∧
    (∀ t ∈ I.runSeq {} rqs, ∀ e ∈ t, ∀ x ∈ e.seen, createdScopes t = [x] ∧ closes t x = 1) := by
  intro I hI rqs hw
  obtain ⟨a, b, _, d⟩ := seq_aux hI rqs {} (by intro x hx; cases hx) hw
  exact ⟨a, b, d⟩

/-- **Concurrent batches.** The per-request function shares nothing with other requests but the
provider (the extractor rejects any state declared outside it), so an interleaving only decides
which identity `CreateScope` hands to which request. For ANY injective assignment `alloc` of scope
identities to the requests of a batch, no scope mentioned by one request is mentioned by another. -/
theorem C16_concurrent_disjoint : ∀ I ∈ integrations, ∀ (n : Nat) (rq : Fin n → Req) (alloc : Fin n → Sid),
    Function.Injective alloc → (∀ i, (rq i).WF) →
    ∀ i j, i ≠ j → ∀ e ∈ I.trace (rq i) (alloc i), ∀ e' ∈ I.trace (rq j) (alloc j), ∀ x ∈ e.seen, x ∉ e'.seen := by
  intro I hI n rq alloc hinj hw i j hij e he e' he' x hx hx'
  have h1 := (C16_same_scope_everywhere I hI (rq i) (hw i) (alloc i)).1 e he x hx
  have h2 := (C16_same_scope_everywhere I hI (rq j) (hw j) (alloc j)).1 e' he' x hx'
  exact hij (hinj (h1.symm.trans h2))

/-- **Configuration order.** `ScopeMiddleware(provider, opts...)` configures the middlewares in the
order of the `WithMiddleware` options (so index `i` in `mwIndices` is the i-th option given). -/
theorem C16_configuration_order : ∀ I ∈ integrations, ∀ (opts : List Opt),
    configured I.opts opts = some (opts.filterMap Opt.mw?) := by
  intro I hI opts
  have hsh : I.opts = ⟨true, true, true⟩ := by
    revert I; decide
  have gen : ∀ (l : List Opt) (acc : List Nat), l.foldl applyOpt acc = acc ++ l.filterMap Opt.mw? := by
    intro l
    induction l with
    | nil => intro acc; simp
    | cons o l ih => intro acc; cases o <;> simp [ih, applyOpt, Opt.mw?, List.filterMap_cons]
  simp only [configured, hsh, Bool.and_self, if_true, gen, List.nil_append]

/-! ## the theorems discriminate: nearby programs and weaker facts violate them -/

/-- gin's middleware as it was before `c.Abort()` was added (defect D20): under gin's chain semantics
the route handler runs after the error handler, on a scope that is already closed. -/
def ginWithoutAbort : Integration :=
  { gin with mw := gin.mw.map fun
      | .ifCreateErr b => .ifCreateErr (b.filter (· ≠ .abort))
      | .forMiddlewares b => .forMiddlewares (b.filter (· ≠ .abort))
      | s => s }

theorem C16_gin_needs_abort :
    downRuns (ginWithoutAbort.trace { nMw := 1, mwFail := some 0 } 0) = 1 ∧
    noUseAfterClose (ginWithoutAbort.trace { nMw := 1, mwFail := some 0 } 0) [] = false := by decide

/-- without fasthttp closing `io.Closer` locals, fiber's inline Close would leak the scope when the
handler panics: the trusted fact is necessary, not decoration -/
theorem C16_fiber_panic_path_needs_request_end_close :
    closes ((runRequest { fiberFacts with requestEndClosesLocals := false } fiber.mw fiber.handle
      { outcome := .panic } 0).trace) 0 = 0 := by decide

/-! ## non-vacuity: concrete requests -/

example : gin.trace { nMw := 2, mwFail := some 1 } 7 =
    [.scopeCreated 7, .mwRan 0 (some 7) (some 7) none, .mwRan 1 (some 7) (some 7) none, .errorHandlerRan, .scopeClosed 7] := by decide

example : fiber.trace { nMw := 1, down := .handle false false, outcome := .panic } 3 =
    [.scopeCreated 3, .mwRan 0 (some 3) (some 3) (some 3), .handleScope 3, .handleResolved 3,
     .methodCalled (some 3) true, .panicPropagated, .scopeClosed 3] := by decide

example : http.trace { down := .handle true false, outcome := .panic, closeErr := true } 0 =
    [.scopeCreated 0, .handleScope 0, .handleResolved 0, .methodCalled (some 0) true, .panicHandler,
     .scopeClosed 0, .closeErrHandlerRan] := by decide

/-- a request whose context already carries scope 5 still gets its own fresh scope 9, and that is
what everybody sees -/
example : http.trace { nMw := 1, outer := some 5 } 9 =
    [.scopeCreated 9, .mwRan 0 (some 9) (some 9) none, .handlerRan (some 9) none true, .scopeClosed 9] := by decide

example : echo.trace { create := .provClosed, nMw := 3 } 0 = [.createFailed, .errorHandlerRan] := by decide

example : chi.trace { installed := false, down := .handle false false } 0 = [.scopeErrHandler] := by decide

example : (gin.runSeq {} [{ nMw := 1 }, { create := .fail }, { mwFail := some 0, nMw := 1 }]).flatMap createdScopes = [0, 1] := by decide

end Godi.Props.C16
