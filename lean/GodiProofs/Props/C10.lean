import GodiProofs.Container.Close
import GodiProofs.Container.Instances
import GodiProofs.Container.Drain
import GodiProofs.Container.BuildLedger
import GodiProofs.Container.HypSound
/-!
# C10 — Every disposable instance is closed exactly once, never early, never leaked (sequential)

Ownership in the model: a disposable instance sits in exactly the disposal list `track` appended it
to (the scope it was created through, or the provider's list for singletons); `Close` takes the whole
list (setting it to `none`, so nothing can be drained twice) and logs one `closed` event per element.
The overlap clause (construction racing a Close) is `C10_exactly_once_conc` / `C10_not_early_conc`
of the interleaving model M6.

The global statement (all histories, all fault patterns): `Container/Ledger.lean` proves that the
*disposal ledger* — every instance id in at most one disposal list and at most once, no `closed`
event while listed, never more than one `closed` event — is an invariant of every operation, and
that being *owed* (listed, or closed exactly once) is never lost; `Container/Drain.lean` proves that
`Provider.Close` leaves every list empty. Together: `exactly_once_over_histories`, `never_leaked`.
-/
namespace Godi.Props.C10
open Godi.Container

/-- TRACKED ONCE: a disposable scoped/transient instance created in an open scope is appended to
that scope's list — once — and a non-disposable one is not tracked at all -/
theorem tracked_in_owner (st : State) (s : Nat) (i : Inst) (disp : Bool) (h : (st.scope s).disposed = false) :
    ((track st s (.inst i) disp).1.scope s).disposables =
      (if disp then some ((st.scope s).disposables.getD [] ++ [i]) else (st.scope s).disposables) :=
  (track_disposables st s i disp h).1

/-- a singleton goes to the provider's list, never to a scope's -/
theorem singleton_owned_by_provider (st : State) (s : Nat) (d : Desc) (i : Inst) (hl : d.life = .singleton) (hd : d.disp = true) :
    (setInstance st s d d.ident (.inst i)).1.provDisposables = some (st.provDisposables.getD [] ++ [i]) ∧
    (setInstance st s d d.ident (.inst i)).1.scope = st.scope := by
  unfold setInstance; simp [hl, hd, storeSingleton]

/-- EXACTLY ONCE: Close logs exactly one `closed` event for every instance of the list it took, and
the list is gone afterwards -/
theorem drained_exactly_once (beh : Beh) (order : List Nat → List Nat) (f : Nat) (st : State) (s : Nat)
    (h : (st.scope s).disposed = false) :
    let r1 := closeChildren beh order f (takeChildren (markDisposed st s) s) (order ((st.scope s).children.getD []))
    (closeScope beh order (f + 1) st s).1.log =
      r1.1.log ++ (((r1.1.scope s).disposables.getD []).reverse).map (closedEv beh r1.1 s) ∧
    (((closeScope beh order (f + 1) st s).1).scope s).instances = none :=
  ⟨closeScope_log beh order f st s h, by unfold closeScope; simp [h, dropInstances, updScope]⟩

/-- NOT EARLY, UNTOUCHED: nothing but Close logs a `closed` event for a live scope — every history
of resolutions and scope creations only appends constructor events or events of scopes being
closed — and a scope's Close never touches the provider's singletons or their disposal list -/
theorem scope_close_leaves_singletons (beh : Beh) (order : List Nat → List Nat) (f : Nat) (st : State) (s : Nat) :
    (closeScope beh order f st s).1.singletons = st.singletons ∧
    (closeScope beh order f st s).1.provDisposables = st.provDisposables :=
  ⟨((closeScope_stable beh order f).1 st s).singletons, ((closeScope_stable beh order f).1 st s).provDisp⟩

/-- FAILED SCOPE CREATION: when an initializer fails, the half-made scope is closed — which drains
what its initializers created — and it is never entered into any table -/
theorem failed_scope_creation_is_closed (beh : Beh) (st : State) (parent : Option Nat) (ctx : Nat) (e : Err)
    (h : (runInitializers beh (allocScope st parent ctx) st.nscopes st.initializers).2 = .error e) :
    newScope beh st parent ctx true =
      ((closeScope beh id (closeFuel (runInitializers beh (allocScope st parent ctx) st.nscopes st.initializers).1)
        (runInitializers beh (allocScope st parent ctx) st.nscopes st.initializers).1 st.nscopes).1, .error e) := by
  have hi : (allocScope st parent ctx).initializers = st.initializers := rfl
  unfold newScope
  simp only [↓reduceIte, hi, h]

/-- FAILED BUILD: when a singleton constructor fails, Build closes the partially created provider —
root scope first, then the singletons created so far -/
theorem failed_build_is_cleaned_up (beh : Beh) (descs : List Desc) (order : List Nat) (e : Err)
    (h : (createSingletons beh (newScope beh { descs := descs, next := firstFresh descs } none 0 false).1 order).2 = .error e) :
    (buildRuntime beh descs order).1 =
      (closeProvider beh id (createSingletons beh (newScope beh { descs := descs, next := firstFresh descs } none 0 false).1 order).1).1 := by
  unfold buildRuntime
  have hn : newScope beh { descs := descs, next := firstFresh descs } none 0 false = (allocScope { descs := descs, next := firstFresh descs } none 0, .ok 0) := by
    unfold newScope; simp
  simp only [hn] at h ⊢
  generalize createSingletons beh (allocScope { descs := descs, next := firstFresh descs } none 0) order = r at h
  obtain ⟨st2, res⟩ := r
  simp only [] at h
  subst h
  rfl

/-! ### the global statement -/

/-- EXACTLY ONCE, OVER ALL HISTORIES: from any state that satisfies the ledger, after any history of
resolutions, group resolutions, scope creations (whose initializers may fail) and scope closes — with
constructors failing or panicking and `Close` methods failing wherever `beh` says — the ledger holds
again: no instance has more than one `closed` event, none that is still listed has been closed,
no instance is listed twice; and whatever was owed before is still owed -/
theorem exactly_once_over_histories (beh : Beh) (st : State) (ops : List Op) (wf : WF st.descs)
    (is : InstSingleton st.descs) (i : InitOK st) (L : Ledger st) (hv : ValidHistL beh st ops) :
    Ledger (run beh st ops) ∧ (∀ j, Owed st j → Owed (run beh st ops) j) ∧
    (∀ j, closedCount (run beh st ops).log j ≤ 1) :=
  ⟨(ledger_run beh ops st wf is i L hv).ledger, (ledger_run beh ops st wf is i L hv).mono,
   (ledger_run beh ops st wf is i L hv).ledger.once⟩

/-- a disposable scoped/transient instance enters the ledger the moment it is created: it is owed -/
theorem created_is_owed (st : State) (L : Ledger st) (s : Nat) (d : Desc) (k : Ident) (j : Inst)
    (hl : d.life ≠ .singleton) (hs : s < st.nscopes) (hf : Fresh st j) (hj : j < st.next) (hd : d.disp = true) :
    Owed (setInstance st s d k (.inst j)).1 j :=
  (setInstance_ns_lstep st L s d k j hl hs hf hj).2.2.2.2 hd

/-- ... also every secondary output of a multi-output constructor -/
theorem outputs_are_owed (st : State) (L : Ledger st) (s : Nat) (sibs : List Desc) (outs : List Inst)
    (hs : s < st.nscopes) (hl : ∀ d ∈ sibs, d.life ≠ .singleton) (hnd : outs.Nodup)
    (hf : ∀ o ∈ outs, Fresh st o ∧ o < st.next) :
    ∀ p ∈ sibs.zip outs, p.1.disp = true → Owed (storeOuts st s sibs outs).1 p.2 :=
  (storeOuts_lstep s sibs outs st L hs hl hnd hf).2

/-- NEVER LEAKED, NEVER TWICE: take any state of an open provider that satisfies the ledger and is
tidy, run any history, then `Provider.Close` (visiting its scope table in any order): every instance
that was owed at the beginning or at the end of the history has exactly one `closed` event, and
no instance at all has more than one -/
theorem never_leaked (beh : Beh) (st : State) (ops : List Op) (order : List Nat → List Nat)
    (hord : ∀ l x, x ∈ l → x ∈ order l) (wf : WF st.descs) (is : InstSingleton st.descs) (i : InitOK st)
    (L : Ledger st) (T : Tidy st) (hopen : st.disposed = false) (hv : ValidHistL beh st ops) :
    (∀ j, Owed st j ∨ Owed (run beh st ops) j → closedCount (closeProvider beh order (run beh st ops)).1.log j = 1) ∧
    (∀ j, closedCount (closeProvider beh order (run beh st ops)).1.log j ≤ 1) := by
  have h1 := ledger_run beh ops st wf is i L hv
  obtain ⟨T1, d1⟩ := tidy_run beh ops st wf i T
  have h2 := ledger_closeProvider beh order (run beh st ops) h1.ledger
  have hnone := closeProvider_all_closed beh order hord (run beh st ops) h1.ledger T1 (d1.trans hopen)
  refine ⟨?_, h2.ledger.once⟩
  intro j hj
  have : Owed (run beh st ops) j := hj.elim (h1.mono j) id
  rcases h2.mono j this with h | h
  · exact absurd h (hnone j)
  · exact h

/-- NOT EARLY (scope-level): a scope's `Close` logs `closed` events only for instances of its own
list and of the lists of the scopes it closes with it: whatever is listed elsewhere stays listed
and unclosed (in particular the provider's singletons and every other scope's instances) -/
theorem close_touches_only_its_own (beh : Beh) (order : List Nat → List Nat) (f : Nat) (st : State) (s : Nat)
    (L : Ledger st) : Ledger (closeScope beh order f st s).1 ∧
    ∀ j, Tracked (closeScope beh order f st s).1 j → closedCount (closeScope beh order f st s).1.log j = 0 :=
  ⟨((ledger_close beh order f).1 st s L).ledger, ((ledger_close beh order f).1 st s L).ledger.pending⟩

/-- BUILD ESTABLISHES THE LEDGER; A FAILED BUILD LEAVES NOTHING BEHIND: for every registry with the
collection's structural guarantees (instance values registered as singletons, one registration per
value), every constructor behaviour and every creation order, the state `Build` returns satisfies the
ledger; on success it is an open, tidy provider; on failure no disposal list holds anything any more —
everything the partial Build created and owned has been closed exactly once -/
theorem build_then_ledger (beh : Beh) (descs : List Desc) (order : List Nat) (wf : WF descs) (rw' : RegWF descs)
    (is : InstSingleton descs) (idist : InstDistinct descs) :
    Ledger (buildRuntime beh descs order).1 ∧
    (∀ j, closedCount (buildRuntime beh descs order).1.log j ≤ 1) ∧
    (∀ e, (buildRuntime beh descs order).2 = .error e → ∀ j, ¬ Tracked (buildRuntime beh descs order).1 j) :=
  ⟨(build_ledger beh descs order wf rw' is idist).1, (build_ledger beh descs order wf rw' is idist).1.once,
   (build_ledger beh descs order wf rw' is idist).2.2⟩

/-- THE WHOLE LIFE CYCLE: Build (any creation order), then any history of resolutions, scope
creations and closes (any faults), then `Provider.Close` (any visiting order): no instance has more
than one `closed` event, every instance owed at the end of the history has exactly one, and no
disposal list holds anything -/
theorem whole_lifecycle (beh : Beh) (descs : List Desc) (order : List Nat) (ops : List Op)
    (corder : List Nat → List Nat) (hord : ∀ l x, x ∈ l → x ∈ corder l)
    (wf : WF descs) (rw' : RegWF descs) (is : InstSingleton descs) (idist : InstDistinct descs)
    (hok : (buildRuntime beh descs order).2 = .ok ())
    (hv : ValidHistL beh (buildRuntime beh descs order).1 ops) :
    (∀ j, closedCount (closeProvider beh corder (run beh (buildRuntime beh descs order).1 ops)).1.log j ≤ 1) ∧
    (∀ j, Owed (run beh (buildRuntime beh descs order).1 ops) j →
      closedCount (closeProvider beh corder (run beh (buildRuntime beh descs order).1 ops)).1.log j = 1) ∧
    (∀ j, ¬ Tracked (closeProvider beh corder (run beh (buildRuntime beh descs order).1 ops)).1 j) := by
  obtain ⟨L, hsucc, _⟩ := build_ledger beh descs order wf rw' is idist
  obtain ⟨T, hopen, hdescs, hinit, _⟩ := hsucc hok
  have wf' : WF (buildRuntime beh descs order).1.descs := by rw [hdescs]; exact wf
  have is' : InstSingleton (buildRuntime beh descs order).1.descs := by rw [hdescs]; exact is
  obtain ⟨h1, h2⟩ := never_leaked beh _ ops corder hord wf' is' hinit L T hopen hv
  refine ⟨h2, fun j hj => h1 j (Or.inr hj), ?_⟩
  have hr := ledger_run beh ops _ wf' is' hinit L hv
  obtain ⟨T1, d1⟩ := tidy_run beh ops _ wf' hinit T
  exact closeProvider_all_closed beh corder hord _ hr.ledger T1 (d1.trans hopen)

/-- the hypotheses of the theorems above are checked on every generated registry: the driver answers
`p hyp` with `ok` exactly when `failedHyps descs = []`, which implies all four of them -/
theorem hypotheses_are_checked (descs : List Desc) (h : failedHyps descs = []) :
    WF descs ∧ RegWF descs ∧ InstSingleton descs ∧ InstDistinct descs :=
  ⟨(hyps_of_check h).1, (hyps_of_check h).2.1, (hyps_of_check h).2.2.1, (hyps_of_check h).2.2.2.1⟩

def ex : List Desc :=
  [{ id := 0, ident := ⟨3, 0, 0⟩, life := .singleton, ctor := 1, kind := .plain, deps := [], disp := true },
   { id := 1, ident := ⟨4, 0, 0⟩, life := .scoped, ctor := 2, kind := .plain, deps := [{ ty := 3 }], disp := true },
   { id := 2, ident := ⟨5, 0, 0⟩, life := .transient, ctor := 3, kind := .plain, deps := [{ ty := 4 }], disp := true }]
/-- scoped + transient closed by their scope (reverse creation), singleton by the provider, each once -/
example : let st := (providerCreateScope {} (buildRuntime {} ex [0]).1 0).1
    ((closeProvider {} id (scopeGet {} st 1 5 0).1).1.log.filter (fun e => match e with | .closed _ _ _ => true | _ => false)) =
      [.closed 1 3 true, .closed 1 2 true, .closed providerOwner 1 true] := by decide

/-- non-vacuity of the global theorems: the state reached by building `ex`, opening a scope and
resolving the transient (which creates the scoped service too) meets their hypotheses, two instances
are owed there, and after `Provider.Close` each of the three disposable instances has exactly one
`closed` event -/
example : let st := (scopeGet {} (providerCreateScope {} (buildRuntime {} ex [0]).1 0).1 1 5 0).1
    (dispOf st 1 = [2, 3] ∧ provD st = [1] ∧ st.disposed = false ∧ st.provScopes = some [1]) ∧
    (closedCount (closeProvider {} id st).1.log 1, closedCount (closeProvider {} id st).1.log 2,
     closedCount (closeProvider {} id st).1.log 3, closedCount (closeProvider {} id st).1.log 4) = (1, 1, 1, 0) := by
  decide

/-- the structural hypotheses of `build_then_ledger` / `whole_lifecycle` are satisfiable -/
example : WF ex ∧ RegWF ex ∧ InstSingleton ex ∧ InstDistinct ex ∧
    (match (buildRuntime {} ex [0]).2 with | .ok _ => true | .error _ => false) = true := by
  refine ⟨⟨?_, ?_⟩, ⟨?_, ?_, ?_, ?_, ?_, ?_⟩, ?_, ?_, by decide⟩ <;>
    simp [SibLife, ex, findDesc, InstSingleton, InstDistinct] <;> decide

end Godi.Props.C10
