import GodiProofs.Conc.Clauses
import GodiProofs.Conc.LockFactsOk
/-!
# C09 — Providers and scopes are safe for concurrent use

Model: `GodiModel/Conc.lean` (M6), a small-step interleaving semantics whose actions are the
mutex-protected regions, atomic operations, blocking operations and calls into user code of
`/repo/scope.go` and `/repo/provider.go`, one action each, exactly where the source has them. The
tie to the source is `GodiModel/Gen/LockFacts.lean` (regenerated on every run) + `LockFactsOk.lean`,
and the schedule-forced differential run of the harness (`harness/conc`).

Every theorem below is about **every** state reachable (`Reach`) from `init thr`, where `thr` is
ANY list of threads (any number of resolvers of either scoped key, of transients, of singletons,
of child-scope creators, of `Close` callers, of `provider.Close` callers, of cancellation watchers,
of context cancellations), each with any choice of failing constructors / initializers and of map
iteration order, under ANY interleaving.

ASSUMED, not verified (Go memory model): every action is atomic and the execution is sequentially
consistent at the granularity of actions: `sync.Mutex`/`sync.RWMutex` critical sections exclude
each other and are totally ordered; `sync/atomic` loads, stores and CAS are sequentially
consistent; `sync.Map` operations are linearizable; a receive from a channel returns only after
`close`; `go f()` happens before `f` runs. Data races on fields accessed outside those primitives
cannot be expressed here — they are the business of the harness' `-race` stream. Liveness under a
fair scheduler (every call eventually returns) is not stated; deadlock freedom is.
-/
namespace Godi.Props.C09
open Godi.Conc

/-- (a) NO PANIC. No reachable action writes to a table that has been set to nil (Go: "assignment to
entry in nil map"): the `panicked` flag, which `cacheWrite`/`childWrite`/`scopeWrite` set on a nil
table, stays false; and no instance is appended to a disposal list `Close` has already taken. -/
theorem C09_no_panic {thr : List Thr} (h0 : InitThreads thr) {s : Sys} (r : Reach (init thr) s) :
    s.sh.panicked = false ∧ s.sh.resurrected = false :=
  ⟨(Inv.reach h0 r).gate.noPanic, (Inv.reach h0 r).gate.noRes⟩

/-- (f) NO DEADLOCK. In every reachable state in which some call has not returned, some thread that
has not returned (and is not merely a watcher parked on a live context) is enabled, i.e. a step
exists. Rank argument: see `GodiProofs/Conc/Progress.lean`. -/
theorem C09_no_deadlock {thr : List Thr} (h0 : InitThreads thr) {s : Sys} (r : Reach (init thr) s)
    (h : ∃ th ∈ s.thr, th.pc.idle = false) :
    ∃ th ∈ s.thr, th.pc.idle = false ∧ th.enabled s.sh = true :=
  let inv := Inv.reach h0 r
  progress inv.wf inv.gate inv.lock inv.kids h

/-- … hence the interleaving relation itself can continue. -/
theorem C09_can_step {thr : List Thr} (h0 : InitThreads thr) {s : Sys} (r : Reach (init thr) s)
    (h : ∃ th ∈ s.thr, th.pc.idle = false) : ∃ s', Step s s' := by
  obtain ⟨th, hth, _, hen⟩ := C09_no_deadlock h0 r h
  obtain ⟨pre, post, hsplit⟩ := List.append_of_mem hth
  simp only [Thr.enabled, Option.isSome_iff_exists] at hen
  obtain ⟨⟨pc', sh', sp⟩, hact⟩ := hen
  refine ⟨⟨sh', pre ++ { th with pc := pc' } :: post ++ spawn sp⟩, ?_⟩
  have : s = ⟨s.sh, pre ++ th :: post⟩ := by cases s; simp_all
  rw [this]
  exact Step.mk s.sh pre post th pc' sh' sp hact

/-- (e) RESULTS. Every call that has returned, returned one of the results documented for its kind
(`Res.okFor`): a scoped resolution the instance / `ErrScopeDisposed` / the constructor's error; a
transient likewise; `CreateScope` a scope / the scope- or provider-disposed error / the
initializer's error; `Close` nil. And a scoped instance that was returned respects the lifetime
rule: it is the one instance ever cached for its key in this scope. -/
theorem C09_results_valid {thr : List Thr} (h0 : InitThreads thr) {s : Sys} (r : Reach (init thr) s) :
    (∀ th ∈ s.thr, ∀ res, th.pc = .done res → res.okFor th.start = true) ∧
    (∀ k i j, Visible s k i → Visible s k j → i = j) :=
  ⟨(C13_overlap h0 r).2.2.1, fun k i j => C02_one_per_scope_conc h0 r k i j⟩

/-- (d) the creation mutex of a scoped key is held by at most one thread, and `lock q` says so. -/
theorem C09_creation_mutex {thr : List Thr} (h0 : InitThreads thr) {s : Sys} (r : Reach (init thr) s) (q : Key) :
    tot (holdsL q) s.thr = b2n (s.sh.lock.get q) ∧ tot (holdsL q) s.thr ≤ 1 := by
  have := (Inv.reach h0 r).lock.held q
  exact ⟨this, by rw [this]; exact b2n_le _⟩

/-- the relation the theorems quantify over is the one the executable model (and therefore the
driver that replays harness schedules) computes -/
theorem C09_step_executable (s s' : Sys) : Step s s' ↔ ∃ t, step? s t = some s' := step_iff s s'

/-- TIE T2: the synchronisation skeleton extracted from the current scope.go / provider.go equals the
table M6's action programs were written from (`GodiProofs/Conc/LockFactsOk.lean`). -/
theorem C09_source_skeleton : Godi.Gen.LockFacts.facts = Godi.Conc.LockExpected.facts :=
  Godi.Conc.LockFactsOk.facts_eq

/-- checked on the source: no mutex is acquired while another is held; none is held at a channel
receive, at a call into another godi function or user code, or at a return (except the creation
mutex handed out by `lockCreation`) — the reason M6 may treat each protected region as one action
and leave table mutexes out of the deadlock argument -/
theorem C09_table_locks_flat :
    Godi.Conc.LockFactsOk.allEvents Godi.Conc.LockFactsOk.Ev.flatOk Godi.Gen.LockFacts.facts = true :=
  Godi.Conc.LockFactsOk.table_locks_flat

/-- checked on the source: every access to a field with a `<field>Mu` sibling holds that mutex -/
theorem C09_guarded_fields_locked :
    Godi.Conc.LockFactsOk.allEvents Godi.Conc.LockFactsOk.Ev.guardOk Godi.Gen.LockFacts.facts = true :=
  Godi.Conc.LockFactsOk.guarded_fields_locked

/-- the extractor understood every statement -/
theorem C09_skeleton_complete :
    Godi.Conc.LockFactsOk.allEvents (fun e => !Godi.Conc.LockFactsOk.Ev.isUnknown e) Godi.Gen.LockFacts.facts = true :=
  Godi.Conc.LockFactsOk.no_unknown

theorem run_reach {s s' : Sys} {sched : List Nat} (h : run s sched = some s') : Reach s s' := by
  induction sched generalizing s with
  | nil => simp only [run, Option.some.injEq] at h; subst h; exact Reach.refl _
  | cons t ts ih =>
    simp only [run] at h
    split at h
    · cases h
    · rename_i s1 hs
      exact Reach.trans (Reach.step (Reach.refl _) ((step_iff _ _).2 ⟨t, hs⟩)) (ih h)

/-! ## Non-vacuity: concrete schedules (replayed by the kernel) -/

def thr (p : Pc) (c : Cfg := {}) : Thr := { cfg := c, start := p, pc := p }

/-- "Close runs completely while a scoped constructor is in flight": thread 0 resolves `b` and is
inside the constructor when thread 1 runs `Close` from CAS to signal; the late instance is disposed
by the resolver itself, exactly once, and the resolver reports the disposed error. -/
example :
    (run (init [thr (.rChk .b false), thr (.cCas (.ret .okUnit))])
        [0,0,0,0,0,0, 1,1,1,1,1,1,1,1,1,1, 0,0,0,0]).map
      (fun s => (s.thr.map (·.pc), s.sh.created, s.sh.closed, s.sh.panicked, s.sh.cache.isNone)) =
    some ([.done .disposed, .done .okUnit], [1], [1], false, true) := by decide

/-- two resolvers of `a` (which needs `b`): the second one waits for the creation mutex and takes the
first one's instance; one `a`, one `b`. -/
example :
    (run (init [thr (.rChk .a false), thr (.rChk .a false)])
        ([0,0,0,0,0] ++ [1,1,1] ++ [0,0,0,0,0,0,0,0,0,0, 0,0,0] ++ [1,1,1])).map
      (fun s => (s.thr.map (·.pc), s.sh.created.length, s.sh.ever)) =
    some ([.done (.ok .a 2), .done (.ok .a 2)], 2, ⟨[2], [1]⟩) := by decide

/-- a failed construction caches nothing and the next resolver retries (and succeeds). -/
example :
    (run (init [thr (.rChk .b false) { failB := true }, thr (.rChk .b false)])
        ([0,0,0,0,0,0,0] ++ [1,1,1,1,1,1,1,1,1])).map
      (fun s => (s.thr.map (·.pc), s.sh.ever.b)) =
    some ([.done .ctorErr, .done (.ok .b 1)], [1]) := by decide

/-- thread 1 is blocked on the creation mutex while thread 0 is inside the constructor -/
example :
    ((run (init [thr (.rChk .b false), thr (.rChk .b false)]) [0,0,0,0,0, 1,1,1]).bind (step? · 1)) = none := by
  decide

/-- the hypotheses of the theorems are met by these thread lists -/
example : InitThreads [thr (.rChk .a false), thr (.cCas (.ret .okUnit)), thr .sChk, thr .pCas, thr .wS, thr .xCancel,
    thr .tChk, thr .gChk] := by
  intro th h
  simp only [List.mem_cons, List.not_mem_nil, or_false] at h
  rcases h with rfl | rfl | rfl | rfl | rfl | rfl | rfl | rfl <;> exact ⟨rfl, rfl⟩

end Godi.Props.C09
