import GodiProofs.Graph.CyclePath
import GodiProofs.Graph.CyclePathComplete
/-!
# C05 (graph component) — "is there a directed cycle" is answered correctly for every graph

`DetectCycles` / `detectCyclesFrom` / `findCyclePath` of `internal/graph/graph.go`, for every graph
state satisfying the structural invariant `Base` (established by every mutation, see `Props/C19`),
every start node and every iteration order of the Go maps. The container-level clauses (Build fails
with a circular-dependency error exactly when the registered dependency relation has a cycle;
resolution terminates) are in `Props/C05b.lean`.
-/
namespace Godi.Props.C05
open Godi.Kahn (Key)
open Godi.Graph Godi.Spec

/-- TERMINATION: the explicit-stack search never exhausts `2·|E| + 2·|V| + 4` iterations, on cyclic
graphs as well -/
theorem dfs_terminates (g : Graph) (b : Base g) (s : Key) : (detectCyclesFrom g s).2 ≠ .fuel :=
  detectCyclesFrom_never_fuel g b s

/-- SOUNDNESS: the reported node lies on a cycle and the reported path is a real cycle through it -/
theorem cycle_report_real (g : Graph) (s k : Key) (path : Option (List Key)) (g' : Graph)
    (h : detectCyclesFrom g s = (g', .cycle k path)) :
    Reach g.edges k k ∧ ∀ p, path = some p → isClosedWalk g.edges p = true ∧ p.head? = some k :=
  detectCyclesFrom_sound g s k path g' h

/-- … and the report always carries that path: `findCyclePath`, with the fuel the model runs on, finds a closed walk
through every node that lies on a cycle (`Graph/CyclePathComplete.lean`) — `CircularDependencyError.Path` is never
empty -/
theorem cycle_report_carries_a_path (g : Graph) (b : Base g) (s k : Key) (path : Option (List Key)) (g' : Graph)
    (h : detectCyclesFrom g s = (g', .cycle k path)) : ∃ p, path = some p :=
  detectCyclesFrom_has_path g b s k path g' h

/-- `findCyclePath` is exact: it returns a path iff the node is on a cycle -/
theorem findCyclePath_exact (g : Graph) (b : Base g) (k : Key) (hk : k ∈ g.nodes) :
    (∃ p, findCyclePath g k = some p) ↔ Reach g.edges k k := by
  constructor
  · rintro ⟨p, hp⟩
    obtain ⟨h1, h2⟩ := findCyclePath_sound g k p hp
    -- a closed walk k … k with at least one edge
    unfold isClosedWalk at h1
    simp only [Bool.and_eq_true, decide_eq_true_eq] at h1
    obtain ⟨⟨hlen, hhl⟩, hw⟩ := h1
    cases p with
    | nil => simp at hlen
    | cons a rest =>
      simp only [List.head?_cons, Option.some.injEq] at h2
      subst h2
      cases hr : rest.reverse with
      | nil =>
        have : rest = [] := by simpa using hr
        subst this; simp at hlen
      | cons z zs =>
        have e : rest = zs.reverse ++ [z] := by
          have := congrArg List.reverse hr; simpa using this
        subst e
        have hz : z = a := by
          have h3 : (a :: (zs.reverse ++ [z])).getLast? = some z := by
            rw [← List.cons_append]; exact List.getLast?_concat ..
          rw [h3] at hhl; simp at hhl; exact hhl.symm
        subst hz
        exact reach_of_isWalk g.edges zs.reverse z z (by simpa using hw)
  · exact fun h => findCyclePath_complete g b k hk h

/-- COMPLETENESS: a clean run from `s` certifies that nothing reachable from `s` lies on a cycle -/
theorem clean_run_certifies (g : Graph) (s : Key) (hs : s ∈ g.nodes) (g' : Graph)
    (h : detectCyclesFrom g s = (g', .ok)) :
    ¬ Reach g.edges s s ∧ ∀ c, Reach g.edges s c → ¬ Reach g.edges c c :=
  detectCyclesFrom_complete g s hs g' h

theorem mem_nodes_of_reach {g : Graph} (b : Base g) {a c : Key} (h : Reach g.edges a c) : a ∈ g.nodes := by
  have hne : g.edges a ≠ [] := by
    cases h with
    | single h => intro e; rw [e] at h; simp at h
    | cons h _ => intro e; rw [e] at h; simp at h
  have : a ∈ g.ekeys := by
    apply Classical.byContradiction
    intro hn; exact hne (b.offKeys a hn)
  exact b.ekeysSub a this

/-- EXACTNESS of `DetectCycles` when it recomputes: for every iteration order of `g.edges` and of
`g.nodes` it answers "no cycle" iff the graph, read as a plain digraph, has no directed cycle -/
theorem detectCycles_exact (g : Graph) (b : Base g) (hd : g.cycleDirty = true)
    (eorder norder : List Key) (he : eorder.Perm g.ekeys) (hn : norder.Perm g.nodes) :
    (detectCyclesWith g eorder norder).2 = .ok ↔ ¬ HasCycle (abs g) := by
  have fr := updateDegreesWith_frame g eorder
  have b1 := updateDegreesWith_base g eorder he b
  have hdirty : (updateDegreesWith g eorder).cycleDirty = true := by rw [fr.2.2.2.2.2.2.2.1]; exact hd
  generalize hg2 : resetCycleCache (updateDegreesWith g eorder) = g2
  have hs2 : SameStruct (updateDegreesWith g eorder) g2 := hg2 ▸ resetCycleCache_same _
  have b2 : Base g2 := hs2.base b1
  have hn2 : g2.nodes = g.nodes := hs2.nodes.trans fr.1
  have he2 : g2.edges = g.edges := hs2.edges.trans fr.2.1
  have hres : (detectCyclesWith g eorder norder).2 = (detectLoop g2 norder).2 := by
    rw [detectCyclesWith_dirty g eorder norder hdirty, hg2]
  rw [hres, detectLoop_ok_iff]
  constructor
  · intro h ⟨k, hk, hr⟩
    have hk2 : k ∈ g2.nodes := by rw [hn2]; exact hk
    have hok := h k (hn.mem_iff.2 hk)
    cases hdc : detectCyclesFrom g2 k with
    | mk g' r =>
      rw [hdc] at hok; simp at hok; subst hok
      have := (detectCyclesFrom_complete g2 k hk2 g' hdc).1
      rw [he2] at this
      exact this hr
  · intro hac k _
    cases hdc : detectCyclesFrom g2 k with
    | mk g' r =>
      cases r with
      | ok => rfl
      | fuel => exact absurd (by rw [hdc]) (detectCyclesFrom_never_fuel g2 b2 k)
      | cycle k' path =>
        have hr := (detectCyclesFrom_sound g2 k k' path g' hdc).1
        rw [he2] at hr
        exact absurd ⟨k', mem_nodes_of_reach b hr, hr⟩ hac

/-- and when it answers "cycle" the path it reports (if any) is a closed walk of the digraph -/
theorem detectCycles_path_real (g : Graph) (hd : g.cycleDirty = true) (eorder norder : List Key)
    (g' : Graph) (k : Key) (p : List Key)
    (h : detectCyclesWith g eorder norder = (g', .cycle k (some p))) :
    isClosedWalk g.edges p = true ∧ p.head? = some k := by
  have fr := updateDegreesWith_frame g eorder
  have hdirty : (updateDegreesWith g eorder).cycleDirty = true := by rw [fr.2.2.2.2.2.2.2.1]; exact hd
  rw [detectCyclesWith_dirty g eorder norder hdirty] at h
  -- the loop returns the answer of one of its `detectCyclesFrom` calls, on a structurally equal graph
  have key : ∀ (l : List Key) (g0 g1 : Graph) (k : Key) (p : List Key), g0.edges = g.edges →
      detectLoop g0 l = (g1, .cycle k (some p)) → isClosedWalk g.edges p = true ∧ p.head? = some k := by
    intro l
    induction l with
    | nil => intro g0 g1 k p _ h; simp [detectLoop] at h
    | cons x rest ih =>
      intro g0 g1 k p he h
      unfold detectLoop at h
      split at h
      next g1' heq =>
        have hs := detectCyclesFrom_same g0 x
        rw [heq] at hs
        exact ih g1' g1 k p (hs.edges.trans he) h
      next r hne =>
        have := (detectCyclesFrom_sound g0 x k (some p) g1 h).2 p rfl
        rw [he] at this
        exact this
  cases hl : detectLoop (resetCycleCache (updateDegreesWith g eorder)) norder with
  | mk g3 r =>
    rw [hl] at h
    simp only [Prod.mk.injEq] at h
    obtain ⟨_, hr⟩ := h
    subst hr
    exact key norder _ g3 k p ((resetCycleCache_same _).edges.trans fr.2.1) hl

/-! non-vacuity: the model finds the cycle 1→2→3→1 and reports a real path; a DAG is clean -/
example : (detectCycles (Godi.Graph.addProviderDeferred (Godi.Graph.addProviderDeferred
    (Godi.Graph.addProviderDeferred {} 1 1 [2]) 2 2 [3]) 3 3 [1])).2 = .cycle 1 (some [1, 2, 3, 1]) := by decide
example : (detectCycles (Godi.Graph.addProviderDeferred (Godi.Graph.addProviderDeferred
    (Godi.Graph.addProviderDeferred {} 1 1 [2]) 2 2 [3]) 3 3 [])).2 = .ok := by decide

end Godi.Props.C05
