import GodiProofs.Container.KahnOrder
import GodiProofs.Container.BuildResolves
import GodiProofs.Props.C08
/-!
# C06 (continued): the sorted order is the order the creation loop needs

`Props/C06` proves that what `TopologicalSort` returns lists every node once, dependencies first. Here that order is
carried to the container model: translated to registrations it lists every singleton after every singleton it reaches
through its declared dependencies — through transients, scoped services and group nodes as well —, which is the premise
under which `doBuild`'s creation loop succeeds (`Props/C08`, `build_accepts_valid_sets`). So phases 1–6 of Build compose.
-/
namespace Godi.Props.C06b
open Godi.Container Godi.Graph Godi.Spec
open Godi.Kahn (Key)
open Godi.Props.C06 (ValidOrder)

/-- a dependency-first order of the graph Build made lists every singleton, each after every singleton it reaches -/
theorem sorted_order_is_a_creation_order (descs : List Desc) (hyp : failedHyps descs = [])
    (l : List Key) (hv : ValidOrder (buildGraph descs) l) :
    (∀ d ∈ descs, d.life = .singleton → d.id ∈ orderIds descs l) ∧
    (∀ pre id post, orderIds descs l = pre ++ id :: post → ∀ d, findDesc descs id = some d → d.life = .singleton →
      ∀ t, ReachLong descs d t → t.life = .singleton → t.id ∈ pre) := by
  obtain ⟨wf, _, _, _, hk, _, _, _, _, hdk⟩ := hyps_of_check hyp
  exact sorted_order_is_creation_order descs wf hk hdk l hv

/-- **BUILD, END TO END ON THE MODEL**: deferred adds, `detectCycles` and `TopologicalSort` in any map iteration
orders, then the creation loop in the order the sort returned and the root initializers: a valid registration set
whose constructors succeed is built without an error. -/
theorem build_succeeds_with_the_order_the_sort_returns (beh : Beh) (gb : GoodBeh beh) (descs : List Desc)
    (hyp : failedHyps descs = []) (hv : verdict descs = .ok)
    (eorder norder norder2 : List Key) (g1 g2 : Graph) (r : CycleRes) (l : List Key)
    (he : eorder.Perm (buildGraph descs).ekeys) (hn : norder2.Perm (buildGraph descs).nodes)
    (h1 : detectCyclesWith (buildGraph descs) eorder norder = (g1, r))
    (h2 : topologicalSortWith g1 norder2 = (g2, some l)) :
    (build beh descs (orderIds descs l)).2 = .ok () :=
  Godi.Container.build_succeeds_with_the_order_the_sort_returns beh gb descs hyp hv eorder norder norder2 g1 g2 r l he hn h1 h2

/-- **C08, positive form, end to end**: a registration set with the collection's structural guarantees that passes
validation, constructors that succeed, the creation order the sort delivers: Build returns a provider, and in it every
registered service, whatever its lifetime, is constructed without an error (`Container/BuildResolves.lean`: the state
Build returns has the registered registry, an open root scope, nothing marked constructed-without-value and every
singleton stored) -/
theorem built_provider_resolves_every_service (beh : Beh) (gb : GoodBeh beh) (descs : List Desc)
    (hyp : failedHyps descs = []) (hv : verdict descs = .ok) (l : List Key) (hl : ValidOrder (buildGraph descs) l)
    (d : Desc) (hd : d ∈ descs) :
    (build beh descs (orderIds descs l)).2 = .ok () ∧
    ∃ v, (createInstance beh (fuelFor (build beh descs (orderIds descs l)).1) (build beh descs (orderIds descs l)).1
      rootScope d).2 = .ok v :=
  built_provider_resolves_everything beh gb descs hyp hv l hl d hd

open Godi.Props.C08 in
/-- non-vacuity: the chain example of `Props/C08`, sorted by the model's own sort, is created 8 before 6 -/
example :
    let g := buildGraph exChain
    let g1 := (detectCyclesWith g g.ekeys g.nodes).1
    ((topologicalSortWith g1 g.nodes).2.map (orderIds exChain)) = some [2, 1, 0, 3] := by decide

end Godi.Props.C06b
