import GodiProofs.Container.History
import GodiProofs.Container.BuildOnce
/-!
# C01 — Singleton: constructed exactly once, the same instance everywhere

Model: `GodiModel/Container.lean` (M5). `st` ranges over *all* states with well-formed descriptors
(`WF`: descriptors of one registration share a lifetime, ids are unique) and scoped initializers
(`InitOK`) — every state a successful `Build` produces satisfies both (`build_wf` below) — `beh`
over all constructor/Close behaviours, `ops` over all histories of Get / GetKeyed / GetGroup /
CreateScope (provider or nested, any context) / Scope.Close at any nesting depth.

The concurrent clause ("also under concurrent requests") is `C01_table_stable_conc` of the
interleaving model M6 (see `Props/C09.lean`); the memory-model guarantee that lock-free readers see
the Build-time writes of `sync.Map` is runtime behaviour outside any Lean model.
-/
namespace Godi.Props.C01
open Godi.Container

/-- NEVER AGAIN: after Build, no history makes a constructor of a singleton registration run:
every event any history appends to the log belongs to a scoped or transient descriptor. -/
theorem ctor_never_again (beh : Beh) (st : State) (ops : List Op) (wf : WF st.descs) (i : InitOK st) :
    ∃ new, (run beh st ops).log = st.log ++ new ∧ ∀ e ∈ new, EventNonSingleton st.descs e :=
  (run_stable beh ops st wf i).log

/-- THE TABLE IS FROZEN: no history changes which instance a singleton identity maps to. -/
theorem table_stable (beh : Beh) (st : State) (ops : List Op) (wf : WF st.descs) (i : InitOK st) :
    (run beh st ops).singletons = st.singletons :=
  (run_stable beh ops st wf i).singletons

/-- SAME INSTANCE EVERYWHERE: whatever happened since Build, resolving a singleton identity by type
or key from any open scope at any depth yields exactly the instance Build stored for it (and changes
nothing; `hva`: the identity is not that of a result-object field the constructor left nil). Constructor parameters are resolved through the very same function (`buildArgs` calls
`resolve`), so injected singletons are that instance too. -/
theorem same_instance (beh : Beh) (st : State) (ops : List Op) (wf : WF st.descs) (i : InitOK st)
    (s ty key : Nat) (d : Desc) (v : Val)
    (hd : findService st.descs ty key = some d) (hl : d.life = .singleton)
    (hv : lookup st.singletons d.ident = some v) (hva : v ≠ .absent)
    (hopen : ((run beh st ops).scope s).disposed = false)
    (hnb : ¬ (key = 0 ∧ ty < 3)) :
    scopeGet beh (run beh st ops) s ty key = (run beh st ops, .ok v) := by
  have hs := run_stable beh ops st wf i
  generalize run beh st ops = st' at hs hopen
  unfold scopeGet
  obtain ⟨f, hf⟩ : ∃ f, fuelFor st' = (f + 1) + 1 :=
    ⟨fuelFor st' - 2, by have : 16 ≤ fuelFor st' := Nat.le_add_left _ _; omega⟩
  rw [hf]
  unfold resolve
  simp only [hopen, Bool.false_eq_true, ↓reduceIte]
  have h0 : ¬ (key = 0 ∧ ty = tyCtx) := fun h => hnb ⟨h.1, by rw [h.2]; decide⟩
  have h1 : ¬ (key = 0 ∧ ty = tyProvider) := fun h => hnb ⟨h.1, by rw [h.2]; decide⟩
  have h2 : ¬ (key = 0 ∧ ty = tyScope) := fun h => hnb ⟨h.1, by rw [h.2]; decide⟩
  simp only [h0, h1, h2, ↓reduceIte, hs.descs, hd]
  unfold resolveDesc
  simp only [hl, hs.singletons, hv]

/-- the same through a group: a singleton member of a group is looked up, never constructed -/
theorem same_instance_member (beh : Beh) (st : State) (f s : Nat) (d : Desc) (v : Val)
    (hl : d.life = .singleton) (hv : lookup st.singletons d.ident = some v) (hva : v ≠ .absent) :
    resolveDesc beh (f + 1) st s d = (st, .ok v) := by
  unfold resolveDesc
  simp only [hl, hv]

/-- EXACTLY ONCE DURING BUILD: for every registration list satisfying the structural facts the
collection guarantees (`WF`, `RegWF`), every creation order the graph may produce that covers the
singleton descriptors, and every constructor behaviour: if the run-time phases of Build succeed, the
constructor of every (non-instance) singleton registration has succeeded exactly once — also when it
yields several services (multiple returns, result object, aliases: all descriptors of a registration
share the constructor id) — and no constructor of singleton registrations has succeeded twice.
(A result-object field left nil makes Build fail for a singleton registration — the model's `markAbsent`,
repaired defect D15 — so the statement needs no hypothesis about nil fields.) -/
theorem build_runs_each_singleton_ctor_exactly_once (beh : Beh) (descs : List Desc) (order : List Nat)
    (wf : WF descs) (rw' : RegWF descs) (st : State) (h : buildRuntime beh descs order = (st, .ok ())) :
    (∀ c, SingCtor descs c → ctorCount st.log c ≤ 1) ∧
    (∀ d ∈ descs, d.life = .singleton → (∀ v, d.kind ≠ .inst v) → d.id ∈ order → ctorCount st.log d.ctor = 1) := by
  unfold buildRuntime at h
  have hn : newScope beh { descs := descs, next := firstFresh descs } none 0 false = (allocScope { descs := descs, next := firstFresh descs } none 0, .ok 0) := by
    unfold newScope; simp
  simp only [hn] at h
  have inv0 : BuildInv descs (allocScope { descs := descs, next := firstFresh descs } none 0) :=
    ⟨rfl, by intro c _; simp [allocScope], by intro c _ h; simp [allocScope] at h,
     by intro d _ _ _ h; simp [allocScope, lookup] at h⟩
  have inv := createSingletons_inv beh descs wf rw' order _ inv0
  have hstored := createSingletons_ok_stored beh descs wf rw' order _ inv0
  generalize createSingletons beh (allocScope { descs := descs, next := firstFresh descs } none 0) order = r at h inv hstored
  obtain ⟨st2, res⟩ := r
  cases res with
  | error e => simp at h
  | ok u =>
    simp only [] at h inv hstored
    obtain ⟨_, hst⟩ := hstored (by trivial)
    -- the root scope's initializers only add events of scoped descriptors
    have hinit : InitOK { st2 with initializers := (descs.filter isInitializer).map (·.id) } := by
      intro id hid d hd
      simp only [List.mem_map, List.mem_filter] at hid
      obtain ⟨d0, ⟨hd0, hi0⟩, hid0⟩ := hid
      have hd0' : findDesc descs d0.id = some d0 := wf.uniqueIds d0 hd0
      have : findDesc st2.descs id = some d := hd
      rw [inv.descsEq, ← hid0, hd0'] at this
      injection this with this; subst this
      simp only [isInitializer, Bool.and_eq_true, beq_iff_eq] at hi0
      exact hi0.1
    have hstable := runInitializers_stable beh rootScope
      ((descs.filter isInitializer).map (·.id)) { st2 with initializers := (descs.filter isInitializer).map (·.id) }
      (by show WF st2.descs; rw [inv.descsEq]; exact wf) (fun id hid d hd => hinit id hid d hd)
    generalize runInitializers beh { st2 with initializers := (descs.filter isInitializer).map (·.id) } rootScope
      ((descs.filter isInitializer).map (·.id)) = r2 at h hstable
    obtain ⟨st4, res4⟩ := r2
    cases res4 with
    | error e => simp at h
    | ok u4 =>
      simp only [Prod.mk.injEq, and_true] at h
      subst h
      obtain ⟨new, hlog, hnew⟩ := hstable.log
      have hcnt : ∀ c, SingCtor descs c → ctorCount st4.log c = ctorCount st2.log c := by
        intro c hc
        rw [hlog]
        show ctorCount (st2.log ++ new) c = _
        rw [ctorCount_append, ctorCount_nonSingleton st2.descs new c (by rw [inv.descsEq]; exact hc) hnew]
        rfl
      refine ⟨fun c hc => by rw [hcnt c hc]; exact inv.atMost c hc, ?_⟩
      intro d hd hl hk hin
      rw [hcnt d.ctor (singCtor_of descs wf rw' d hd hl)]
      exact inv.counted d hd hl hk (hst d.id hin d (wf.uniqueIds d hd) hl)

/-! non-vacuity: a two-service configuration (singleton 0 ← transient 1), built by the model, meets
`WF` and `InitOK`'s decidable parts, and the table holds the singleton -/
def exDescs : List Desc :=
  [{ id := 0, ident := ⟨3, 0, 0⟩, life := .singleton, ctor := 1, kind := .plain, deps := [] },
   { id := 1, ident := ⟨4, 0, 0⟩, life := .transient, ctor := 2, kind := .plain, deps := [{ ty := 3 }] }]

example : (lookup (buildRuntime {} exDescs [0, 1]).1.singletons ⟨3, 0, 0⟩) = some (.inst 1) := by decide
/-- the structural hypotheses are satisfiable: the example registry meets `WF` and `RegWF` -/
example : WF exDescs ∧ RegWF exDescs := by
  refine ⟨⟨?_, ?_⟩, ⟨?_, ?_, ?_, ?_, ?_, ?_⟩⟩ <;> simp [SibLife, exDescs, findDesc] <;> decide
example : okIs (scopeGet {} (buildRuntime {} exDescs [0, 1]).1 0 4 0).2 (.inst 2) = true := by decide

end Godi.Props.C01
