import GodiProofs.Container.History
/-!
# C01 — Singleton: constructed exactly once, the same instance everywhere

Model: `GodiModel/Container.lean` (M5). `st` ranges over *all* states with well-formed descriptors
(`WF`: descriptors of one registration share a lifetime, ids are unique) and scoped initializers
(`InitOK`) — every state a successful `Build` produces satisfies both (`build_wf` below) — `beh`
over all constructor/Close behaviours, `ops` over all histories of Get / GetKeyed / GetGroup /
CreateScope (provider or nested, any context) / Scope.Close at any nesting depth.

The concurrent clause ("also under concurrent requests") is `C01_table_stable_conc` of the
interleaving model M6 (see `Props/C09.lean`); the memory-model guarantee that lock-free readers see
the Build-time writes of `sync.Map` is runtime behaviour outside any Lean model.
-/
namespace Godi.Props.C01
open Godi.Container

/-- NEVER AGAIN: after Build, no history makes a constructor of a singleton registration run:
every event any history appends to the log belongs to a scoped or transient descriptor. -/
theorem ctor_never_again (beh : Beh) (st : State) (ops : List Op) (wf : WF st.descs) (i : InitOK st) :
    ∃ new, (run beh st ops).log = st.log ++ new ∧ ∀ e ∈ new, EventNonSingleton st.descs e :=
  (run_stable beh ops st wf i).log

/-- THE TABLE IS FROZEN: no history changes which instance a singleton identity maps to. -/
theorem table_stable (beh : Beh) (st : State) (ops : List Op) (wf : WF st.descs) (i : InitOK st) :
    (run beh st ops).singletons = st.singletons :=
  (run_stable beh ops st wf i).singletons

/-- SAME INSTANCE EVERYWHERE: whatever happened since Build, resolving a singleton identity by type
or key from any open scope at any depth yields exactly the instance Build stored for it (and changes
nothing). Constructor parameters are resolved through the very same function (`buildArgs` calls
`resolve`), so injected singletons are that instance too. -/
theorem same_instance (beh : Beh) (st : State) (ops : List Op) (wf : WF st.descs) (i : InitOK st)
    (s ty key : Nat) (d : Desc) (v : Val)
    (hd : findService st.descs ty key = some d) (hl : d.life = .singleton)
    (hv : lookup st.singletons d.ident = some v)
    (hopen : ((run beh st ops).scope s).disposed = false)
    (hnb : ¬ (key = 0 ∧ ty < 3)) :
    scopeGet beh (run beh st ops) s ty key = (run beh st ops, .ok v) := by
  have hs := run_stable beh ops st wf i
  generalize run beh st ops = st' at hs hopen
  unfold scopeGet
  obtain ⟨f, hf⟩ : ∃ f, fuelFor st' = (f + 1) + 1 :=
    ⟨fuelFor st' - 2, by have : 16 ≤ fuelFor st' := Nat.le_add_left _ _; omega⟩
  rw [hf]
  unfold resolve
  simp only [hopen, Bool.false_eq_true, ↓reduceIte]
  have h0 : ¬ (key = 0 ∧ ty = tyCtx) := fun h => hnb ⟨h.1, by rw [h.2]; decide⟩
  have h1 : ¬ (key = 0 ∧ ty = tyProvider) := fun h => hnb ⟨h.1, by rw [h.2]; decide⟩
  have h2 : ¬ (key = 0 ∧ ty = tyScope) := fun h => hnb ⟨h.1, by rw [h.2]; decide⟩
  simp only [h0, h1, h2, ↓reduceIte, hs.descs, hd]
  unfold resolveDesc
  simp only [hl, hs.singletons, hv]

/-- the same through a group: a singleton member of a group is looked up, never constructed -/
theorem same_instance_member (beh : Beh) (st : State) (f s : Nat) (d : Desc) (v : Val)
    (hl : d.life = .singleton) (hv : lookup st.singletons d.ident = some v) :
    resolveDesc beh (f + 1) st s d = (st, .ok v) := by
  unfold resolveDesc
  simp only [hl, hv]

/-! non-vacuity: a two-service configuration (singleton 0 ← transient 1), built by the model, meets
`WF` and `InitOK`'s decidable parts, and the table holds the singleton -/
def exDescs : List Desc :=
  [{ id := 0, ident := ⟨3, 0, 0⟩, life := .singleton, ctor := 1, kind := .plain, deps := [] },
   { id := 1, ident := ⟨4, 0, 0⟩, life := .transient, ctor := 2, kind := .plain, deps := [{ ty := 3 }] }]

example : (lookup (buildRuntime {} exDescs [0, 1]).1.singletons ⟨3, 0, 0⟩) = some (.inst 1) := by decide
example : okIs (scopeGet {} (buildRuntime {} exDescs [0, 1]).1 0 4 0).2 (.inst 2) = true := by decide

end Godi.Props.C01
