import GodiProofs.Container.Close
import GodiProofs.Container.CloseReport
import GodiProofs.Container.CloseTwice
/-!
# C12 — Close is complete under errors, reports them, and is idempotent (sequential clauses)

`beh.close c n = true` means: `Close()` of what the `n`-th invocation of constructor `c` produced
returns an error. All statements hold for every such `beh`, i.e. every subset of failing instances.
The concurrent clause (several goroutines and the cancellation watcher calling Close at once:
exactly one passes the CAS, the others wait and return nil) is `C12_idempotent_conc` in M6.
-/
namespace Godi.Props.C12
open Godi.Container

/-- ATTEMPTS ALL: the drain loop closes every instance of the list, in order, whatever fails -/
theorem attempts_all (beh : Beh) (owner : Nat) (l : List Inst) (st : State) :
    (closeLoop beh owner st l).1.log = st.log ++ l.map (closedEv beh st owner) :=
  (closeLoop_spec beh owner l st).1

/-- ERROR IFF: it reports an error exactly when one of them failed -/
theorem loop_error_iff (beh : Beh) (owner : Nat) (l : List Inst) (st : State) :
    (closeLoop beh owner st l).2 = true ↔ ∃ i ∈ l, beh.close (st.instMeta i).1 (st.instMeta i).2 = true :=
  (closeLoop_spec beh owner l st).2.2.2.2

/-- a scope's Close reports an error iff a descendant's Close did or one of its own instances failed -/
theorem scope_error_iff (beh : Beh) (order : List Nat → List Nat) (f : Nat) (st : State) (s : Nat)
    (h : (st.scope s).disposed = false) :
    let r1 := closeChildren beh order f (takeChildren (markDisposed st s) s) (order ((st.scope s).children.getD []))
    ((closeScope beh order (f + 1) st s).2 = true ↔
      r1.2 = true ∨ ∃ i ∈ (r1.1.scope s).disposables.getD [], beh.close (r1.1.instMeta i).1 (r1.1.instMeta i).2 = true) :=
  closeScope_err beh order f st s h

/-- children: the error flags of the children are or-ed, none is dropped -/
theorem children_error_iff (beh : Beh) (order : List Nat → List Nat) (f : Nat) (st : State) (c : Nat) (rest : List Nat) :
    (closeChildren beh order (f + 1) st (c :: rest)).2 =
      ((closeScope beh order f st c).2 || (closeChildren beh order f (closeScope beh order f st c).1 rest).2) := by
  conv => lhs; unfold closeChildren

/-- IDEMPOTENT: a second Close returns nil (no error) and does nothing at all -/
theorem scope_close_idempotent (beh : Beh) (order : List Nat → List Nat) (f : Nat) (st : State) (s : Nat)
    (h : (st.scope s).disposed = true) : closeScope beh order f st s = (st, false) := by
  cases f with
  | zero => simp [closeScope]
  | succ f => unfold closeScope; simp [h]

theorem provider_close_idempotent (beh : Beh) (order : List Nat → List Nat) (st : State) (h : st.disposed = true) :
    closeProvider beh order st = (st, false) := by
  unfold closeProvider; simp [h]

/-- CLOSE TWICE = CLOSE ONCE, composed: whatever state the first `Provider.Close` ran in (any scope tree, any
failing `Close()` methods, any iteration order), a second `Provider.Close` returns nil, changes nothing and
logs nothing — nothing is closed a second time -/
theorem provider_close_twice_is_once (beh : Beh) (order order' : List Nat → List Nat) (st : State) :
    closeProvider beh order' (closeProvider beh order st).1 = ((closeProvider beh order st).1, false) :=
  closeProvider_twice beh order order' st

/-- the same for a scope, for every fuel and order of the second call -/
theorem scope_close_twice_is_once (beh : Beh) (order order' : List Nat → List Nat) (f f' : Nat) (st : State) (s : Nat) :
    closeScope beh order' f' (closeScope beh order (f + 1) st s).1 s = ((closeScope beh order (f + 1) st s).1, false) :=
  closeScope_twice beh order order' f f' st s

/-- and the first Close does leave the scope disposed, so the second one is the case above -/
theorem closed_is_disposed (beh : Beh) (order : List Nat → List Nat) (f : Nat) (st : State) (s : Nat)
    (h : (st.scope s).disposed = false) :
    (((closeScope beh order (f + 1) st s).1).scope s).instances = none := by
  unfold closeScope; simp [h, dropInstances, updScope]

/-- REPORTS EXACTLY THE FAILURES, the whole subtree: `scope.Close` — for every scope tree, every depth, every
iteration order of the child tables, every set of failing `Close()` methods and every amount of fuel — appends
only `closed` events to the log and returns an error exactly when one of the events it appended (its own
instances' or any descendant's) records a `Close()` that failed -/
theorem scope_close_reports_exactly_the_failures (beh : Beh) (order : List Nat → List Nat) (f : Nat) (st : State) (s : Nat) :
    ∃ evs, (closeScope beh order f st s).1.log = st.log ++ evs ∧
      (∀ e ∈ evs, ∃ o i ok, e = Event.closed o i ok) ∧
      ((closeScope beh order f st s).2 = true ↔ ∃ o i, Event.closed o i false ∈ evs) :=
  (close_reported beh order f).1 st s

/-- the same for `provider.Close`: every tracked scope, the root scope and the singletons -/
theorem provider_close_reports_exactly_the_failures (beh : Beh) (order : List Nat → List Nat) (st : State) :
    ∃ evs, (closeProvider beh order st).1.log = st.log ++ evs ∧
      (∀ e ∈ evs, ∃ o i ok, e = Event.closed o i ok) ∧
      ((closeProvider beh order st).2 = true ↔ ∃ o i, Event.closed o i false ∈ evs) :=
  closeProvider_reported beh order st

example : (closeLoop { close := fun c _ => c == 2 } 7 {} [5, 6]).2 = false := by decide
example : (closeLoop { close := fun _ _ => true } 7 {} [5, 6]).1.log = [.closed 7 5 false, .closed 7 6 false] := by decide

-- non-vacuity of `scope_close_reports_exactly_the_failures`: the failing instance belongs to a grandchild (scope 3);
-- Close of scope 1 reports the error and logs exactly that one event; without the failure it reports nothing
example :
    let beh : Beh := { close := fun c _ => c == 9 }
    let st0 := (buildRuntime beh [] []).1
    let st1 := (providerCreateScope beh st0 0).1
    let st2 := (scopeCreateScope beh st1 1 0).1
    let st3 := (scopeCreateScope beh st2 2 0).1
    let st3 := updScope st3 3 (fun sc => { sc with disposables := some [5] })
    let st3 := { st3 with instMeta := fun i => if i = 5 then (9, 1) else (0, 0) }
    let r := closeScope beh id (closeFuel st3) st3 1
    let r' := closeScope {} id (closeFuel st3) st3 1
    (r.2, r.1.log.length - st3.log.length, r'.2) = (true, 1, false) := by decide

end Godi.Props.C12
