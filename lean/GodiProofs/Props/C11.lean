import GodiProofs.Container.Close
import GodiProofs.Container.Order
import GodiProofs.Container.ArgsBelow
import GodiProofs.Container.HypSound
/-!
# C11 — Disposal order

The disposal list of an owner is append-only in creation order (`track`, `setInstance`), so
"reverse of the list" is "reverse of creation". Dependencies are constructed before their consumer
completes (`buildArgs` runs before the constructor event), so reverse creation order closes
dependents before dependencies.
-/
namespace Godi.Props.C11
open Godi.Container

/-- REVERSE CREATION + CHILDREN FIRST: a scope's Close logs whatever closing all its children logs,
and only then its own instances — each exactly once, newest first -/
theorem children_then_own_reversed (beh : Beh) (order : List Nat → List Nat) (f : Nat) (st : State) (s : Nat)
    (h : (st.scope s).disposed = false) :
    let r1 := closeChildren beh order f (takeChildren (markDisposed st s) s) (order ((st.scope s).children.getD []))
    (closeScope beh order (f + 1) st s).1.log =
      r1.1.log ++ (((r1.1.scope s).disposables.getD []).reverse).map (closedEv beh r1.1 s) :=
  closeScope_log beh order f st s h

/-- SCOPES BEFORE SINGLETONS: the provider closes every tracked scope, then the root scope, and only
then the singletons — each exactly once, newest first -/
theorem scopes_then_singletons_reversed (beh : Beh) (order : List Nat → List Nat) (st : State) (h : st.disposed = false) :
    let st2 : State := { st with disposed := true, provScopes := none }
    let scopes := order (st.provScopes.getD [])
    let r1 := closeChildren beh order (closeFuel st2 + scopes.length + 2) st2 scopes
    let r2 := closeScope beh order (closeFuel r1.1) r1.1 rootScope
    (closeProvider beh order st).1.log =
      r2.1.log ++ ((r2.1.provDisposables.getD []).reverse).map (closedEv beh r2.1 providerOwner) :=
  closeProvider_log beh order st h

/-- the list is append-only in creation order: tracking a new disposable puts it last -/
theorem track_appends (st : State) (s : Nat) (i : Inst) (h : (st.scope s).disposed = false) :
    (((track st s (.inst i) true).1).scope s).disposables = some (((st.scope s).disposables.getD []) ++ [i]) := by
  unfold track; simp [h, updScope]

example : (closeScope {} id 3
    { scope := fun x => if x = 1 then { disposables := some [4, 5, 9] } else {} , nscopes := 2 } 1).1.log =
    [.closed 1 9 true, .closed 1 5 true, .closed 1 4 true] := by decide

/-! ### over Build and all histories: the lists are in creation order (`Container/Order.lean`) -/

/-- CREATION ORDER: in the state a successful Build returns and after every history of resolutions, scope creations
(failing initializers included) and closes, the disposal list of every scope is strictly increasing in instance id.
Ids are handed out by the container's counter when a constructor has returned, so the list is the order in which
the scope's disposable instances were created (arguments first: they exist before the constructor that receives
them returns). -/
theorem disposal_lists_in_creation_order (beh : Beh) (descs : List Desc) (order : List Nat) (ops : List Op)
    (hyp : failedHyps descs = []) (hok : (buildRuntime beh descs order).2 = .ok ()) (s : Nat) :
    let st := run beh (buildRuntime beh descs order).1 ops
    (dispOf st s).Pairwise (· < ·) ∧ ∀ i ∈ dispOf st s, i < st.next := by
  obtain ⟨wf, rw', is, idist, _⟩ := hyps_of_check hyp
  obtain ⟨_, hsucc, _⟩ := build_ledger beh descs order wf rw' is idist
  obtain ⟨_, _, hdescs, hinit, _⟩ := hsucc hok
  have hb : buildRuntime beh descs order = ((buildRuntime beh descs order).1, .ok ()) := by
    cases h : buildRuntime beh descs order with
    | mk a b => rw [h] at hok; simp only at hok; subst hok; rfl
  have h0 := sd_buildRuntime beh descs is order _ hb
  exact sd_run beh descs is ops _ hdescs (by rw [hdescs]; exact wf) hinit h0 s

/-- REVERSE OF CREATION, for every Close in every history: `Close` of an open scope first logs whatever closing its
children logs, then one `closed` event per instance of its own disposal list `L`, in the order `L.reverse` — and `L`
is in creation order. So the scope's own instances are closed in exactly the reverse of the order in which they
were created: newest first, every instance before the instances that existed when it was constructed. -/
theorem own_instances_closed_in_reverse_creation_order (beh : Beh) (descs : List Desc) (order : List Nat) (ops : List Op)
    (hyp : failedHyps descs = []) (hok : (buildRuntime beh descs order).2 = .ok ())
    (corder : List Nat → List Nat) (s : Nat) :
    let st := run beh (buildRuntime beh descs order).1 ops
    (st.scope s).disposed = false →
    ∃ (before : List Event) (st1 : State) (L : List Inst), L.Pairwise (· < ·) ∧
      (closeScope beh corder (closeFuel st) st s).1.log = before ++ (L.reverse).map (closedEv beh st1 s) := by
  intro st hopen
  obtain ⟨f, hf⟩ : ∃ f, closeFuel st = f + 1 := ⟨closeFuel st - 1, by unfold closeFuel; omega⟩
  rw [hf]
  have hlog := closeScope_log beh corder f st s hopen
  simp only [] at hlog
  have sd0 : SD st := fun x => disposal_lists_in_creation_order beh descs order ops hyp hok x
  have sd1 : SD (takeChildren (markDisposed st s) s) := by
    refine sd_of_fields (st := st) (fun x => ?_) rfl sd0
    unfold takeChildren markDisposed
    rw [scope_upd]; split
    next hx => subst hx; rw [scope_upd]; simp
    · rw [scope_upd]; split
      next hx => exact absurd hx ‹_›
      · rfl
  have sd2 := ((dispShrink_close beh corder f).2 (takeChildren (markDisposed st s) s)
    (corder ((st.scope s).children.getD []))).sd sd1
  exact ⟨_, _, _, (sd2 s).1, hlog⟩

/-- ARGUMENTS ARE OLDER: in the log of every history after a successful Build, in every constructor event every
instance among the arguments — plain, keyed, a parameter-object field or a member of a group argument — has a smaller
id than every product of that invocation (`Container/ArgsBelow.lean`, invariant `AB`) -/
theorem arguments_are_older_than_products (beh : Beh) (descs : List Desc) (order : List Nat) (ops : List Op)
    (hyp : failedHyps descs = []) (hok : (buildRuntime beh descs order).2 = .ok ())
    (did c inv s : Nat) (args : List Val) (outs : List Inst)
    (he : Event.ctor did c inv s args outs ∈ (run beh (buildRuntime beh descs order).1 ops).log) :
    ∀ a ∈ outs, ∀ v ∈ args, ∀ b ∈ idsOf v, b < a := by
  obtain ⟨wf, rw', is, idist, _⟩ := hyps_of_check hyp
  obtain ⟨_, hsucc, _⟩ := build_ledger beh descs order wf rw' is idist
  obtain ⟨_, _, hdescs, hinit, _⟩ := hsucc hok
  have hb : buildRuntime beh descs order = ((buildRuntime beh descs order).1, .ok ()) := by
    cases h : buildRuntime beh descs order with
    | mk a b => rw [h] at hok; simp only at hok; subst hok; rfl
  obtain ⟨h0, hff⟩ := ab_buildRuntime beh descs order _ hb
  have := (ab_run beh descs ops _ hdescs (by rw [hdescs]; exact wf) hinit hff h0).evs _ he
  exact this

/-- DEPENDENTS BEFORE DEPENDENCIES: the list `L.reverse` in which `Close` closes a scope's own instances
(`own_instances_closed_in_reverse_creation_order`) is strictly decreasing in id; a consumer has a larger id than
everything it received (`arguments_are_older_than_products`). So whenever a consumer `a` and an instance `b` it
received are owned by the same scope, `a` is closed before `b`: no instance is closed while an instance that
received it is still open. -/
theorem newest_first {L : List Inst} (h : L.Pairwise (· < ·)) : L.reverse.Pairwise (· > ·) := by
  rw [List.pairwise_reverse]
  exact h.imp (fun hab => hab)

theorem idxOf_cons_of_ne (x a : Inst) (rest : List Inst) (h : x ≠ a) : (x :: rest).idxOf a = rest.idxOf a + 1 := by
  rw [List.idxOf_cons]
  have : (x == a) = false := by simp [h]
  simp [this]

theorem consumer_closed_before_what_it_received {L : List Inst} (h : L.Pairwise (· < ·)) (a b : Inst)
    (ha : a ∈ L) (hb : b ∈ L) (hlt : b < a) : L.reverse.idxOf a < L.reverse.idxOf b := by
  have hp := newest_first h
  have ha' : a ∈ L.reverse := List.mem_reverse.2 ha
  have hb' : b ∈ L.reverse := List.mem_reverse.2 hb
  generalize L.reverse = R at hp ha' hb'
  clear h ha hb
  induction R with
  | nil => cases ha'
  | cons x rest ih =>
    simp only [List.pairwise_cons] at hp
    by_cases hxa : x = a
    · subst hxa
      have hbx : b ≠ x := fun e => by subst e; exact Nat.lt_irrefl _ hlt
      have hbr : b ∈ rest := by
        rcases List.mem_cons.1 hb' with h | h
        · exact absurd h hbx
        · exact h
      rw [List.idxOf_cons_self]
      rw [idxOf_cons_of_ne _ _ _ (fun e => hbx e.symm)]
      exact Nat.succ_pos _
    · have har : a ∈ rest := by
        rcases List.mem_cons.1 ha' with h | h
        · exact absurd h.symm hxa
        · exact h
      have hxb : x ≠ b := by
        intro e; subst e
        have := hp.1 a har
        exact Nat.lt_irrefl _ (Nat.lt_trans hlt this)
      have hbr : b ∈ rest := by
        rcases List.mem_cons.1 hb' with h | h
        · exact absurd h.symm hxb
        · exact h
      rw [idxOf_cons_of_ne _ _ _ hxa, idxOf_cons_of_ne _ _ _ hxb]
      exact Nat.succ_lt_succ (ih hp.2 har hbr)

/-- scoped 4 (disposable) consumes scoped 3 (disposable): created 3 then 4, closed 4 then 3 -/
def exOrder : List Desc :=
  [{ id := 0, ident := ⟨3, 0, 0⟩, life := .scoped, ctor := 1, kind := .plain, deps := [], disp := true },
   { id := 1, ident := ⟨4, 0, 0⟩, life := .scoped, ctor := 2, kind := .plain, deps := [{ ty := 3 }], disp := true }]
example :
    let st0 := (buildRuntime {} exOrder []).1
    let st1 := (providerCreateScope {} st0 0).1
    let st2 := (scopeGet {} st1 1 4 0).1
    (dispOf st2 1, ((closeScope {} id (closeFuel st2) st2 1).1.log.drop st2.log.length)) =
      ([1, 2], [.closed 1 2 true, .closed 1 1 true]) := by decide

end Godi.Props.C11
