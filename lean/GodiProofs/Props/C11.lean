import GodiProofs.Container.Close
/-!
# C11 — Disposal order

The disposal list of an owner is append-only in creation order (`track`, `setInstance`), so
"reverse of the list" is "reverse of creation". Dependencies are constructed before their consumer
completes (`buildArgs` runs before the constructor event), so reverse creation order closes
dependents before dependencies.
-/
namespace Godi.Props.C11
open Godi.Container

/-- REVERSE CREATION + CHILDREN FIRST: a scope's Close logs whatever closing all its children logs,
and only then its own instances — each exactly once, newest first -/
theorem children_then_own_reversed (beh : Beh) (order : List Nat → List Nat) (f : Nat) (st : State) (s : Nat)
    (h : (st.scope s).disposed = false) :
    let r1 := closeChildren beh order f (takeChildren (markDisposed st s) s) (order ((st.scope s).children.getD []))
    (closeScope beh order (f + 1) st s).1.log =
      r1.1.log ++ (((r1.1.scope s).disposables.getD []).reverse).map (closedEv beh r1.1 s) :=
  closeScope_log beh order f st s h

/-- SCOPES BEFORE SINGLETONS: the provider closes every tracked scope, then the root scope, and only
then the singletons — each exactly once, newest first -/
theorem scopes_then_singletons_reversed (beh : Beh) (order : List Nat → List Nat) (st : State) (h : st.disposed = false) :
    let st2 : State := { st with disposed := true, provScopes := none }
    let scopes := order (st.provScopes.getD [])
    let r1 := closeChildren beh order (closeFuel st2 + scopes.length + 2) st2 scopes
    let r2 := closeScope beh order (closeFuel r1.1) r1.1 rootScope
    (closeProvider beh order st).1.log =
      r2.1.log ++ ((r2.1.provDisposables.getD []).reverse).map (closedEv beh r2.1 providerOwner) :=
  closeProvider_log beh order st h

/-- the list is append-only in creation order: tracking a new disposable puts it last -/
theorem track_appends (st : State) (s : Nat) (i : Inst) (h : (st.scope s).disposed = false) :
    (((track st s (.inst i) true).1).scope s).disposables = some (((st.scope s).disposables.getD []) ++ [i]) := by
  unfold track; simp [h, updScope]

example : (closeScope {} id 3
    { scope := fun x => if x = 1 then { disposables := some [4, 5, 9] } else {} , nscopes := 2 } 1).1.log =
    [.closed 1 9 true, .closed 1 5 true, .closed 1 4 true] := by decide

end Godi.Props.C11
