import GodiProofs.Container.Close
import GodiProofs.Container.Order
import GodiProofs.Container.HypSound
/-!
# C11 — Disposal order

The disposal list of an owner is append-only in creation order (`track`, `setInstance`), so
"reverse of the list" is "reverse of creation". Dependencies are constructed before their consumer
completes (`buildArgs` runs before the constructor event), so reverse creation order closes
dependents before dependencies.
-/
namespace Godi.Props.C11
open Godi.Container

/-- REVERSE CREATION + CHILDREN FIRST: a scope's Close logs whatever closing all its children logs,
and only then its own instances — each exactly once, newest first -/
theorem children_then_own_reversed (beh : Beh) (order : List Nat → List Nat) (f : Nat) (st : State) (s : Nat)
    (h : (st.scope s).disposed = false) :
    let r1 := closeChildren beh order f (takeChildren (markDisposed st s) s) (order ((st.scope s).children.getD []))
    (closeScope beh order (f + 1) st s).1.log =
      r1.1.log ++ (((r1.1.scope s).disposables.getD []).reverse).map (closedEv beh r1.1 s) :=
  closeScope_log beh order f st s h

/-- SCOPES BEFORE SINGLETONS: the provider closes every tracked scope, then the root scope, and only
then the singletons — each exactly once, newest first -/
theorem scopes_then_singletons_reversed (beh : Beh) (order : List Nat → List Nat) (st : State) (h : st.disposed = false) :
    let st2 : State := { st with disposed := true, provScopes := none }
    let scopes := order (st.provScopes.getD [])
    let r1 := closeChildren beh order (closeFuel st2 + scopes.length + 2) st2 scopes
    let r2 := closeScope beh order (closeFuel r1.1) r1.1 rootScope
    (closeProvider beh order st).1.log =
      r2.1.log ++ ((r2.1.provDisposables.getD []).reverse).map (closedEv beh r2.1 providerOwner) :=
  closeProvider_log beh order st h

/-- the list is append-only in creation order: tracking a new disposable puts it last -/
theorem track_appends (st : State) (s : Nat) (i : Inst) (h : (st.scope s).disposed = false) :
    (((track st s (.inst i) true).1).scope s).disposables = some (((st.scope s).disposables.getD []) ++ [i]) := by
  unfold track; simp [h, updScope]

example : (closeScope {} id 3
    { scope := fun x => if x = 1 then { disposables := some [4, 5, 9] } else {} , nscopes := 2 } 1).1.log =
    [.closed 1 9 true, .closed 1 5 true, .closed 1 4 true] := by decide

/-! ### over Build and all histories: the lists are in creation order (`Container/Order.lean`) -/

/-- CREATION ORDER: in the state a successful Build returns and after every history of resolutions, scope creations
(failing initializers included) and closes, the disposal list of every scope is strictly increasing in instance id.
Ids are handed out by the container's counter when a constructor has returned, so the list is the order in which
the scope's disposable instances were created (arguments first: they exist before the constructor that receives
them returns). -/
theorem disposal_lists_in_creation_order (beh : Beh) (descs : List Desc) (order : List Nat) (ops : List Op)
    (hyp : failedHyps descs = []) (hok : (buildRuntime beh descs order).2 = .ok ()) (s : Nat) :
    let st := run beh (buildRuntime beh descs order).1 ops
    (dispOf st s).Pairwise (· < ·) ∧ ∀ i ∈ dispOf st s, i < st.next := by
  obtain ⟨wf, rw', is, idist, _⟩ := hyps_of_check hyp
  obtain ⟨_, hsucc, _⟩ := build_ledger beh descs order wf rw' is idist
  obtain ⟨_, _, hdescs, hinit, _⟩ := hsucc hok
  have hb : buildRuntime beh descs order = ((buildRuntime beh descs order).1, .ok ()) := by
    cases h : buildRuntime beh descs order with
    | mk a b => rw [h] at hok; simp only at hok; subst hok; rfl
  have h0 := sd_buildRuntime beh descs is order _ hb
  exact sd_run beh descs is ops _ hdescs (by rw [hdescs]; exact wf) hinit h0 s

/-- REVERSE OF CREATION, for every Close in every history: `Close` of an open scope first logs whatever closing its
children logs, then one `closed` event per instance of its own disposal list `L`, in the order `L.reverse` — and `L`
is in creation order. So the scope's own instances are closed in exactly the reverse of the order in which they
were created: newest first, every instance before the instances that existed when it was constructed. -/
theorem own_instances_closed_in_reverse_creation_order (beh : Beh) (descs : List Desc) (order : List Nat) (ops : List Op)
    (hyp : failedHyps descs = []) (hok : (buildRuntime beh descs order).2 = .ok ())
    (corder : List Nat → List Nat) (s : Nat) :
    let st := run beh (buildRuntime beh descs order).1 ops
    (st.scope s).disposed = false →
    ∃ (before : List Event) (st1 : State) (L : List Inst), L.Pairwise (· < ·) ∧
      (closeScope beh corder (closeFuel st) st s).1.log = before ++ (L.reverse).map (closedEv beh st1 s) := by
  intro st hopen
  obtain ⟨f, hf⟩ : ∃ f, closeFuel st = f + 1 := ⟨closeFuel st - 1, by unfold closeFuel; omega⟩
  rw [hf]
  have hlog := closeScope_log beh corder f st s hopen
  simp only [] at hlog
  have sd0 : SD st := fun x => disposal_lists_in_creation_order beh descs order ops hyp hok x
  have sd1 : SD (takeChildren (markDisposed st s) s) := by
    refine sd_of_fields (st := st) (fun x => ?_) rfl sd0
    unfold takeChildren markDisposed
    rw [scope_upd]; split
    next hx => subst hx; rw [scope_upd]; simp
    · rw [scope_upd]; split
      next hx => exact absurd hx ‹_›
      · rfl
  have sd2 := ((dispShrink_close beh corder f).2 (takeChildren (markDisposed st s) s)
    (corder ((st.scope s).children.getD []))).sd sd1
  exact ⟨_, _, _, (sd2 s).1, hlog⟩

/-- scoped 4 (disposable) consumes scoped 3 (disposable): created 3 then 4, closed 4 then 3 -/
def exOrder : List Desc :=
  [{ id := 0, ident := ⟨3, 0, 0⟩, life := .scoped, ctor := 1, kind := .plain, deps := [], disp := true },
   { id := 1, ident := ⟨4, 0, 0⟩, life := .scoped, ctor := 2, kind := .plain, deps := [{ ty := 3 }], disp := true }]
example :
    let st0 := (buildRuntime {} exOrder []).1
    let st1 := (providerCreateScope {} st0 0).1
    let st2 := (scopeGet {} st1 1 4 0).1
    (dispOf st2 1, ((closeScope {} id (closeFuel st2) st2 1).1.log.drop st2.log.length)) =
      ([1, 2], [.closed 1 2 true, .closed 1 1 true]) := by decide

end Godi.Props.C11
