import GodiProofs.Container.Terminates
import GodiProofs.Container.HypSound
/-!
# C05 (container clauses) — Build's cycle verdict is exact; resolution terminates

* phase 2 of `doBuild` reports "circular" exactly when the graph phase 1 recorded — one node per
  registration, one per group, edges to every declared dependency and from a group to each member —
  has a directed cycle (`build_circular_iff`, `build_graph_is_declared_relation`);
* **consequently every resolution terminates**: for every registry that passes that check (and has the
  structural guarantees of the collection, which `p hyp` evaluates on every registry godi produces), every
  state over it, every scope, every constructor behaviour and every request, the unguarded recursion
  `resolve → createInstance → buildArguments → resolve` is *settled* at the fuel the model runs on: any
  larger fuel yields the same state and the same answer, and the answer is never "out of fuel"
  (`resolution_terminates`, `group_resolution_terminates`, `construction_terminates`).
  The fuel is only the model's device; what the theorem says about the Go code is that its recursion
  reaches a result after finitely many calls.
* on a cyclic registry the premise fails for a reason: `cyclic_registry_is_not_settled` exhibits a
  two-registration cycle on which more fuel keeps changing the outcome.
-/
namespace Godi.Props.C05b
open Godi.Container Godi.Graph Godi.Spec
open Godi.Kahn (Key)

/-- the graph phase 1 builds is the declared dependency relation (`EdgeRel`: a registration's node points to the
identity of each declared dependency, a group's node to each of its members) -/
theorem build_graph_is_declared_relation (descs : List Desc) (hk : KeysDistinct descs) (a b : Key) :
    b ∈ (buildGraph descs).edges a ↔ EdgeRel descs a b := by
  rw [buildGraph_edge_mem descs hk, graphInput_edge_iff]

/-- EXACT: the verdict is "circular" iff that relation has a directed cycle -/
theorem build_circular_iff (descs : List Desc) :
    verdict descs = .circular ↔ HasCycle (abs (buildGraph descs)) := by
  have h := cycle_phase_exact descs
  unfold verdict
  cases hd : (detectCycles (buildGraph descs)).2 with
  | ok =>
    have hn := h.1 hd
    constructor
    · intro hv
      by_cases h1 : lifetimeConflict descs = true <;> by_cases h2 : missingDependency descs = true <;> simp [h1, h2] at hv
    · intro hc; exact absurd hc hn
  | fuel =>
    have : ¬ ¬ HasCycle (abs (buildGraph descs)) := fun hn => by have := h.2 hn; rw [hd] at this; cases this
    exact ⟨fun _ => Classical.byContradiction this, fun _ => rfl⟩
  | cycle k p =>
    have : ¬ ¬ HasCycle (abs (buildGraph descs)) := fun hn => by have := h.2 hn; rw [hd] at this; cases this
    exact ⟨fun _ => Classical.byContradiction this, fun _ => rfl⟩

/-- a registry that passes the cycle check has a rank that strictly decreases along every declared
dependency (plain, keyed, parameter-object field, and every member of a group) -/
theorem accepted_registry_is_ranked (descs : List Desc) (hyp : failedHyps descs = [])
    (hv : verdict descs ≠ .circular) : ∃ rank, Ranked descs rank := by
  obtain ⟨_, _, _, _, hk, _, _, _, hs, hdk⟩ := hyps_of_check hyp
  exact ⟨_, ranked_of_verdict descs hk hs hdk hv⟩

/-- RESOLUTION TERMINATES (`Get`, `GetKeyed`, and every dependency resolved on the way) -/
theorem resolution_terminates (beh : Beh) (descs : List Desc) (hyp : failedHyps descs = [])
    (hv : verdict descs ≠ .circular) (st : State) (hst : st.descs = descs) (s ty key : Nat) :
    (∀ f, fuelFor st ≤ f → resolve beh f st s ty key = scopeGet beh st s ty key) ∧
    noFuel (scopeGet beh st s ty key).2 = true := by
  obtain ⟨rank, hr⟩ := accepted_registry_is_ranked descs hyp hv
  exact resolve_settled beh descs rank hr st hst s ty key

/-- … `GetGroup` -/
theorem group_resolution_terminates (beh : Beh) (descs : List Desc) (hyp : failedHyps descs = [])
    (hv : verdict descs ≠ .circular) (st : State) (hst : st.descs = descs) (s ty grp : Nat) :
    (∀ f, fuelFor st ≤ f → getGroup beh f st s ty grp = scopeGetGroup beh st s ty grp) ∧
    noFuel (scopeGetGroup beh st s ty grp).2 = true := by
  obtain ⟨rank, hr⟩ := accepted_registry_is_ranked descs hyp hv
  exact getGroup_settled beh descs rank hr st hst s ty grp

/-- … the constructions Build (singletons) and scope creation (initializers) start -/
theorem construction_terminates (beh : Beh) (descs : List Desc) (hyp : failedHyps descs = [])
    (hv : verdict descs ≠ .circular) (st : State) (hst : st.descs = descs) (s : Nat) (d : Desc) (hd : d ∈ descs) :
    (∀ f, fuelFor st ≤ f → createInstance beh f st s d = createInstance beh (fuelFor st) st s d) ∧
    noFuel (createInstance beh (fuelFor st) st s d).2 = true := by
  obtain ⟨rank, hr⟩ := accepted_registry_is_ranked descs hyp hv
  exact createInstance_settled beh descs rank hr st hst s d hd

/-- a successful Build is one of the accepted registries -/
theorem successful_build_is_accepted (beh : Beh) (descs : List Desc) (order : List Nat) (st : State)
    (h : build beh descs order = (st, .ok ())) : verdict descs ≠ .circular := by
  intro hc
  unfold build at h
  rw [hc] at h
  simp at h

/-! ### non-vacuity, and why the premise is needed -/

/-- scoped 5 ← (scoped 6, group (7, 1)), 6 ← singleton 8, two members of group (7,1) of which one needs 8 -/
def exAcyclic : List Desc :=
  [{ id := 0, ident := ⟨5, 0, 0⟩, life := .scoped, ctor := 1, kind := .plain, deps := [{ ty := 6 }, { ty := 7, grp := 1 }, { ty := tyCtx }] },
   { id := 1, ident := ⟨6, 0, 0⟩, life := .scoped, ctor := 2, kind := .plain, deps := [{ ty := 8 }] },
   { id := 2, ident := ⟨8, 0, 0⟩, life := .singleton, ctor := 3, kind := .plain, deps := [] },
   { id := 3, ident := ⟨7, 1, 1⟩, life := .transient, ctor := 4, kind := .plain, deps := [{ ty := 8 }] },
   { id := 4, ident := ⟨7, 2, 1⟩, life := .transient, ctor := 5, kind := .plain, deps := [] }]

example : failedHyps exAcyclic = [] := by decide
example : verdict exAcyclic = .ok := by decide

/-- A needs B, B needs A (both scoped): Build answers "circular" … -/
def exCyclic : List Desc :=
  [{ id := 0, ident := ⟨5, 0, 0⟩, life := .scoped, ctor := 1, kind := .plain, deps := [{ ty := 6 }] },
   { id := 1, ident := ⟨6, 0, 0⟩, life := .scoped, ctor := 2, kind := .plain, deps := [{ ty := 5 }] }]

example : failedHyps exCyclic = [] := by decide
example : verdict exCyclic = .circular := by decide

/-- … and if it did not, resolution would not settle: with 9 and with 12 units of fuel the recursion is cut at
different depths and reports different error chains (there is no result a larger fuel would confirm) -/
def errOf (r : Except Err Val) : Err := match r with | .error e => e | .ok _ => []

theorem cyclic_registry_is_not_settled :
    errOf (resolve {} 9 { descs := exCyclic, nscopes := 1 } 0 5 0).2 ≠
    errOf (resolve {} 12 { descs := exCyclic, nscopes := 1 } 0 5 0).2 := by
  decide

end Godi.Props.C05b
