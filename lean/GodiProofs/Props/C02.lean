import GodiProofs.Container.Instances
/-!
# C02 — Scoped: one instance per scope, never shared between scopes (sequential clauses)

The concurrent clause (any number of goroutines resolving one scoped registration in one scope get
one instance; a failed construction caches nothing and is retried) is `C02_one_per_scope_conc` in
the interleaving model M6 (creation lock per registration and scope).
-/
namespace Godi.Props.C02
open Godi.Container

/-- CACHE HIT: once a scope's cache holds an instance for a scoped identity, every resolution of it
in that scope — direct, keyed, as a group member (`resolveMembers` calls `resolveDesc`), or as a
constructor argument (`buildArgs` calls `resolve`) — returns that instance and constructs nothing -/
theorem cache_hit (beh : Beh) (st : State) (s f : Nat) (d : Desc) (v : Val) (hl : d.life = .scoped)
    (hc : lookup ((st.scope s).instances.getD []) d.ident = some v) :
    resolveDesc beh (f + 1) st s d = (st, .ok v) := by
  unfold resolveDesc; simp [hl, hc]

/-- CACHED ON CREATION: storing a scoped instance in an open scope makes the cache answer it -/
theorem stored_is_cached (st : State) (s : Nat) (d : Desc) (v : Val) (hl : d.life = .scoped)
    (m : List (Ident × Val)) (hm : (st.scope s).instances = some m) :
    lookup (((setInstance st s d d.ident v).1.scope s).instances.getD []) d.ident = some v := by
  rw [setInstance_scoped_cached st s d v hl m hm]
  exact lookup_put_self m d.ident v

/-- … and a write for another identity does not disturb it -/
theorem other_identity_undisturbed (m : List (Ident × Val)) (k k' : Ident) (v : Val) (h : k' ≠ k) :
    lookup (cachePut m k v) k' = lookup m k' := lookup_put_ne m k k' v h

/-- NOT SHARED: whatever is resolved through scope `s` — for every registry, behaviour and fuel —
leaves every other scope (siblings, parent, children, the root scope) exactly as it was; in
particular nothing created in `s` ever enters another scope's cache or disposal list -/
theorem other_scopes_untouched (beh : Beh) (st : State) (s ty key : Nat) (wf : WF st.descs) (x : Nat) (hx : x ≠ s) :
    (scopeGet beh st s ty key).1.scope x = st.scope x :=
  ((frame beh _).1 st s ty key wf).others x hx

theorem other_scopes_untouched_group (beh : Beh) (st : State) (s ty grp : Nat) (wf : WF st.descs) (x : Nat) (hx : x ≠ s) :
    (scopeGetGroup beh st s ty grp).1.scope x = st.scope x :=
  ((frame beh _).2.2.1 st s ty grp wf).others x hx

/-- a new scope starts with an empty cache and an empty disposal list -/
theorem new_scope_is_empty (st : State) (parent : Option Nat) (ctx : Nat) :
    ((allocScope st parent ctx).scope st.nscopes).instances = some [] ∧
    ((allocScope st parent ctx).scope st.nscopes).disposables = some [] := by
  simp [allocScope]

/-- a failed construction caches nothing: when the constructor returns an error or panics, the
cache of the scope is what argument building left (so a retry behaves like a first attempt) -/
theorem failed_construction_not_cached (beh : Beh) (f : Nat) (st : State) (s : Nat) (d : Desc)
    (hk : ∀ v, d.kind ≠ .inst v) (args : List Val)
    (ha : (buildArgs beh f st s d.deps []).2 = .ok args)
    (hb : beh.ctor d.ctor ((buildArgs beh f st s d.deps []).1.invs d.ctor + 1) ≠ .ok) :
    ((createInstance beh (f + 1) st s d).1.scope s).instances =
      ((buildArgs beh f st s d.deps []).1.scope s).instances ∧
    ∃ e, (createInstance beh (f + 1) st s d).2 = .error e := by
  unfold createInstance
  split
  next v hv => exact absurd hv (hk v)
  · simp only [ha]
    have hn : (bumpInv (buildArgs beh f st s d.deps []).1 d.ctor).invs d.ctor =
        (buildArgs beh f st s d.deps []).1.invs d.ctor + 1 := by simp [bumpInv]
    rw [hn]
    split
    · exact ⟨rfl, _, rfl⟩
    · exact ⟨rfl, _, rfl⟩
    · exact ⟨rfl, _, rfl⟩
    next hok => exact absurd hok hb

/-- INITIALIZERS: `newScope` runs the registered initializers once, at creation, in that scope -/
theorem initializers_run_at_creation (beh : Beh) (st : State) (parent : Option Nat) (ctx : Nat) :
    newScope beh st parent ctx true =
      (match (runInitializers beh (allocScope st parent ctx) st.nscopes st.initializers).2 with
       | .ok _ => ((runInitializers beh (allocScope st parent ctx) st.nscopes st.initializers).1, .ok st.nscopes)
       | .error e => ((closeScope beh id (closeFuel (runInitializers beh (allocScope st parent ctx) st.nscopes st.initializers).1)
            (runInitializers beh (allocScope st parent ctx) st.nscopes st.initializers).1 st.nscopes).1, .error e)) := by
  unfold newScope
  simp only [↓reduceIte]
  rfl

def ex : List Desc :=
  [{ id := 0, ident := ⟨3, 0, 0⟩, life := .scoped, ctor := 1, kind := .plain, deps := [] }]
/-- two resolutions in one scope: one constructor event; a second scope: its own instance -/
example : let st := (providerCreateScope {} (providerCreateScope {} (buildRuntime {} ex []).1 0).1 0).1
    (scopeGet {} (scopeGet {} (scopeGet {} st 1 3 0).1 1 3 0).1 2 3 0).1.log =
      [.ctor 0 1 1 1 [] [1], .ctor 0 1 2 2 [] [2]] := by decide

end Godi.Props.C02
