import GodiProofs.Container.Instances
import GodiProofs.Container.ScopedHistory
import GodiProofs.Container.ScopedInit
/-!
# C02 — Scoped: one instance per scope, never shared between scopes (sequential clauses)

The concurrent clause (any number of goroutines resolving one scoped registration in one scope get
one instance; a failed construction caches nothing and is retried) is `C02_one_per_scope_conc` in
the interleaving model M6 (creation lock per registration and scope).
-/
namespace Godi.Props.C02
open Godi.Container

/-- CACHE HIT: once a scope's cache holds an instance for a scoped identity, every resolution of it
in that scope — direct, keyed, as a group member (`resolveMembers` calls `resolveDesc`), or as a
constructor argument (`buildArgs` calls `resolve`) — returns that instance and constructs nothing -/
theorem cache_hit (beh : Beh) (st : State) (s f : Nat) (d : Desc) (v : Val) (hl : d.life = .scoped)
    (hc : lookup ((st.scope s).instances.getD []) d.ident = some v) (hva : v ≠ .absent) :
    resolveDesc beh (f + 1) st s d = (st, .ok v) := by
  unfold resolveDesc; simp only [hl, hc]

/-- ... and an identity whose result-object field the constructor left nil is remembered as constructed:
resolving it reports a validation error and constructs nothing (the repair of D15) -/
theorem nil_field_not_constructed_again (beh : Beh) (st : State) (s f : Nat) (d : Desc) (hl : d.life = .scoped)
    (hc : lookup ((st.scope s).instances.getD []) d.ident = some .absent) :
    resolveDesc beh (f + 1) st s d = (st, .error [.validation]) := by
  unfold resolveDesc; simp only [hl, hc]

/-- CACHED ON CREATION: storing a scoped instance in an open scope makes the cache answer it -/
theorem stored_is_cached (st : State) (s : Nat) (d : Desc) (v : Val) (hl : d.life = .scoped)
    (m : List (Ident × Val)) (hm : (st.scope s).instances = some m) :
    lookup (((setInstance st s d d.ident v).1.scope s).instances.getD []) d.ident = some v := by
  rw [setInstance_scoped_cached st s d v hl m hm]
  exact lookup_put_self m d.ident v

/-- … and a write for another identity does not disturb it -/
theorem other_identity_undisturbed (m : List (Ident × Val)) (k k' : Ident) (v : Val) (h : k' ≠ k) :
    lookup (cachePut m k v) k' = lookup m k' := lookup_put_ne m k k' v h

/-- NOT SHARED: whatever is resolved through scope `s` — for every registry, behaviour and fuel —
leaves every other scope (siblings, parent, children, the root scope) exactly as it was; in
particular nothing created in `s` ever enters another scope's cache or disposal list -/
theorem other_scopes_untouched (beh : Beh) (st : State) (s ty key : Nat) (wf : WF st.descs) (x : Nat) (hx : x ≠ s) :
    (scopeGet beh st s ty key).1.scope x = st.scope x :=
  ((frame beh _).1 st s ty key wf).others x hx

theorem other_scopes_untouched_group (beh : Beh) (st : State) (s ty grp : Nat) (wf : WF st.descs) (x : Nat) (hx : x ≠ s) :
    (scopeGetGroup beh st s ty grp).1.scope x = st.scope x :=
  ((frame beh _).2.2.1 st s ty grp wf).others x hx

/-- a new scope starts with an empty cache and an empty disposal list -/
theorem new_scope_is_empty (st : State) (parent : Option Nat) (ctx : Nat) :
    ((allocScope st parent ctx).scope st.nscopes).instances = some [] ∧
    ((allocScope st parent ctx).scope st.nscopes).disposables = some [] := by
  simp [allocScope]

/-- a failed construction caches nothing: when the constructor returns an error or panics, the
cache of the scope is what argument building left (so a retry behaves like a first attempt) -/
theorem failed_construction_not_cached (beh : Beh) (f : Nat) (st : State) (s : Nat) (d : Desc)
    (hk : ∀ v, d.kind ≠ .inst v) (args : List Val)
    (ha : (buildArgs beh f st s d.deps []).2 = .ok args)
    (hb : beh.ctor d.ctor ((buildArgs beh f st s d.deps []).1.invs d.ctor + 1) ≠ .ok) :
    ((createInstance beh (f + 1) st s d).1.scope s).instances =
      ((buildArgs beh f st s d.deps []).1.scope s).instances ∧
    ∃ e, (createInstance beh (f + 1) st s d).2 = .error e := by
  unfold createInstance
  split
  next v hv => exact absurd hv (hk v)
  · simp only [ha]
    have hn : (bumpInv (buildArgs beh f st s d.deps []).1 d.ctor).invs d.ctor =
        (buildArgs beh f st s d.deps []).1.invs d.ctor + 1 := by simp [bumpInv]
    rw [hn]
    split
    · exact ⟨rfl, _, rfl⟩
    · exact ⟨rfl, _, rfl⟩
    · exact ⟨rfl, _, rfl⟩
    next hok => exact absurd hok hb

/-- INITIALIZERS: `newScope` runs the registered initializers once, at creation, in that scope -/
theorem initializers_run_at_creation (beh : Beh) (st : State) (parent : Option Nat) (ctx : Nat) :
    newScope beh st parent ctx true =
      (match (runInitializers beh (allocScope st parent ctx) st.nscopes st.initializers).2 with
       | .ok _ => ((runInitializers beh (allocScope st parent ctx) st.nscopes st.initializers).1, .ok st.nscopes)
       | .error e => ((closeScope beh id (closeFuel (runInitializers beh (allocScope st parent ctx) st.nscopes st.initializers).1)
            (runInitializers beh (allocScope st parent ctx) st.nscopes st.initializers).1 st.nscopes).1, .error e)) := by
  unfold newScope
  simp only [↓reduceIte]
  rfl

/-- ONE INSTANCE PER SCOPE, for whole histories. `Cfg descs rank`: the structural facts the collection
guarantees (`WF`, `RegWF`) and a rank on constructors that strictly decreases along every declared
dependency (plain, keyed, group member, parameter-object field) — it exists exactly when the
dependency relation is acyclic, which Build has checked. For every such registry, every constructor
behaviour (failures and panics at any invocation, result-object fields left nil at any invocation), every state satisfying the invariant and every history of
Get / GetKeyed / GetGroup / CreateScope / Close over existing scopes: in no scope does the
constructor of a scoped registration succeed twice, and once it has succeeded every identity of the
registration (aliases, multiple returns, result fields) is cached in that scope, so every later
resolution there — direct, keyed, via a group, or as an argument — is a cache hit (`cache_hit`).
(Registries with scoped initializer functions: the initializer clause is `initializers_run_at_creation`;
this theorem assumes `st.initializers = []`.) -/
theorem one_instance_per_scope (beh : Beh) (descs : List Desc) (rank : Nat → Nat)
    (cfg : Cfg descs rank) (st : State) (inv : SInv descs st) (hi : st.initializers = [])
    (ops : List Op) (hv : ValidHist beh st ops) (s c : Nat) (hc : ScopedCtor descs c) :
    countIn (run beh st ops).log c s ≤ 1 ∧
    (countIn (run beh st ops).log c s = 1 → ((run beh st ops).scope s).disposed = false →
      ∀ d ∈ descs, d.ctor = c → Cached (run beh st ops) s d.ident) := by
  have h := sinv_run beh descs rank cfg ops st inv hi hv
  exact ⟨h.atMost s c hc, h.stored s c hc⟩

/-- the invariant holds in every state in which no scoped constructor has run yet and every open
scope has a cache — in particular right after the provider has been built -/
theorem invariant_initially (descs : List Desc) (st : State) (hd : st.descs = descs)
    (hz : ∀ c s, ScopedCtor descs c → countIn st.log c s = 0)
    (hf : ∀ s, st.nscopes ≤ s → ∀ c, countIn st.log c s = 0)
    (ho : ∀ s, (st.scope s).disposed = false → ∃ m, (st.scope s).instances = some m) : SInv descs st :=
  ⟨hd, fun s c hc => by rw [hz c s hc]; exact Nat.zero_le _,
   fun s c hc h1 => by rw [hz c s hc] at h1; exact absurd h1 (by decide), ho, hf⟩

/-- one resolution step inside a scope, with the rank bound made explicit: every constructor event it
adds ran through that scope, and the invariant is preserved — for every fuel -/
theorem resolution_preserves (beh : Beh) (descs : List Desc) (rank : Nat → Nat)
    (cfg : Cfg descs rank) (st : State) (inv : SInv descs st) (s ty key : Nat) (hs : s < st.nscopes) :
    SInv descs (scopeGet beh st s ty key).1 :=
  sinv_scopeGet beh descs rank cfg st inv s ty key hs

def ex : List Desc :=
  [{ id := 0, ident := ⟨3, 0, 0⟩, life := .scoped, ctor := 1, kind := .plain, deps := [] }]
/-- two resolutions in one scope: one constructor event; a second scope: its own instance -/
example : let st := (providerCreateScope {} (providerCreateScope {} (buildRuntime {} ex []).1 0).1 0).1
    (scopeGet {} (scopeGet {} (scopeGet {} st 1 3 0).1 1 3 0).1 2 3 0).1.log =
      [.ctor 0 1 1 1 [] [1], .ctor 0 1 2 2 [] [2]] := by decide

/-- ONE INSTANCE PER SCOPE, registries WITH scope initializers (`Container/ScopedInit.lean`): the hypothesis
`st.initializers = []` of `one_instance_per_scope` is replaced by `InitsRanked`: the initializer ids name scoped
registrations, and the rank increases strictly along the initializer list (nothing depends on a registration that
provides no service, so a rank that witnesses acyclicity can always be arranged that way). Then every CreateScope of the
history runs each initializer in the fresh scope — closing the scope again when one fails — and still no scoped
constructor, an initializer's included, succeeds twice in one scope. -/
theorem one_instance_per_scope_with_initializers (beh : Beh) (descs : List Desc) (rank : Nat → Nat)
    (cfg : Cfg descs rank) (st : State) (inv : SInv descs st) (hi : InitsRanked descs rank st.initializers)
    (ops : List Op) (hv : ValidHist beh st ops) (s c : Nat) (hc : ScopedCtor descs c) :
    countIn (run beh st ops).log c s ≤ 1 ∧
    (countIn (run beh st ops).log c s = 1 → ((run beh st ops).scope s).disposed = false →
      ∀ d ∈ descs, d.ctor = c → Cached (run beh st ops) s d.ident) := by
  have h := sinv_run_init beh descs rank cfg ops st inv hi hv
  exact ⟨h.atMost s c hc, h.stored s c hc⟩

/-- … and the state Build hands over satisfies the invariant: running the initializers in the root scope of a state
in which they have not run there yet (`invariant_initially`) preserves it -/
theorem root_initializers_preserve (beh : Beh) (descs : List Desc) (rank : Nat → Nat) (cfg : Cfg descs rank)
    (st : State) (inv : SInv descs st) (ho : OpenCache st rootScope) (hs : rootScope < st.nscopes) (inits : List Nat)
    (hi : InitsRanked descs rank inits)
    (hz : ∀ id ∈ inits, ∀ d, findDesc descs id = some d → countIn st.log d.ctor rootScope = 0) :
    SInv descs (runInitializers beh st rootScope inits).1 :=
  (sinv_runInitializers beh descs rank cfg rootScope inits st inv ho hs hi hz).1

/-- a scoped service (constructor 1) and two initializers that both take it (constructors 2 and 3) -/
def exInit : List Desc :=
  [{ id := 0, ident := ⟨3, 0, 0⟩, life := .scoped, ctor := 1, kind := .plain, deps := [] },
   { id := 1, ident := ⟨20, 0, 0⟩, life := .scoped, ctor := 2, kind := .void, deps := [{ ty := 3 }] },
   { id := 2, ident := ⟨21, 0, 0⟩, life := .scoped, ctor := 3, kind := .void, deps := [{ ty := 3 }] }]
/-- non-vacuity of `InitsRanked`: the rank "constructor number" increases along the initializer list [1, 2] -/
example : InitsRanked exInit (fun c => c) [1, 2] := by
  refine ⟨fun d h => ?_, ⟨fun d h => ?_, trivial⟩⟩
  · have e : d = { id := 1, ident := ⟨20, 0, 0⟩, life := .scoped, ctor := 2, kind := .void, deps := [{ ty := 3 }] } := by
      simp [findDesc, exInit] at h; exact h.symm
    subst e
    refine ⟨rfl, ?_⟩
    intro id' hid' d' hd'
    simp only [List.mem_singleton] at hid'
    subst hid'
    have e' : d' = { id := 2, ident := ⟨21, 0, 0⟩, life := .scoped, ctor := 3, kind := .void, deps := [{ ty := 3 }] } := by
      simp [findDesc, exInit] at hd'; exact hd'.symm
    subst e'
    decide
  · have e : d = { id := 2, ident := ⟨21, 0, 0⟩, life := .scoped, ctor := 3, kind := .void, deps := [{ ty := 3 }] } := by
      simp [findDesc, exInit] at h; exact h.symm
    subst e
    exact ⟨rfl, fun id' hid' => by cases hid'⟩
/-- Build runs both initializers in the root scope (s0); a new scope runs them again, there: the service they share is
constructed once per scope, each initializer once per scope -/
example : let st := (providerCreateScope {} (buildRuntime {} exInit []).1 0).1
    st.initializers = [1, 2] ∧
    (countIn st.log 1 0, countIn st.log 2 0, countIn st.log 3 0, countIn st.log 1 1, countIn st.log 2 1, countIn st.log 3 1) =
      (1, 1, 1, 1, 1, 1) := by decide

end Godi.Props.C02
