"""Which theorems, generators and harness streams decide which property; evidence assembly."""
import json, os

ROOT = os.path.dirname(os.path.dirname(os.path.abspath(__file__)))

GRAPH_STREAM = dict(
    name='graph', pkg='internal/graph', files=['harness/graph/vg_graph_test.go'], test='TestVerifGraph',
    corpus='corpus/graph', new_marker='g new',
    env=dict(quick=dict(VERIF_DIGRAPH_N=3, VERIF_OPSEQ_LEN=2, VERIF_RANDOM=400, VERIF_BIGRANDOM=400, VERIF_OVERLAP=48),
             thorough=dict(VERIF_DIGRAPH_N=4, VERIF_OPSEQ_LEN=3, VERIF_RANDOM=6000, VERIF_BIGRANDOM=6000, VERIF_OVERLAP=600)),
    # which op lines matter to which property when only the correspondence (not a monitor) breaks
    # C06: Kahn's sort reads the derived fields (Dependents, degrees): `Synced` is a hypothesis of topo_valid, so a
    # divergence of those queries (dependents, roots, leaves, node) breaks C06's tie as well
    prop_ops=dict(C05=r'^g (detect|add |addd |new|topo)', C06=r'^g (topo|addd |add |new|detect|rm|dependents|roots|leaves|node)', C19=None),
    rule='graph op sequences: corpus, every digraph on <=N nodes (deferred and immediate construction), every op '
         'sequence of length L over 3 identities with all queries after each step, random sequences over a pool of 7 '
         '(type,key,group) identities, random 7-node DAGs/cyclic graphs; overlap rounds (one goroutine asks DetectCycles/'
         'IsAcyclic/TopologicalSort/Size while another performs one mutation of a 200-600 node chain: answers during the '
         'overlap must hold before or after the mutation, answers afterwards must equal the reference digraph); '
         'a scenario is non-trivial when it has at least one edge',
)

CORE_STREAM = dict(
    name='core', pkg='.', files=['harness/core/vp_core_test.go', 'harness/core/vp_types_test.go'], test='TestVerifCore',
    corpus='corpus/core', new_marker='p new', only_env='VERIF_CORE_ONLY',
    env=dict(quick=dict(VERIF_CORE_N=1500), thorough=dict(VERIF_CORE_N=20000)),
    rule='container scenarios: random registration sets over 12 service types / 3 interfaces (plain, keyed, grouped, aliased, '
         'multi-return, result-object, instance-valued, initializer forms; In structs with name/group/optional tags; every '
         'constructor also takes Scope and context.Context), 1/5 with seeded defects (cycles, lifetime conflicts, missing '
         'dependencies), 1/3 with constructor/Close faults; then Build and a random history of CreateScope (nested, with '
         'contexts) / Get / GetKeyed / GetGroup / Close / cancel / Provider.Close; non-trivial = Build succeeded and a history ran',
)

CONTAINER_PROPS = ['C01', 'C02', 'C03', 'C04', 'C07', 'C08', 'C10', 'C11', 'C12', 'C13', 'C14', 'C15', 'C18']
COLL_STREAM = dict(
    name='coll', pkg='', files=['harness/coll/vc_coll_test.go'], test='TestVerifColl$',
    corpus='corpus/coll', new_marker='c new',
    # VERIF_COLL_GHOSTS=1: /repo is repaired (fix: a removed output ... no longer receives an instance), the generators no longer avoid D25
    env=dict(quick=dict(VERIF_COLL_EXH=2, VERIF_COLL_RANDOM=250, VERIF_COLL_MODS=120, VERIF_COLL_GHOSTS=1),
             thorough=dict(VERIF_COLL_EXH=3, VERIF_COLL_RANDOM=2500, VERIF_COLL_MODS=1200, VERIF_COLL_GHOSTS=1)),
    # a wrong ModuleError wrapping shows on the `c mods` line only; everything else is the registry
    prop_ops=dict(C17=r'^c (?!mods|def)', C20=r'^c (mods|def|new)'),
    rule='collection op sequences: corpus (D11/D12/D13/D25/D26 regressions, nested modules), every sequence of length L over 15 colliding calls '
         '(plain/named/grouped/multi-return/result-object/alias adds, removes, a nested module, Build), random sequences '
         'over 6 service types + 2 interfaces + reserved types, 2 names, 2 groups, 3 lifetimes, valid and invalid option '
         'combinations, nil/typed-nil constructors, instances, void constructors; random module trees (depth <= 5, nil '
         'entries, Remove/RemoveKeyed entries, failing entries at any position) run against their flattening on a twin '
         'collection; all queries after every step; Build followed by edits and resolution on the old provider. '
         'A scenario is non-trivial when it has at least one accepted and one rejected registration',
)

def _mw_stream(fw):
    return dict(
        name='mw-' + fw, pkg=fw, test='TestVerifMw', corpus='corpus/mw', new_marker='mw new',
        files=['harness/mw/%s/vm_common_test.go' % fw, 'harness/mw/%s/vm_%s_test.go' % (fw, fw)],
        env=dict(quick=dict(VERIF_MW_MAXN=2, VERIF_MW_ALLFLAGS=0, VERIF_MW_RANDOM=400),
                 thorough=dict(VERIF_MW_MAXN=3, VERIF_MW_ALLFLAGS=1, VERIF_MW_RANDOM=4000)),
        race=dict(thorough=True), timeout='20m',
        rule='requests against the real %s stack in-process: corpus, then for every app configuration (middleware installed?, '
             '0..N configured middlewares, custom/default error, close-error, panic, scope-error and resolution-error handlers, '
             'panic recovery on/off) the sequence of all exit paths (ok, middleware error at each position, handler error, handler '
             'panic, scope-creation failure, resolution failure, Close error; plain handler and Handle wrapper; then provider closed), '
             'then random configurations (up to 15 middlewares) with random request sequences, concurrent batches of 2-4 requests that '
             'rendezvous inside the request, and provider shutdown; every scenario is non-trivial' % fw,
    )


MW_STREAMS = [_mw_stream(fw) for fw in ('http', 'chi', 'gin', 'echo', 'fiber')]

MW_GENERATORS = [
    dict(name='extract-middleware',
         cmd='rm -f lean/GodiModel/Gen/Middleware.lean && cd extract && go run . -o ../lean/GodiModel/Gen/Middleware.lean'),
    dict(name='stamp-harness-common', cmd='sh harness/mw/stamp.sh'),
]
LOCKFACTS_GEN = dict(
    name='lockfacts',
    cmd='cd extract/lockfacts && go run . -out ../../lean/GodiModel/Gen/LockFacts.lean',   # honours VERIF_REPO
)

CONC_STREAM = dict(
    name='conc', pkg='.', files=['harness/conc/vk_conc_test.go'], test='TestVerifConc$',
    corpus='corpus/conc', new_marker='k new', timeout='20m',
    env=dict(quick=dict(VERIF_CONC_ENUM=150, VERIF_CONC_RANDOM=500),
             thorough=dict(VERIF_CONC_ENUM=400, VERIF_CONC_RANDOM=1500)),
    rule='schedule-forced scenarios over one scope of a provider with scoped A(B), scoped B, a transient, a singleton and a '
         'scoped initializer: corpus of named interleavings, every schedule (up to a budget) of ten 2-3 thread programs, random '
         '2-4 thread programs (resolutions of both scoped keys incl. failing constructors, transient, singleton, child-scope '
         'creation incl. failing initializer, Close, provider.Close, context cancellation) under random schedules; goroutines '
         'park wherever the container calls user code; a scenario is non-trivial when at least two calls overlap',
)

CONC_STRESS_STREAM = dict(
    name='conc-stress', pkg='.', files=['harness/conc/vk_conc_test.go'], test='TestVerifConcStress$',
    model=False, seeded=True, replayable=False, timeout='20m',
    race=dict(quick=True, thorough=True), fail_on_rc=True,
    env=dict(quick=dict(VERIF_STRESS_ROUNDS=120), thorough=dict(VERIF_STRESS_ROUNDS=600)),
    rule='free-running stress under the race detector: 12 goroutines x 120 random operations per round',
)

CONC_REGRESS_STREAM = dict(
    name='conc-regress', pkg='.', files=['harness/conc/findings/vk_findings_test.go'], test='TestVerifConcRegress$',
    model=False, seeded=False, replayable=False, timeout='4m', fail_on_rc=True,
    env=dict(quick=dict(VERIF_REGRESS_BUDGET_MS=1500), thorough=dict(VERIF_REGRESS_BUDGET_MS=15000)),
    rule='regression tests of the repaired findings F1 (deterministic), F3, F1\', F2 (searches with a time budget)',
)

PROPS = {
    'C05': dict(streams=[GRAPH_STREAM]),
    'C06': dict(streams=[GRAPH_STREAM]),
    'C19': dict(streams=[GRAPH_STREAM]),
    'C17': dict(streams=[COLL_STREAM], assumptions=[
        "what reflection computes from a constructor value (Analyze, Implements, tag parsing, nil-ness) enters the model as "
        "request data written by the harness; the harness cross-checks it by comparing ToSlice() and the unexported views "
        "of the collection with what it generated, after every step"]),
    'C20': dict(streams=[COLL_STREAM], assumptions=[
        "a ModuleOption is one of the builders the API offers (Add*, Remove, RemoveKeyed, NewModule); user-written closures "
        "of type ModuleOption are outside the model"]),
    'C16': dict(streams=MW_STREAMS, generators=MW_GENERATORS, assumptions=[
        "T2: lean/GodiModel/Gen/Middleware.lean is regenerated by extract/ (go/ast, exact statement forms, everything else "
        ".unknown) from <repo>/{http,chi,gin,echo,fiber}/<fw>.go before every build; the theorems are about those terms",
        "modelled, not verified (Godi.Mw.Facts): gin runs the remaining handlers after a handler returns unless c.Abort() was "
        "called; fasthttp closes io.Closer user values (the scope stored by c.Locals) at the end of the request, which on the "
        "panic path presupposes a recover middleware outside the scope middleware; both are exercised by the T1 streams",
        "scope operations used by the interpreter and proved under other properties: CreateScope returns a fresh scope or an "
        "error (C02/C13), scope.Context() carries the scope (C18), Close is idempotent (C12), resolving from a closed scope fails (C13)",
        "concurrency: the per-request function shares nothing but the provider (the extractor rejects state outside it); "
        "isolation of scoped instances between scopes is C02",
    ]),
    'C09': dict(streams=[CONC_STREAM, CONC_STRESS_STREAM, CONC_REGRESS_STREAM], generators=[LOCKFACTS_GEN], assumptions=[
        'Go memory model, modelled not verified: every M6 action (one mutex-protected region, one sync/atomic or sync.Map '
        'operation, one channel close/receive, one call into user code) is atomic and the execution is sequentially consistent '
        'at that granularity; data races on fields accessed outside these primitives are only searched for by the -race stream',
        'M6 models ONE provider-created scope with two scoped keys (a depends on b), a transient, a singleton, dynamically '
        'created child scopes without resolvers of their own, the provider scope table and provider.Close; group resolution, '
        'multi-return / result-object fan-out and provider.CreateScope siblings are not in M6',
        'fair scheduling / termination of every call is not a theorem (deadlock freedom is)',
    ]),
}


# regression witnesses of the defects repaired in /repo (known_findings.json: fixed); test -> properties
WITNESS_TESTS = {
    'TestW_D1': ['C04'], 'TestW_D10_D19': ['C15', 'C18'], 'TestW_D11_D12_D13': ['C17'], 'TestW_D4': ['C05', 'C06', 'C07'],
    'TestW_D5_D6': ['C05', 'C08'], 'TestW_D7_D8': ['C10', 'C14', 'C13', 'C15', 'C09'], 'TestW_D2_D3': ['C01', 'C02', 'C04'],
    'TestW_D9': ['C02', 'C09'], 'TestW_D26': ['C04', 'C17'], 'TestW_D27_ChildDisposalErrorReachesParent': ['C12'], 'TestW_D15': ['C02', 'C15'],
    'TestW_D31_InstanceUnderTwoInterfacesClosedOnce': ['C10', 'C12'], 'TestW_D32': ['C01', 'C08', 'C15'], 'TestW_D33': ['C05', 'C04'],
}
WITNESS_STREAM = dict(
    name='witness', pkg='', files=['harness/witness/vw_fixed_test.go', 'harness/witness/vw_d26_test.go', 'harness/witness/vw_d27_test.go', 'harness/witness/vw_d15_test.go', 'harness/witness/vw_d31_test.go', 'harness/witness/vw_d32_test.go', 'harness/witness/vw_d33_test.go'],
    test='TestW_', gotests=WITNESS_TESTS, model=False, seeded=False, replayable=False, new_marker='#',
    rule='witness tests of the defects repaired by fix: commits, re-run on every check',
)
GRAPH_WITNESS_STREAM = dict(
    name='witness-graph', pkg='internal/graph', files=['harness/witness/graph_vw_fixed_test.go'],
    test='TestW_', gotests={'TestW_D14': ['C19', 'C06']}, model=False, seeded=False, replayable=False, new_marker='#',
    rule='witness tests of the graph defects repaired by fix: commits',
)

for _p in CONTAINER_PROPS:
    PROPS[_p] = dict(streams=[CORE_STREAM, WITNESS_STREAM])
for _p in ('C05', 'C06'):   # container-level clauses: Build's verdict and singleton creation order
    PROPS[_p]['streams'] = PROPS[_p]['streams'] + [CORE_STREAM]
# C17 "Build takes a snapshot": the core stream builds the collections the generator registered into (three views agree,
# nothing left behind by rejected/removed registrations, Build overlapping Add/Remove sees the registry before or after)
PROPS['C17']['streams'] = PROPS['C17']['streams'] + [CORE_STREAM]
for _p in ('C05', 'C06', 'C17'):
    PROPS[_p]['streams'] = PROPS[_p]['streams'] + [WITNESS_STREAM]
# container clauses of C05: the verdict "circular" is exact, and resolution terminates on every registry that passes it
PROPS['C05']['extra_theorems'] = {'GodiProofs.Props.C05b': ['Godi.Props.C05b.' + n for n in (
    'build_graph_is_declared_relation', 'build_circular_iff', 'accepted_registry_is_ranked', 'resolution_terminates',
    'group_resolution_terminates', 'construction_terminates', 'successful_build_is_accepted', 'cyclic_registry_is_not_settled')]}
# container clause of C06: the sorted order, translated to registrations, is an order the creation loop succeeds with
PROPS['C06']['extra_theorems'] = {'GodiProofs.Props.C06b': ['Godi.Props.C06b.' + n for n in (
    'sorted_order_is_a_creation_order', 'build_succeeds_with_the_order_the_sort_returns')]}
# C08, positive form end to end: Build succeeds with its own order and every registered service then resolves
PROPS['C08']['extra_theorems'] = {'GodiProofs.Props.C06b': ['Godi.Props.C06b.' + n for n in (
    'build_succeeds_with_the_order_the_sort_returns', 'built_provider_resolves_every_service')]}
for _p in ('C19', 'C06'):
    PROPS[_p]['streams'] = PROPS[_p]['streams'] + [GRAPH_WITNESS_STREAM]
# the concurrent clauses of the container properties: the schedule-forced stream (M6 replays the same schedule)
# and the -race stress stream also decide them; their monitors are tagged with these ids
CONC_CLAUSES = {
    'C01': ['C01_table_stable_conc'],
    'C02': ['C02_one_per_scope_conc', 'C02_one_write_conc', 'C02_failed_ctor_caches_nothing'],
    'C10': ['C10_exactly_once_conc', 'C10_not_early_conc'],
    # ordering under overlap: a Close returns only after the disposal of every child of its snapshot has completed
    'C11': ['C12_child_error_collected_conc', 'C12_idempotent_conc'],
    'C12': ['C12_idempotent_conc', 'C12_child_error_collected_conc'],
    'C13': ['C13_overlap', 'C13_singleton_overlap_reports_disposed'],
    'C14': ['C14_no_stale_child_in_provider_table', 'C14_no_stale_child_when_idle'],
}
for _p, _names in CONC_CLAUSES.items():
    PROPS[_p]['streams'] = PROPS[_p]['streams'] + [CONC_STREAM, CONC_STRESS_STREAM]
    if _p in ('C12', 'C13', 'C14'):   # the regression searches of the repaired findings F1/F1'/F2/F3 are tagged with these ids
        PROPS[_p]['streams'] = PROPS[_p]['streams'] + [CONC_REGRESS_STREAM]
    PROPS[_p]['generators'] = PROPS[_p].get('generators', []) + [LOCKFACTS_GEN]
    # theorems about every interleaving (M6), stated in GodiProofs/Conc/Clauses.lean, audited with the property
    PROPS[_p]['extra_theorems'] = {'GodiProofs.Conc.Clauses': ['Godi.Conc.' + n for n in _names]}
    PROPS[_p].setdefault('assumptions', [])
    PROPS[_p]['assumptions'] = PROPS[_p]['assumptions'] + [
        'concurrent clause: M6 (GodiModel/Conc.lean) assumes the Go memory model at action granularity; its tie to the source '
        'is the lock-fact extractor and the schedule-forced conc stream of C09 (the -race stress stream looks for what M6 cannot express)']
# wiring under overlap (a constructor receives its own scope's instances, its own scope and context; two overlapping
# resolutions of a transient are two instances): monitors of the -race stress stream tagged with these ids
for _p in ('C03', 'C04', 'C18'):
    PROPS[_p]['streams'] = PROPS[_p]['streams'] + [CONC_STRESS_STREAM]


def streams(prop):
    return PROPS[prop]['streams']


def generators(prop):
    return PROPS[prop].get('generators', [])


def all_generators():
    seen, out = set(), []
    for p in sorted(PROPS):
        for g in PROPS[p].get('generators', []):
            if g['name'] not in seen:
                seen.add(g['name'])
                out.append(g)
    return out


TRUSTED = [
    "Lean 4.33.0 kernel (leanchecker re-check in the thorough tier); axioms per theorem listed under coverage.theorems",
    "hand-written Lean model of the Go code; tied to /repo only through the differential correspondence run counted in traces_validated_against_impl",
    "harness: scenario generators, canonicalisation of observations, abstraction of (type,key,group) identities to small integers",
    "Go toolchain, go test -overlay",
]


def evidence(prop, tier, seed, lean, streams_run, report, known_lines, wall):
    evaluations = sum(s['stats'].get('scenarios', 0) for s in streams_run)
    lines = sum(s['lines'] for s in streams_run)
    nontrivial = sum(s['stats'].get('nontrivial', s['stats'].get('scenarios', 0)) for s in streams_run)
    samples = []
    for s in streams_run:
        ops = os.path.join(s['wd'], 'ops.txt')
        if os.path.exists(ops):
            with open(ops) as f:
                head = [next(f, '').rstrip('\n') for _ in range(400)]
            # the last complete scenario within the first 400 lines
            marker = s['spec'].get('new_marker', ' new')
            idx = [i for i, l in enumerate(head) if l.startswith(marker)]
            if len(idx) >= 2:
                samples.append(dict(stream=s['name'], ops=head[idx[-2]:idx[-1]][:40]))
            elif head:
                samples.append(dict(stream=s['name'], ops=head[:20]))
    for t in lean['theorems'][:3]:
        samples.append(dict(theorem=t['name'], axioms=t['axioms']))
    cov = dict(
        obligations=lean['obligations'], discharged=lean['discharged'],
        checker_cmd='cd /verif/lean && lake build && lake env lean .work/Audit_%s.lean (#print axioms per theorem)%s' % (
            prop, '; lake env leanchecker GodiProofs.Props.%s' % prop if tier == 'thorough' else ''),
        trusted_base=TRUSTED,
        theorems=lean['theorems'], broken_theorems=lean['broken'], proof_problems=lean['problems'],
        evaluations=max(evaluations, 0), distinct_nontrivial=nontrivial,
        rule='; '.join(s['spec'].get('rule', s['name']) for s in streams_run[:1]) if streams_run else '',
        traces_validated_against_impl=evaluations, protocol_lines_compared=lines,
        correspondence_mismatches=sum(s.get('n_mismatch', 0) for s in streams_run),
        monitor_failures=sum(len(s['monitor']) for s in streams_run),
        streams=[dict(name=s['name'], seed=s['seed'], lines=s['lines'], stats=s['stats']) for s in streams_run],
        samples=samples or [dict(note='no scenario generated')],
        known_findings_reported=known_lines,
    )
    if 'leanchecker' in lean:
        cov['leanchecker'] = lean['leanchecker']
    return dict(property_id=prop, tier=tier, seed=seed, level='proof', coverage=cov,
                assumptions=PROPS[prop].get('assumptions', []) + TRUSTED, wall_s=round(wall, 2), violations=len(report))
