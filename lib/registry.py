"""Which theorems, generators and harness streams decide which property; evidence assembly."""
import json, os

ROOT = os.path.dirname(os.path.dirname(os.path.abspath(__file__)))

GRAPH_STREAM = dict(
    name='graph', pkg='internal/graph', files=['harness/graph/vg_graph_test.go'], test='TestVerifGraph',
    corpus='corpus/graph', new_marker='g new',
    env=dict(quick=dict(VERIF_DIGRAPH_N=3, VERIF_OPSEQ_LEN=2, VERIF_RANDOM=400, VERIF_BIGRANDOM=400),
             thorough=dict(VERIF_DIGRAPH_N=4, VERIF_OPSEQ_LEN=3, VERIF_RANDOM=6000, VERIF_BIGRANDOM=6000)),
    # which op lines matter to which property when only the correspondence (not a monitor) breaks
    prop_ops=dict(C05=r'^g (detect|add |addd |new)', C06=r'^g (topo|addd |add |new|detect)', C19=None),
    rule='graph op sequences: corpus, every digraph on <=N nodes (deferred and immediate construction), every op '
         'sequence of length L over 3 identities with all queries after each step, random sequences over a pool of 7 '
         '(type,key,group) identities, random 7-node DAGs/cyclic graphs; a scenario is non-trivial when it has at least one edge',
)

LOCKFACTS_GEN = dict(
    name='lockfacts',
    cmd='cd extract/lockfacts && go run . -out ../../lean/GodiModel/Gen/LockFacts.lean',   # honours VERIF_REPO
)

PROPS = {
    'C05': dict(streams=[GRAPH_STREAM]),
    'C06': dict(streams=[GRAPH_STREAM]),
    'C19': dict(streams=[GRAPH_STREAM]),
}


def streams(prop):
    return PROPS[prop]['streams']


def generators(prop):
    return PROPS[prop].get('generators', [])


TRUSTED = [
    "Lean 4.33.0 kernel (leanchecker re-check in the thorough tier); axioms per theorem listed under coverage.theorems",
    "hand-written Lean model of the Go code; tied to /repo only through the differential correspondence run counted in traces_validated_against_impl",
    "harness: scenario generators, canonicalisation of observations, abstraction of (type,key,group) identities to small integers",
    "Go toolchain, go test -overlay",
]


def evidence(prop, tier, seed, lean, streams_run, report, known_lines, wall):
    evaluations = sum(s['stats'].get('scenarios', 0) for s in streams_run)
    lines = sum(s['lines'] for s in streams_run)
    nontrivial = sum(s['stats'].get('nontrivial', s['stats'].get('scenarios', 0)) for s in streams_run)
    samples = []
    for s in streams_run:
        ops = os.path.join(s['wd'], 'ops.txt')
        if os.path.exists(ops):
            with open(ops) as f:
                head = [next(f, '').rstrip('\n') for _ in range(400)]
            # the last complete scenario within the first 400 lines
            marker = s['spec'].get('new_marker', ' new')
            idx = [i for i, l in enumerate(head) if l.startswith(marker)]
            if len(idx) >= 2:
                samples.append(dict(stream=s['name'], ops=head[idx[-2]:idx[-1]][:40]))
            elif head:
                samples.append(dict(stream=s['name'], ops=head[:20]))
    for t in lean['theorems'][:3]:
        samples.append(dict(theorem=t['name'], axioms=t['axioms']))
    cov = dict(
        obligations=lean['obligations'], discharged=lean['discharged'],
        checker_cmd='cd /verif/lean && lake build && lake env lean .work/Audit_%s.lean (#print axioms per theorem)%s' % (
            prop, '; lake env leanchecker GodiProofs.Props.%s' % prop if tier == 'thorough' else ''),
        trusted_base=TRUSTED,
        theorems=lean['theorems'], broken_theorems=lean['broken'], proof_problems=lean['problems'],
        evaluations=max(evaluations, 0), distinct_nontrivial=nontrivial,
        rule='; '.join(s['spec'].get('rule', s['name']) for s in streams_run[:1]) if streams_run else '',
        traces_validated_against_impl=evaluations, protocol_lines_compared=lines,
        correspondence_mismatches=sum(s.get('n_mismatch', 0) for s in streams_run),
        monitor_failures=sum(len(s['monitor']) for s in streams_run),
        streams=[dict(name=s['name'], seed=s['seed'], lines=s['lines'], stats=s['stats']) for s in streams_run],
        samples=samples or [dict(note='no scenario generated')],
        known_findings_reported=known_lines,
    )
    if 'leanchecker' in lean:
        cov['leanchecker'] = lean['leanchecker']
    return dict(property_id=prop, tier=tier, seed=seed, level='proof', coverage=cov,
                assumptions=PROPS[prop].get('assumptions', []) + TRUSTED, wall_s=round(wall, 2), violations=len(report))
