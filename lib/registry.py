"""Which theorems, generators and harness streams decide which property; evidence assembly."""
import json, os

ROOT = os.path.dirname(os.path.dirname(os.path.abspath(__file__)))

GRAPH_STREAM = dict(
    name='graph', pkg='internal/graph', files=['harness/graph/vg_graph_test.go'], test='TestVerifGraph',
    corpus='corpus/graph', new_marker='g new',
    env=dict(quick=dict(VERIF_DIGRAPH_N=3, VERIF_OPSEQ_LEN=2, VERIF_RANDOM=400, VERIF_BIGRANDOM=400),
             thorough=dict(VERIF_DIGRAPH_N=4, VERIF_OPSEQ_LEN=3, VERIF_RANDOM=6000, VERIF_BIGRANDOM=6000)),
    # which op lines matter to which property when only the correspondence (not a monitor) breaks
    prop_ops=dict(C05=r'^g (detect|add |addd |new)', C06=r'^g (topo|addd |add |new|detect)', C19=None),
    rule='graph op sequences: corpus, every digraph on <=N nodes (deferred and immediate construction), every op '
         'sequence of length L over 3 identities with all queries after each step, random sequences over a pool of 7 '
         '(type,key,group) identities, random 7-node DAGs/cyclic graphs; a scenario is non-trivial when it has at least one edge',
)

LOCKFACTS_GEN = dict(
    name='lockfacts',
    cmd='cd extract/lockfacts && go run . -out ../../lean/GodiModel/Gen/LockFacts.lean',   # honours VERIF_REPO
)

CONC_STREAM = dict(
    name='conc', pkg='.', files=['harness/conc/vk_conc_test.go'], test='TestVerifConc$',
    corpus='corpus/conc', new_marker='k new', timeout='20m',
    env=dict(quick=dict(VERIF_CONC_ENUM=150, VERIF_CONC_RANDOM=500),
             thorough=dict(VERIF_CONC_ENUM=400, VERIF_CONC_RANDOM=1500)),
    rule='schedule-forced scenarios over one scope of a provider with scoped A(B), scoped B, a transient, a singleton and a '
         'scoped initializer: corpus of named interleavings, every schedule (up to a budget) of ten 2-3 thread programs, random '
         '2-4 thread programs (resolutions of both scoped keys incl. failing constructors, transient, singleton, child-scope '
         'creation incl. failing initializer, Close, provider.Close, context cancellation) under random schedules; goroutines '
         'park wherever the container calls user code; a scenario is non-trivial when at least two calls overlap',
)

CONC_STRESS_STREAM = dict(
    name='conc-stress', pkg='.', files=['harness/conc/vk_conc_test.go'], test='TestVerifConcStress$',
    model=False, seeded=True, replayable=False, timeout='20m',
    race=dict(quick=True, thorough=True), fail_on_rc=True,
    env=dict(quick=dict(VERIF_STRESS_ROUNDS=120), thorough=dict(VERIF_STRESS_ROUNDS=600)),
    rule='free-running stress under the race detector: 12 goroutines x 120 random operations per round',
)

PROPS = {
    'C05': dict(streams=[GRAPH_STREAM]),
    'C06': dict(streams=[GRAPH_STREAM]),
    'C19': dict(streams=[GRAPH_STREAM]),
    'C09': dict(streams=[CONC_STREAM, CONC_STRESS_STREAM], generators=[LOCKFACTS_GEN], assumptions=[
        'Go memory model, modelled not verified: every M6 action (one mutex-protected region, one sync/atomic or sync.Map '
        'operation, one channel close/receive, one call into user code) is atomic and the execution is sequentially consistent '
        'at that granularity; data races on fields accessed outside these primitives are only searched for by the -race stream',
        'M6 models ONE provider-created scope with two scoped keys (a depends on b), a transient, a singleton, dynamically '
        'created child scopes without resolvers of their own, the provider scope table and provider.Close; group resolution, '
        'multi-return / result-object fan-out and provider.CreateScope siblings are not in M6',
        'fair scheduling / termination of every call is not a theorem (deadlock freedom is)',
    ]),
}


def streams(prop):
    return PROPS[prop]['streams']


def generators(prop):
    return PROPS[prop].get('generators', [])


TRUSTED = [
    "Lean 4.33.0 kernel (leanchecker re-check in the thorough tier); axioms per theorem listed under coverage.theorems",
    "hand-written Lean model of the Go code; tied to /repo only through the differential correspondence run counted in traces_validated_against_impl",
    "harness: scenario generators, canonicalisation of observations, abstraction of (type,key,group) identities to small integers",
    "Go toolchain, go test -overlay",
]


def evidence(prop, tier, seed, lean, streams_run, report, known_lines, wall):
    evaluations = sum(s['stats'].get('scenarios', 0) for s in streams_run)
    lines = sum(s['lines'] for s in streams_run)
    nontrivial = sum(s['stats'].get('nontrivial', s['stats'].get('scenarios', 0)) for s in streams_run)
    samples = []
    for s in streams_run:
        ops = os.path.join(s['wd'], 'ops.txt')
        if os.path.exists(ops):
            with open(ops) as f:
                head = [next(f, '').rstrip('\n') for _ in range(400)]
            # the last complete scenario within the first 400 lines
            marker = s['spec'].get('new_marker', ' new')
            idx = [i for i, l in enumerate(head) if l.startswith(marker)]
            if len(idx) >= 2:
                samples.append(dict(stream=s['name'], ops=head[idx[-2]:idx[-1]][:40]))
            elif head:
                samples.append(dict(stream=s['name'], ops=head[:20]))
    for t in lean['theorems'][:3]:
        samples.append(dict(theorem=t['name'], axioms=t['axioms']))
    cov = dict(
        obligations=lean['obligations'], discharged=lean['discharged'],
        checker_cmd='cd /verif/lean && lake build && lake env lean .work/Audit_%s.lean (#print axioms per theorem)%s' % (
            prop, '; lake env leanchecker GodiProofs.Props.%s' % prop if tier == 'thorough' else ''),
        trusted_base=TRUSTED,
        theorems=lean['theorems'], broken_theorems=lean['broken'], proof_problems=lean['problems'],
        evaluations=max(evaluations, 0), distinct_nontrivial=nontrivial,
        rule='; '.join(s['spec'].get('rule', s['name']) for s in streams_run[:1]) if streams_run else '',
        traces_validated_against_impl=evaluations, protocol_lines_compared=lines,
        correspondence_mismatches=sum(s.get('n_mismatch', 0) for s in streams_run),
        monitor_failures=sum(len(s['monitor']) for s in streams_run),
        streams=[dict(name=s['name'], seed=s['seed'], lines=s['lines'], stats=s['stats']) for s in streams_run],
        samples=samples or [dict(note='no scenario generated')],
        known_findings_reported=known_lines,
    )
    if 'leanchecker' in lean:
        cov['leanchecker'] = lean['leanchecker']
    return dict(property_id=prop, tier=tier, seed=seed, level='proof', coverage=cov,
                assumptions=PROPS[prop].get('assumptions', []) + TRUSTED, wall_s=round(wall, 2), violations=len(report))
