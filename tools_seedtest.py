#!/usr/bin/env python3
"""tools_seedtest.py [ids...]: run the registered check of each seeded change's property against a scratch
worktree of /repo with the change applied (VERIF_REPO), record whether and how it was detected.
Never touches /repo's working tree."""
import json, os, subprocess, sys, glob, re
ROOT=os.path.dirname(os.path.abspath(__file__))   # works from a snapshot of /verif too (vp run)
W=os.environ.get('SEEDTEST_WORKTREE','/root/wk/seedtest-repo')
def sh(c, **kw):
    p=subprocess.run(c,shell=True,stdout=subprocess.PIPE,stderr=subprocess.STDOUT,text=True,**kw); return p.returncode,p.stdout
sh('git -C /repo worktree remove --force %s'%W); sh('git -C /repo worktree add --detach %s HEAD'%W)
ids=sys.argv[1:]
res={}
for d in sorted(glob.glob(os.path.join(ROOT,'seeded','*'))):
    key=os.path.basename(d)
    if ids and key not in ids and key.split('-')[0] not in ids: continue
    prop=key.split('-')[0]
    sh('git checkout -q -- . && git clean -fdq',cwd=W)
    rc,out=sh('git apply %s/patch.diff'%d,cwd=W)
    if rc!=0: print(key,'PATCH FAILED',out[-200:]); continue
    props=[prop]+[p for p in (os.environ.get('ALSO','').split(',')) if p]
    det=[]
    for p in props:
        rc,out=sh('./check %s'%p,cwd=ROOT,env=dict(os.environ,VERIF_REPO=W),timeout=3600)
        v=[l for l in out.split('\n') if l.startswith('VIOLATION')]
        txt=[l.strip() for l in out.split('\n') if l.startswith('  ')]
        det.append((p,rc,v[:1],txt[:1]))
    print(key, ' | '.join('%s rc=%d %s %s'%(p,rc,'NOINPUT' if v and 'no-failing' in v[0] else ('CONCRETE' if v else ''),(t[0][:150] if t else '')) for p,rc,v,t in det),flush=True)
    res[key]=det
sh('git checkout -q -- . && git clean -fdq',cwd=W)
sh('git -C /repo worktree remove --force %s'%W)
# the source-derived Lean files were regenerated from the changed tree: regenerate them from /repo
sys.path.insert(0, os.path.join(ROOT,'lib'))
import registry
env=dict(os.environ); env.pop('VERIF_REPO',None); env['GOFLAGS']='-mod=mod'; env['GOPROXY']='off'
for g in registry.all_generators():
    sh(g['cmd'],cwd=ROOT,env=env)
import datetime
out=os.environ.get('RESULTS')
if out:
    old={}
    if os.path.exists(out):
        for l in open(out):
            m=re.match(r'\| (C\d+-m\d+) \|',l)
            if m: old[m.group(1)]=l
    for key,det in res.items():
        cells=[]
        for p,rc,v,t in det:
            how='MISSED' if rc==0 else ('caught: monitor (concrete replay)' if v and 'no-failing' not in v[0] else 'caught: correspondence/proof only (no-failing-input-found)')
            cells.append('%s: %s%s'%(p,how,(' - '+t[0][:160].replace('|','/')) if t else ''))
        old[key]='| %s | %s |\n'%(key,' ; '.join(cells))
    with open(out,'w') as f:
        f.write('# Which check catches which seeded change\n\nProduced by `tools_seedtest.py` (each change applied to a scratch worktree, `VERIF_REPO=<worktree> ./check <property>`).\n\n| seeded change | result of the check of its property |\n|---|---|\n')
        for k in sorted(old): f.write(old[k])
