#!/usr/bin/env python3
"""Seeds the `LockExpected` namespace of lean/GodiProofs/Conc/LockFactsOk.lean from the generated
lean/GodiModel/Gen/LockFacts.lean and attaches the M6 action names as comments.

NOT run by ./check. The expected table is the hand-reviewed reference the M6 action programs were
written from: run this script only after reviewing a legitimate change of the source skeleton
against lean/GodiModel/Conc.lean (and after changing the model accordingly)."""
import os, sys
ROOT = os.path.dirname(os.path.dirname(os.path.dirname(os.path.abspath(__file__))))
gen = open(os.path.join(ROOT, 'lean/GodiModel/Gen/LockFacts.lean')).read()
body = gen[gen.index('def newScope'):gen.index('end Godi.Gen.LockFacts')]
target = os.path.join(ROOT, 'lean/GodiProofs/Conc/LockFactsOk.lean')
s = open(target).read()
head, rest = s.split('namespace Godi.Conc.LockExpected', 1)
_, tail = rest.split('end Godi.Conc.LockExpected', 1)
exp = '\nopen Godi.LockIR\n\n' + body + '\n'

def ann(block, mapping):
    global exp
    i = exp.index('def ' + block + ' :')
    j = exp.index('\n]\n', i)
    lines = exp[i:j].split('\n')
    used = set()
    for n, l in enumerate(lines):
        for key, com in mapping:
            if key in l and (key, com) not in used:
                lines[n] = l + '   -- ' + com
                used.add((key, com))
                break
    exp = exp[:i] + '\n'.join(lines) + exp[j:]

ann('scope_dispose', [
    ('.atomic "CompareAndSwapInt32"', 'cCas'),
    ('.chanRecv "s.closed"', 'cWait (the loser of the CAS)'),
    ('.plainRead "s.closeErr"', 'cWait: read after the receive'),
    ('.deferChanClose', 'cSig (deferred first, runs last)'),
    ('.plainWrite "s.closeErr"', 'cErr (deferred second, runs before cSig)'),
    ('.lock "s.childrenMu"', 'cTake [ (before the cancel: 0c7a2e0)'),
    ('.unlock "s.childrenMu"', 'cTake ]'),
    ('.call "s.cancel"', 'cCancel'),
    ('.call "child.dispose"', 'cKids -> kCas ... (nested dispose of each child)'),
    ('.lock "s.disposablesMu"', 'cTakeD ['),
    ('.unlock "s.disposablesMu"', 'cTakeD ]'),
    ('.call "disposables[].Close"', 'cDrain (USER Close, reverse order)'),
    ('.lock "s.parentScope.childrenMu"', 'kDetP [ (skipped for S: parentScope == nil)'),
    ('.unlock "s.parentScope.childrenMu"', 'kDetP ]'),
    ('.lock "s.rootProvider.scopesMu"', 'cDetS / kDetS ['),
    ('.unlock "s.rootProvider.scopesMu"', 'cDetS / kDetS ]'),
    ('.lock "s.instancesMu"', 'cNil ['),
    ('.unlock "s.instancesMu"', 'cNil ]'),
])
ann('scope_CreateScope', [
    ('.atomic "LoadInt32"', 'sChk'),
    ('.call "newScope"', 'sInit (USER initializers inside)'),
    ('.lock "s.childrenMu"', 'sAdd ['),
    ('.read "s.children"', 'sAdd: nil check inside the region'),
    ('.unlock "s.childrenMu"', 'sAdd ] (rejected)'),
    ('.call "child.Close"', 'kCas c (ret disposed): after the unlock'),
    ('.write "s.children"', 'sAdd: the write'),
    ('.unlock "s.childrenMu"', 'sAdd ]'),
    ('.lock "s.rootProvider.scopesMu"', 'sReg ['),
    ('.read "s.rootProvider.scopes"', 'sReg: nil check inside the region'),
    ('.unlock "s.rootProvider.scopesMu"', 'sReg ] (rejected)'),
    ('.call "child.Close"', 'kCas c (ret provDisposed): after the unlock'),
    ('.write "s.rootProvider.scopes"', 'sReg: the write'),
    ('.unlock "s.rootProvider.scopesMu"', 'sReg ]'),
    ('.atomic "LoadInt32" "child.disposed"', 'sRe (64d7b34): was the child closed between the two registrations?'),
    ('.lock "s.rootProvider.scopesMu"', 'sUndo ['),
    ('.delete "s.rootProvider.scopes"', 'sUndo: take the closed child out again'),
    ('.unlock "s.rootProvider.scopesMu"', 'sUndo ]'),
    ('.spawnBegin', 'sSpawn'),
    ('.chanRecv "ctx.Done()"', 'wKid'),
    ('.call "child.Close"', 'wKid -> kCas c (ret okUnit)'),
])
ann('scope_track', [
    ('.lock "s.disposablesMu"', 'rTrk / tTrk ['),
    ('.atomic "LoadInt32"', 'the disposed check INSIDE the region'),
    ('.unlock "s.disposablesMu"', '] (late)'),
    ('.call "d.Close"', 'rSelf / tSelf (USER Close of the late instance, after the unlock)'),
    ('.assign "s.disposables"', 'the append'),
])
ann('scope_setInstance', [
    ('.lock "s.instancesMu"', 'rSet ['),
    ('.read "s.instances"', 'rSet: nil check inside the region'),
    ('.write "s.instances"', 'rSet: the write'),
    ('.unlock "s.instancesMu"', 'rSet ]'),
    ('.call "s.track"', 'rTrk (always reached: scoped)'),
    ('.call "s.track"', 'tTrk (transient)'),
])
ann('scope_lockCreation', [
    ('.lock "s.creatingMu"', 'rMu ['),
    ('.unlock "s.creatingMu"', 'rMu ] (no delete: the table only grows)'),
    ('.lock "m"', 'rLock (blocking, nothing else held)'),
    ('.methodValue', 'rUnl is `defer unlock()` in resolve'),
])
ann('scope_getInstance', [('.rlock', 'rRead / rRe ['), ('.runlock', 'rRead / rRe ]')])
ann('scope_resolve', [
    ('.call "s.rootProvider.getSingleton"', 'gLoad'),
    ('.atomic "LoadInt32" "s.disposed"', 'gMiss1 (0cb30f3)'),
    ('.atomic "LoadInt32" "s.rootProvider.disposed"', 'gMiss2'),
    ('.call "s.getInstance"', 'rRead'),
    ('.call "s.lockCreation"', 'rMu, rLock'),
    ('.deferCall "unlock"', 'rUnl'),
    ('.call "s.getInstance"', 'rRe'),
    ('.call "s.createInstance"', 'nested resolution of the parameters, rCtor, rSet, rTrk'),
    ('.call "s.createInstance"', 'tCtor, tTrk'),
])
ann('scope_createInstance', [('.call "invoker.Invoke"', 'rCtor / tCtor / the initializer (USER), after the parameters were resolved through s.Get')])
ann('scope_Get', [('.atomic', 'rChk / tChk / gChk')])
ann('provider_Close', [
    ('.atomic "CompareAndSwapInt32"', 'pCas (a loser returns nil at once)'),
    ('.lock "p.scopesMu"', 'pTake ['),
    ('.unlock "p.scopesMu"', 'pTake ]'),
    ('.call "s.dispose"', 'pScopes -> cCas / kCas'),
    ('.call "p.rootScope.dispose"', 'pRest ...'),
])
ann('provider_getSingleton', [('.atomic', 'gLoad')])
open(target, 'w').write(head + 'namespace Godi.Conc.LockExpected' + exp + 'end Godi.Conc.LockExpected' + tail)
print('seeded', target)
