module verif/lockfacts

go 1.21
