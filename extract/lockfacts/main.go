// lockfacts: tie T2 for M6 (property C09 and the concurrent clauses of C01/C02/C10/C12/C13).
//
// Re-reads scope.go and provider.go of the repository under verification (env VERIF_REPO, default
// /repo) and emits lean/GodiModel/Gen/LockFacts.lean: for every method of *scope / *provider (and
// newScope) the ordered list of synchronisation events in its body:
//
//	mutex Lock/RLock/Unlock/RUnlock (also deferred, also `m.Unlock` taken as a value), with the set of
//	mutexes held at that point; sync/atomic operations and the field they act on; sync.Map
//	operations; channel close (also deferred) and receive; goroutine spawns; closures; every read,
//	map write, delete, nil-assignment and assignment of a field that has a `<field>Mu` sibling in its
//	struct, with the mutexes held; calls to functions of the two files and to user code (Close,
//	Invoke, cancel) with the mutexes held; return statements.
//
// Anything the walker does not understand becomes `.unknown "<text>"`, which no theorem accepts.
// Standard library only.
package main

import (
	"bytes"
	"flag"
	"fmt"
	"go/ast"
	"go/parser"
	"go/printer"
	"go/token"
	"os"
	"path/filepath"
	"sort"
	"strings"
)

type ev struct {
	kind string   // constructor of Godi.LockIR.Ev
	args []string // string arguments
	held []string // nil = constructor has no held list
	hasH bool
}

type walker struct {
	fset      *token.FileSet
	tracked   map[string]bool // field names that have a <name>Mu sibling
	plain     map[string]bool // other struct fields that some method assigns after construction
	syncMaps  map[string]bool // field names of type sync.Map
	declared  map[string]bool // functions / methods declared in the two files
	events    []ev
	held      []string
	recvNames map[string]bool
}

var userCode = map[string]bool{"Close": true, "Invoke": true, "cancel": true}

func (w *walker) src(n ast.Node) string {
	var b bytes.Buffer
	printer.Fprint(&b, w.fset, n)
	s := strings.Join(strings.Fields(b.String()), " ")
	if len(s) > 120 {
		s = s[:120]
	}
	return s
}

// path renders x.y.z selector chains (and index expressions on them); "" if not a plain path
func path(e ast.Expr) string {
	switch v := e.(type) {
	case *ast.Ident:
		return v.Name
	case *ast.SelectorExpr:
		p := path(v.X)
		if p == "" {
			return ""
		}
		return p + "." + v.Sel.Name
	case *ast.ParenExpr:
		return path(v.X)
	case *ast.IndexExpr:
		p := path(v.X)
		if p == "" {
			return ""
		}
		return p + "[]"
	case *ast.CallExpr:
		p := path(v.Fun)
		if p == "" {
			return ""
		}
		return p + "()"
	case *ast.UnaryExpr:
		if v.Op == token.AND {
			return path(v.X)
		}
	}
	return ""
}

func lastName(p string) string {
	if i := strings.LastIndex(p, "."); i >= 0 {
		return p[i+1:]
	}
	return p
}

func (w *walker) heldCopy() []string {
	c := append([]string{}, w.held...)
	sort.Strings(c)
	return c
}

func (w *walker) emit(kind string, args ...string) {
	w.events = append(w.events, ev{kind: kind, args: args})
}

func (w *walker) emitH(kind string, args ...string) {
	e := ev{kind: kind, args: args, held: w.heldCopy(), hasH: true}
	// collapse an immediately repeated read of the same field under the same locks
	if kind == "read" && len(w.events) > 0 {
		l := w.events[len(w.events)-1]
		if l.kind == "read" && l.args[0] == args[0] && strings.Join(l.held, ",") == strings.Join(e.held, ",") {
			return
		}
	}
	w.events = append(w.events, e)
}

func (w *walker) isTrackedField(e ast.Expr) (string, bool) {
	sel, ok := e.(*ast.SelectorExpr)
	if !ok {
		return "", false
	}
	if !w.tracked[sel.Sel.Name] {
		return "", false
	}
	p := path(e)
	return p, p != ""
}

func (w *walker) acquire(m string) { w.held = append(w.held, m) }
func (w *walker) release(m string) {
	for i := len(w.held) - 1; i >= 0; i-- {
		if w.held[i] == m || w.held[i] == m+":r" {
			w.held = append(w.held[:i], w.held[i+1:]...)
			return
		}
	}
	w.emit("unknown", "unlock of a mutex that is not held: "+m)
}

// mutexOp recognises X.Lock() / X.RLock() / X.Unlock() / X.RUnlock()
func mutexOp(c *ast.CallExpr) (op, m string, ok bool) {
	sel, isSel := c.Fun.(*ast.SelectorExpr)
	if !isSel || len(c.Args) != 0 {
		return "", "", false
	}
	switch sel.Sel.Name {
	case "Lock", "RLock", "Unlock", "RUnlock":
		p := path(sel.X)
		if p == "" {
			return "", "", false
		}
		return sel.Sel.Name, p, true
	}
	return "", "", false
}

func (w *walker) call(c *ast.CallExpr, deferred bool) {
	// mutex operations
	if op, m, ok := mutexOp(c); ok {
		if deferred {
			switch op {
			case "Unlock":
				w.emit("deferUnlock", m)
			case "RUnlock":
				w.emit("deferRUnlock", m)
			default:
				w.emit("unknown", "deferred "+w.src(c))
			}
			return
		}
		switch op {
		case "Lock":
			w.emitH("lock", m)
			w.acquire(m)
		case "RLock":
			w.emitH("rlock", m)
			w.acquire(m + ":r")
		case "Unlock":
			w.release(m)
			w.emit("unlock", m)
		case "RUnlock":
			w.release(m)
			w.emit("runlock", m)
		}
		return
	}
	// builtins close / delete
	if id, ok := c.Fun.(*ast.Ident); ok {
		switch id.Name {
		case "close":
			if len(c.Args) == 1 {
				if deferred {
					w.emit("deferChanClose", path(c.Args[0]))
				} else {
					w.emit("chanClose", path(c.Args[0]))
				}
				return
			}
		case "delete":
			if len(c.Args) == 2 {
				w.expr(c.Args[1])
				if p, ok := w.isTrackedField(c.Args[0]); ok {
					w.emitH("delete", p)
				} else {
					w.expr(c.Args[0])
				}
				return
			}
		}
	}
	// sync/atomic
	if sel, ok := c.Fun.(*ast.SelectorExpr); ok {
		if x, ok := sel.X.(*ast.Ident); ok && x.Name == "atomic" && len(c.Args) >= 1 {
			for _, a := range c.Args[1:] {
				w.expr(a)
			}
			w.emitH("atomic", sel.Sel.Name, path(c.Args[0]))
			return
		}
		// sync.Map
		if inner, ok := sel.X.(*ast.SelectorExpr); ok && w.syncMaps[inner.Sel.Name] {
			for _, a := range c.Args {
				w.expr(a)
			}
			w.emitH("atomic", "sync.Map."+sel.Sel.Name, path(sel.X))
			return
		}
	}
	// function literal called in place
	if fl, ok := c.Fun.(*ast.FuncLit); ok {
		for _, a := range c.Args {
			w.expr(a)
		}
		w.closure(fl, deferred)
		return
	}
	// ordinary call: receiver / function expression first, then arguments, then the call itself
	switch f := c.Fun.(type) {
	case *ast.SelectorExpr:
		w.expr(f.X)
	case *ast.Ident:
	default:
		w.expr(c.Fun)
	}
	for _, a := range c.Args {
		w.expr(a)
	}
	name := path(c.Fun)
	ln := lastName(strings.TrimSuffix(name, "()"))
	if name != "" && (w.declared[ln] || userCode[ln] || ln == "unlock") {
		if deferred {
			w.emitH("deferCall", name)
		} else {
			w.emitH("call", name)
		}
	} else if deferred {
		w.emit("unknown", "deferred "+w.src(c))
	}
}

func (w *walker) closure(fl *ast.FuncLit, deferred bool) {
	if deferred {
		w.emit("deferClosureBegin")
	} else {
		w.emit("closureBegin")
	}
	saved := w.held
	w.held = nil
	w.block(fl.Body.List)
	if len(w.held) != 0 {
		w.emit("unknown", "closure ends holding "+strings.Join(w.held, ","))
	}
	w.held = saved
	w.emit("closureEnd")
}

func (w *walker) expr(e ast.Expr) {
	switch v := e.(type) {
	case nil:
	case *ast.Ident, *ast.BasicLit:
	case *ast.CallExpr:
		w.call(v, false)
	case *ast.FuncLit:
		w.closure(v, false)
	case *ast.UnaryExpr:
		w.expr(v.X)
		if v.Op == token.ARROW {
			w.emitH("chanRecv", path(v.X))
		}
	case *ast.SelectorExpr:
		if p, ok := w.isTrackedField(v); ok {
			w.emitH("read", p)
			return
		}
		if w.plain[v.Sel.Name] && path(v) != "" {
			w.emitH("plainRead", path(v))
			return
		}
		switch v.Sel.Name {
		case "Unlock", "RUnlock", "Lock", "RLock":
			w.emit("methodValue", path(v))
			return
		}
		w.expr(v.X)
	case *ast.IndexExpr:
		w.expr(v.X)
		w.expr(v.Index)
	case *ast.SliceExpr:
		w.expr(v.X)
		w.expr(v.Low)
		w.expr(v.High)
		w.expr(v.Max)
	case *ast.BinaryExpr:
		w.expr(v.X)
		w.expr(v.Y)
	case *ast.ParenExpr:
		w.expr(v.X)
	case *ast.StarExpr:
		w.expr(v.X)
	case *ast.TypeAssertExpr:
		w.expr(v.X)
	case *ast.KeyValueExpr:
		w.expr(v.Value)
	case *ast.CompositeLit:
		for _, el := range v.Elts {
			w.expr(el)
		}
	case *ast.ArrayType, *ast.MapType, *ast.StructType, *ast.InterfaceType, *ast.FuncType, *ast.ChanType, *ast.IndexListExpr:
	default:
		w.emit("unknown", "expr "+w.src(e))
	}
}

func isNil(e ast.Expr) bool {
	id, ok := e.(*ast.Ident)
	return ok && id.Name == "nil"
}

// terminates: the statement list always leaves the enclosing block (return / continue / break / panic)
func terminates(list []ast.Stmt) bool {
	if len(list) == 0 {
		return false
	}
	switch v := list[len(list)-1].(type) {
	case *ast.ReturnStmt, *ast.BranchStmt:
		return true
	case *ast.ExprStmt:
		if c, ok := v.X.(*ast.CallExpr); ok {
			if id, ok := c.Fun.(*ast.Ident); ok && id.Name == "panic" {
				return true
			}
		}
	case *ast.BlockStmt:
		return terminates(v.List)
	}
	return false
}

func same(a, b []string) bool {
	x := append([]string{}, a...)
	y := append([]string{}, b...)
	sort.Strings(x)
	sort.Strings(y)
	return strings.Join(x, ",") == strings.Join(y, ",")
}

// branch runs one alternative on a copy of the held set; returns the held set at its end and
// whether control continues after it
func (w *walker) branch(list []ast.Stmt) ([]string, bool) {
	saved := append([]string{}, w.held...)
	w.block(list)
	after := w.held
	w.held = saved
	return after, !terminates(list)
}

// join of the alternatives that fall through
func (w *walker) join(what string, before []string, outs [][]string) {
	if len(outs) == 0 {
		w.held = before
		return
	}
	for _, o := range outs[1:] {
		if !same(o, outs[0]) {
			w.emit("unknown", what+": alternatives end with different mutexes held")
		}
	}
	w.held = outs[0]
}

func (w *walker) block(list []ast.Stmt) {
	for _, s := range list {
		w.stmt(s)
	}
}

func (w *walker) stmt(s ast.Stmt) {
	switch v := s.(type) {
	case nil, *ast.EmptyStmt:
	case *ast.ExprStmt:
		w.expr(v.X)
	case *ast.IncDecStmt:
		w.expr(v.X)
	case *ast.DeclStmt:
		if gd, ok := v.Decl.(*ast.GenDecl); ok {
			for _, sp := range gd.Specs {
				if vs, ok := sp.(*ast.ValueSpec); ok {
					for _, val := range vs.Values {
						w.expr(val)
					}
				}
			}
		}
	case *ast.AssignStmt:
		for _, r := range v.Rhs {
			w.expr(r)
		}
		for i, l := range v.Lhs {
			if ix, ok := l.(*ast.IndexExpr); ok {
				w.expr(ix.Index)
				if p, ok := w.isTrackedField(ix.X); ok {
					w.emitH("write", p)
					continue
				}
				w.expr(ix.X)
				continue
			}
			if p, ok := w.isTrackedField(l); ok {
				if len(v.Rhs) == len(v.Lhs) && isNil(v.Rhs[i]) {
					w.emitH("nilAssign", p)
				} else {
					w.emitH("assign", p)
				}
				continue
			}
			if sel, ok := l.(*ast.SelectorExpr); ok {
				if w.plain[sel.Sel.Name] && path(sel) != "" {
					w.emitH("plainWrite", path(sel))
					continue
				}
				w.expr(sel.X)
			}
		}
	case *ast.DeferStmt:
		w.call(v.Call, true)
	case *ast.GoStmt:
		w.emit("spawnBegin")
		saved := w.held
		w.held = nil
		if fl, ok := v.Call.Fun.(*ast.FuncLit); ok {
			w.block(fl.Body.List)
		} else {
			w.call(v.Call, false)
		}
		w.held = saved
		w.emit("spawnEnd")
	case *ast.ReturnStmt:
		for _, r := range v.Results {
			w.expr(r)
		}
		w.emitH("ret")
	case *ast.BranchStmt:
	case *ast.BlockStmt:
		w.block(v.List)
	case *ast.LabeledStmt:
		w.stmt(v.Stmt)
	case *ast.IfStmt:
		w.stmt(v.Init)
		w.expr(v.Cond)
		before := append([]string{}, w.held...)
		var outs [][]string
		if h, cont := w.branch(v.Body.List); cont {
			outs = append(outs, h)
		}
		switch el := v.Else.(type) {
		case nil:
			outs = append(outs, before)
		case *ast.BlockStmt:
			if h, cont := w.branch(el.List); cont {
				outs = append(outs, h)
			}
		default:
			if h, cont := w.branch([]ast.Stmt{el}); cont {
				outs = append(outs, h)
			}
		}
		w.join("if", before, outs)
	case *ast.ForStmt:
		w.stmt(v.Init)
		w.expr(v.Cond)
		before := append([]string{}, w.held...)
		h, _ := w.branch(append(append([]ast.Stmt{}, v.Body.List...), v.Post))
		if !same(h, before) && !terminates(v.Body.List) {
			w.emit("unknown", "for: body changes the mutexes held")
		}
	case *ast.RangeStmt:
		w.expr(v.X)
		before := append([]string{}, w.held...)
		h, _ := w.branch(v.Body.List)
		if !same(h, before) && !terminates(v.Body.List) {
			w.emit("unknown", "range: body changes the mutexes held")
		}
	case *ast.SwitchStmt:
		w.stmt(v.Init)
		w.expr(v.Tag)
		w.cases(v.Body.List)
	case *ast.TypeSwitchStmt:
		w.stmt(v.Init)
		w.stmt(v.Assign)
		w.cases(v.Body.List)
	case *ast.SelectStmt:
		w.cases(v.Body.List)
	default:
		w.emit("unknown", "stmt "+w.src(s))
	}
}

func (w *walker) cases(list []ast.Stmt) {
	before := append([]string{}, w.held...)
	var outs [][]string
	hasDefault := false
	for _, c := range list {
		var body []ast.Stmt
		switch cc := c.(type) {
		case *ast.CaseClause:
			for _, e := range cc.List {
				w.expr(e)
			}
			if cc.List == nil {
				hasDefault = true
			}
			body = cc.Body
		case *ast.CommClause:
			w.stmt(cc.Comm)
			if cc.Comm == nil {
				hasDefault = true
			}
			body = cc.Body
		}
		if h, cont := w.branch(body); cont {
			// a deferred unlock inside a case keeps the mutex until the function returns; the
			// held set only matters for the events of that case
			outs = append(outs, h)
		}
	}
	if !hasDefault {
		outs = append(outs, before)
	}
	w.join("switch", before, outs)
}

// tidy drops `ret` events from functions that only call other functions (their early returns are
// not part of the protocol), collapses runs of identical `ret`s, and drops functions without events
func tidy(evs []ev) []ev {
	direct := false
	for _, e := range evs {
		switch e.kind {
		case "ret", "call", "deferCall":
		default:
			direct = true
		}
	}
	var out []ev
	for _, e := range evs {
		if e.kind == "ret" {
			if !direct {
				continue
			}
			if n := len(out); n > 0 && out[n-1].kind == "ret" && strings.Join(out[n-1].held, ",") == strings.Join(e.held, ",") {
				continue
			}
		}
		out = append(out, e)
	}
	return out
}

func leanStr(s string) string {
	s = strings.ReplaceAll(s, `\`, `\\`)
	s = strings.ReplaceAll(s, `"`, `\"`)
	return `"` + s + `"`
}

func leanList(l []string) string {
	q := make([]string, len(l))
	for i, s := range l {
		q[i] = leanStr(s)
	}
	return "[" + strings.Join(q, ", ") + "]"
}

func (e ev) lean() string {
	var b strings.Builder
	b.WriteString("." + e.kind)
	for _, a := range e.args {
		b.WriteString(" " + leanStr(a))
	}
	if e.hasH {
		b.WriteString(" " + leanList(e.held))
	}
	return b.String()
}

func main() {
	repo := os.Getenv("VERIF_REPO")
	if repo == "" {
		repo = "/repo"
	}
	flag.StringVar(&repo, "repo", repo, "repository under verification")
	out := flag.String("out", "", "output .lean file")
	flag.Parse()
	if *out == "" {
		fmt.Fprintln(os.Stderr, "usage: lockfacts -out FILE [-repo DIR]")
		os.Exit(2)
	}
	os.Remove(*out) // never leave a stale copy behind

	fset := token.NewFileSet()
	files := []string{"scope.go", "provider.go"}
	var parsed []*ast.File
	for _, f := range files {
		af, err := parser.ParseFile(fset, filepath.Join(repo, f), nil, 0)
		if err != nil {
			fmt.Fprintln(os.Stderr, "parse:", err)
			os.Exit(1)
		}
		parsed = append(parsed, af)
	}
	w := &walker{fset: fset, tracked: map[string]bool{}, plain: map[string]bool{}, syncMaps: map[string]bool{}, declared: map[string]bool{}}
	fieldNames := map[string]bool{}
	structs := map[string]bool{"scope": true, "provider": true}
	for _, af := range parsed {
		for _, d := range af.Decls {
			switch v := d.(type) {
			case *ast.GenDecl:
				for _, sp := range v.Specs {
					ts, ok := sp.(*ast.TypeSpec)
					if !ok || !structs[ts.Name.Name] {
						continue
					}
					st, ok := ts.Type.(*ast.StructType)
					if !ok {
						continue
					}
					names := map[string]bool{}
					for _, f := range st.Fields.List {
						for _, n := range f.Names {
							names[n.Name] = true
							if se, ok := f.Type.(*ast.SelectorExpr); ok {
								if x, ok := se.X.(*ast.Ident); ok && x.Name == "sync" && se.Sel.Name == "Map" {
									w.syncMaps[n.Name] = true
								}
							}
						}
					}
					for n := range names {
						fieldNames[n] = true
						if names[n+"Mu"] {
							w.tracked[n] = true
						}
					}
				}
			case *ast.FuncDecl:
				w.declared[v.Name.Name] = true
			}
		}
	}

	// struct fields that a method (not the constructor newScope) assigns: plain, unguarded state
	for _, af := range parsed {
		for _, d := range af.Decls {
			fd, ok := d.(*ast.FuncDecl)
			if !ok || fd.Body == nil || fd.Recv == nil {
				continue
			}
			ast.Inspect(fd.Body, func(n ast.Node) bool {
				as, ok := n.(*ast.AssignStmt)
				if !ok {
					return true
				}
				for _, l := range as.Lhs {
					if sel, ok := l.(*ast.SelectorExpr); ok && fieldNames[sel.Sel.Name] && !w.tracked[sel.Sel.Name] && !strings.HasSuffix(sel.Sel.Name, "Mu") {
						w.plain[sel.Sel.Name] = true
					}
				}
				return true
			})
		}
	}

	type fn struct {
		name string
		evs  []ev
	}
	var fns []fn
	for _, af := range parsed {
		for _, d := range af.Decls {
			fd, ok := d.(*ast.FuncDecl)
			if !ok || fd.Body == nil {
				continue
			}
			recv := ""
			if fd.Recv != nil && len(fd.Recv.List) == 1 {
				t := fd.Recv.List[0].Type
				if st, ok := t.(*ast.StarExpr); ok {
					t = st.X
				}
				if id, ok := t.(*ast.Ident); ok {
					recv = id.Name
				}
			}
			if !structs[recv] && fd.Name.Name != "newScope" {
				continue
			}
			w.events, w.held = nil, nil
			w.block(fd.Body.List)
			// deferred unlocks release at return: what is still held must have a deferred unlock
			for _, m := range w.held {
				found := false
				for _, e := range w.events {
					if (e.kind == "deferUnlock" || e.kind == "deferRUnlock") && (e.args[0] == m || e.args[0]+":r" == m) {
						found = true
					}
				}
				if !found && !terminates(fd.Body.List) {
					w.events = append(w.events, ev{kind: "unknown", args: []string{"function ends holding " + m}})
				}
			}
			name := fd.Name.Name
			if recv != "" {
				name = recv + "." + name
			}
			fns = append(fns, fn{name, w.events})
		}
	}
	// keep only calls that can reach a synchronisation event (or user code): a function "touches"
	// synchronisation if it has a direct event or calls one that does
	touches := map[string]bool{}
	for changed := true; changed; {
		changed = false
		for _, f := range fns {
			ln := lastName(f.name)
			if touches[ln] {
				continue
			}
			for _, e := range f.evs {
				switch e.kind {
				case "ret":
				case "call", "deferCall":
					c := lastName(strings.TrimSuffix(e.args[0], "()"))
					if touches[c] || userCode[c] || c == "unlock" {
						touches[ln], changed = true, true
					}
				default:
					touches[ln], changed = true, true
				}
			}
		}
	}
	var kept []fn
	for _, f := range fns {
		var evs []ev
		for _, e := range f.evs {
			if e.kind == "call" || e.kind == "deferCall" {
				c := lastName(strings.TrimSuffix(e.args[0], "()"))
				if !(touches[c] || userCode[c] || c == "unlock") {
					continue
				}
			}
			evs = append(evs, e)
		}
		evs = tidy(evs)
		if len(evs) > 0 {
			kept = append(kept, fn{f.name, evs})
		}
	}
	fns = kept
	sort.SliceStable(fns, func(i, j int) bool { return fns[i].name < fns[j].name })

	var b strings.Builder
	b.WriteString("import GodiModel.LockIR\n")
	b.WriteString("/-! GENERATED by extract/lockfacts from scope.go and provider.go of the repository under\n")
	b.WriteString("verification — do not edit. Regenerated on every `./check C09`. -/\n")
	b.WriteString("namespace Godi.Gen.LockFacts\nopen Godi.LockIR\n\n")
	tr := make([]string, 0, len(w.tracked))
	for n := range w.tracked {
		tr = append(tr, n)
	}
	sort.Strings(tr)
	b.WriteString("/-- fields that have a `<field>Mu` sibling in their struct -/\n")
	b.WriteString("def guardedFields : List String := " + leanList(tr) + "\n\n")
	for _, f := range fns {
		id := strings.ReplaceAll(f.name, ".", "_")
		b.WriteString("def " + id + " : List Ev := [\n")
		for i, e := range f.evs {
			b.WriteString("  " + e.lean())
			if i+1 < len(f.evs) {
				b.WriteString(",")
			}
			b.WriteString("\n")
		}
		b.WriteString("]\n\n")
	}
	b.WriteString("def facts : List (String × List Ev) := [\n")
	for i, f := range fns {
		b.WriteString("  (" + leanStr(f.name) + ", " + strings.ReplaceAll(f.name, ".", "_") + ")")
		if i+1 < len(fns) {
			b.WriteString(",")
		}
		b.WriteString("\n")
	}
	b.WriteString("]\n\nend Godi.Gen.LockFacts\n")
	if err := os.MkdirAll(filepath.Dir(*out), 0o755); err != nil {
		fmt.Fprintln(os.Stderr, err)
		os.Exit(1)
	}
	if err := os.WriteFile(*out, []byte(b.String()), 0o644); err != nil {
		fmt.Fprintln(os.Stderr, err)
		os.Exit(1)
	}
	fmt.Printf("lockfacts: %d functions, %d guarded fields -> %s\n", len(fns), len(tr), *out)
}
