// Command extract re-reads the five godi web integrations (http, chi, gin, echo, fiber) and emits
// lean/GodiModel/Gen/Middleware.lean: for each framework the IR term of the per-request function
// returned by ScopeMiddleware, the IR term of the function returned by Handle, and the shape of the
// option plumbing. Recognition is by exact (whitespace-normalised) statement forms; everything else
// becomes `.unknown "<source text>"`, which no C16 theorem accepts (fail closed).
//
// usage: extract [-repo /repo] [-o lean/GodiModel/Gen/Middleware.lean]
// The repository root defaults to $VERIF_REPO, then /repo. Stdlib only.
package main

import (
	"bytes"
	"flag"
	"fmt"
	"go/ast"
	"go/parser"
	"go/printer"
	"go/token"
	"os"
	"path/filepath"
	"strings"
)

var fset = token.NewFileSet()

// src prints a node with all whitespace runs collapsed to one blank.
func src(n ast.Node) string {
	if n == nil {
		return ""
	}
	var b bytes.Buffer
	printer.Fprint(&b, fset, n)
	return strings.Join(strings.Fields(b.String()), " ")
}

func leanStr(s string) string {
	s = strings.ReplaceAll(s, "\\", "\\\\")
	s = strings.ReplaceAll(s, "\"", "\\\"")
	return "\"" + s + "\""
}

func unknown(n ast.Node) string { return ".unknown " + leanStr(src(n)) }

func in(s string, set ...string) bool {
	for _, x := range set {
		if s == x {
			return true
		}
	}
	return false
}

// ---------------------------------------------------------------- the per-framework vocabulary

// the expressions that denote "the context of the incoming request"
var reqCtx = []string{"r.Context()", "c.Request.Context()", "c.Request().Context()", "c.UserContext()"}

// statements that replace the request context by scope.Context()
var attachCtx = []string{
	"r = r.WithContext(scope.Context())",
	"c.Request = c.Request.WithContext(scope.Context())",
	"c.SetRequest(c.Request().WithContext(scope.Context()))",
	"c.SetUserContext(scope.Context())",
}

var attachLocals = []string{"c.Locals(scopeKey, scope)"}

var errorHandlerCall = []string{"cfg.ErrorHandler(w, r, err)", "cfg.ErrorHandler(c, err)"}

var nextCall = []string{"next.ServeHTTP(w, r)", "c.Next()", "next(c)"}

var deferCloseReport = []string{"defer func() { if err := scope.Close(); err != nil { cfg.CloseErrorHandler(err) } }()"}
var deferCloseSilent = []string{"defer scope.Close()", "defer func() { scope.Close() }()", "defer func() { _ = scope.Close() }()"}

var closeNowReport = []string{
	"if closeErr := scope.Close(); closeErr != nil { cfg.CloseErrorHandler(closeErr) }",
	"if err := scope.Close(); err != nil { cfg.CloseErrorHandler(err) }",
}
var closeNowSilent = []string{"scope.Close()", "_ = scope.Close()"}

var mwCallInit = []string{"err := mw(scope, r)", "err := mw(scope, c)"}

var deferRecover = []string{
	"defer func() { if v := recover(); v != nil { cfg.PanicHandler(w, r, v) } }()",
	"defer func() { if r := recover(); r != nil { cfg.PanicHandler(c, r) } }()",
	"defer func() { if v := recover(); v != nil { err = cfg.PanicHandler(c, v) } }()",
}

var methodCall = []string{"method(controller, w, r)", "method(controller, c)"}

// ---------------------------------------------------------------- locating the request function

// descend walks `prelude…; return <func literal | http.HandlerFunc(func literal)>` layers until it
// reaches the literal whose own top-level statements contain `marker`. Statements of the outer
// layers that are not part of the recognised prelude are returned as unknowns: state declared
// outside the per-request function would be shared between requests.
func descend(body *ast.BlockStmt, prelude []string, marker string, depth int) (*ast.FuncLit, []string) {
	var unk []string
	if body == nil || len(body.List) == 0 || depth > 4 {
		return nil, []string{".unknown " + leanStr("no request function found")}
	}
	for _, s := range body.List[:len(body.List)-1] {
		if !in(src(s), prelude...) {
			unk = append(unk, unknown(s))
		}
	}
	last := body.List[len(body.List)-1]
	ret, ok := last.(*ast.ReturnStmt)
	if !ok || len(ret.Results) != 1 {
		return nil, append(unk, unknown(last))
	}
	var lit *ast.FuncLit
	switch e := ret.Results[0].(type) {
	case *ast.FuncLit:
		lit = e
	case *ast.CallExpr:
		if src(e.Fun) == "http.HandlerFunc" && len(e.Args) == 1 {
			lit, _ = e.Args[0].(*ast.FuncLit)
		}
	}
	if lit == nil {
		return nil, append(unk, unknown(last))
	}
	for _, s := range lit.Body.List {
		if strings.Contains(src(s), marker) {
			if _, isRet := s.(*ast.ReturnStmt); !isRet {
				return lit, unk
			}
		}
	}
	inner, u := descend(lit.Body, nil, marker, depth+1)
	return inner, append(unk, u...)
}

// ---------------------------------------------------------------- ScopeMiddleware

func errBranch(body *ast.BlockStmt) string {
	var out []string
	for _, s := range body.List {
		t := src(s)
		switch st := s.(type) {
		case *ast.ExprStmt:
			switch {
			case in(t, errorHandlerCall...):
				out = append(out, ".errorHandler")
			case t == "c.Abort()":
				out = append(out, ".abort")
			case in(t, closeNowSilent...):
				out = append(out, ".closeNow")
			default:
				out = append(out, unknown(s))
			}
		case *ast.AssignStmt:
			if in(t, closeNowSilent...) {
				out = append(out, ".closeNow")
			} else {
				out = append(out, unknown(s))
			}
		case *ast.ReturnStmt:
			switch {
			case len(st.Results) == 0:
				out = append(out, ".ret")
			case len(st.Results) == 1 && in(src(st.Results[0]), errorHandlerCall...):
				out = append(out, ".errorHandler", ".ret")
			case len(st.Results) == 1 && in(src(st.Results[0]), "err", "nil"):
				out = append(out, ".ret")
			default:
				out = append(out, unknown(s))
			}
		default:
			out = append(out, unknown(s))
		}
	}
	return "[" + strings.Join(out, ", ") + "]"
}

func mwStmt(s ast.Stmt) []string {
	t := src(s)
	switch st := s.(type) {
	case *ast.AssignStmt:
		if st.Tok == token.DEFINE && len(st.Lhs) == 2 && src(st.Lhs[0]) == "scope" && src(st.Lhs[1]) == "err" && len(st.Rhs) == 1 {
			if c, ok := st.Rhs[0].(*ast.CallExpr); ok && src(c.Fun) == "provider.CreateScope" && len(c.Args) == 1 && in(src(c.Args[0]), reqCtx...) {
				return []string{".create"}
			}
		}
		if in(t, attachCtx...) {
			return []string{".attachCtx"}
		}
		if t == "err = c.Next()" {
			return []string{".next"}
		}
		if in(t, closeNowSilent...) {
			return []string{".closeNow false"}
		}
	case *ast.IfStmt:
		if st.Init == nil && st.Else == nil && src(st.Cond) == "err != nil" {
			return []string{".ifCreateErr " + errBranch(st.Body)}
		}
		if in(t, closeNowReport...) {
			return []string{".closeNow true"}
		}
	case *ast.DeferStmt:
		if in(t, deferCloseReport...) {
			return []string{".deferClose true"}
		}
		if in(t, deferCloseSilent...) {
			return []string{".deferClose false"}
		}
	case *ast.ExprStmt:
		switch {
		case in(t, attachCtx...):
			return []string{".attachCtx"}
		case in(t, attachLocals...):
			return []string{".attachLocals"}
		case in(t, nextCall...):
			return []string{".next"}
		case in(t, closeNowSilent...):
			return []string{".closeNow false"}
		}
	case *ast.RangeStmt:
		if src(st.Key) == "_" && src(st.Value) == "mw" && st.Tok == token.DEFINE && src(st.X) == "cfg.Middlewares" && len(st.Body.List) == 1 {
			if is, ok := st.Body.List[0].(*ast.IfStmt); ok && is.Else == nil && in(src(is.Init), mwCallInit...) && src(is.Cond) == "err != nil" {
				return []string{".forMiddlewares " + errBranch(is.Body)}
			}
		}
	case *ast.ReturnStmt:
		switch {
		case len(st.Results) == 0:
			return []string{".ret"}
		case len(st.Results) == 1 && in(src(st.Results[0]), nextCall...):
			return []string{".next", ".ret"}
		case len(st.Results) == 1 && in(src(st.Results[0]), "err", "nil"):
			return []string{".ret"}
		}
	}
	return []string{unknown(s)}
}

var mwPrelude = []string{"cfg := defaultConfig()", "for _, opt := range opts { opt(cfg) }"}

func scopeMiddleware(fd *ast.FuncDecl) []string {
	lit, out := descend(fd.Body, mwPrelude, "provider.CreateScope(", 0)
	if lit == nil {
		return out
	}
	for _, p := range lit.Type.Params.List { // the locals the recognisers rely on must not be parameters
		for _, n := range p.Names {
			if in(n.Name, "scope", "err", "cfg", "provider") {
				out = append(out, ".unknown "+leanStr("parameter named "+n.Name))
			}
		}
	}
	for _, s := range lit.Body.List {
		out = append(out, mwStmt(s)...)
	}
	return out
}

// ---------------------------------------------------------------- Handle

func hErrBranch(body *ast.BlockStmt, handler string, errVar string) string {
	calls := []string{
		"cfg." + handler + "(w, r, " + errVar + ")",
		"cfg." + handler + "(c, " + errVar + ")",
	}
	if handler == "ScopeErrorHandler" { // fiber has no error value at hand
		calls = append(calls, "cfg.ScopeErrorHandler(c, godi.ErrScopeDisposed)")
	}
	ir := ".scopeErrHandler"
	if handler == "ResolutionErrorHandler" {
		ir = ".resolutionErrHandler"
	}
	var out []string
	for _, s := range body.List {
		t := src(s)
		switch st := s.(type) {
		case *ast.ExprStmt:
			if in(t, calls...) {
				out = append(out, ir)
			} else {
				out = append(out, unknown(s))
			}
		case *ast.ReturnStmt:
			switch {
			case len(st.Results) == 0:
				out = append(out, ".ret")
			case len(st.Results) == 1 && in(src(st.Results[0]), calls...):
				out = append(out, ir, ".ret")
			default:
				out = append(out, unknown(s))
			}
		default:
			out = append(out, unknown(s))
		}
	}
	return "[" + strings.Join(out, ", ") + "]"
}

var handlePrelude = []string{"cfg := defaultHandlerConfig()", "for _, opt := range opts { opt(cfg) }"}

func handle(fd *ast.FuncDecl) []string {
	lit, out := descend(fd.Body, handlePrelude, "godi.Resolve[T](", 0)
	if lit == nil {
		return out
	}
	// pending: which `if <cond>` may come next and what it means
	pendingCond, pendingKind, pendingErr := "", "", ""
	for _, s := range lit.Body.List {
		t := src(s)
		cond, kind, ev := pendingCond, pendingKind, pendingErr
		pendingCond, pendingKind, pendingErr = "", "", ""
		switch st := s.(type) {
		case *ast.IfStmt:
			if st.Init == nil && st.Else == nil && src(st.Cond) == "cfg.PanicRecovery" && len(st.Body.List) == 1 && in(src(st.Body.List[0]), deferRecover...) {
				out = append(out, ".deferRecover true")
				continue
			}
			if st.Init == nil && st.Else == nil && cond != "" && src(st.Cond) == cond {
				if kind == "scope" {
					out = append(out, ".ifScopeErr "+hErrBranch(st.Body, "ScopeErrorHandler", ev))
				} else {
					out = append(out, ".ifResolveErr "+hErrBranch(st.Body, "ResolutionErrorHandler", ev))
				}
				continue
			}
		case *ast.DeferStmt:
			if in(t, deferRecover...) {
				out = append(out, ".deferRecover false")
				continue
			}
		case *ast.AssignStmt:
			if st.Tok == token.DEFINE && len(st.Rhs) == 1 {
				rhs := src(st.Rhs[0])
				lhs := make([]string, len(st.Lhs))
				for i, l := range st.Lhs {
					lhs[i] = src(l)
				}
				switch {
				case len(lhs) == 2 && lhs[0] == "scope" && in(lhs[1], "err", "scopeErr") && in(rhs, "godi.FromContext(r.Context())", "godi.FromContext(c.Request.Context())", "godi.FromContext(c.Request().Context())", "godi.FromContext(c.UserContext())"):
					out = append(out, ".fromContext")
					pendingCond, pendingKind, pendingErr = lhs[1]+" != nil", "scope", lhs[1]
					continue
				case len(lhs) == 1 && lhs[0] == "scopeVal" && rhs == "c.Locals(scopeKey)":
					out = append(out, ".fromLocals")
					pendingCond, pendingKind, pendingErr = "scopeVal == nil", "scope", "-"
					continue
				case len(lhs) == 2 && lhs[0] == "scope" && lhs[1] == "ok" && rhs == "scopeVal.(godi.Scope)":
					out = append(out, ".castScope")
					pendingCond, pendingKind, pendingErr = "!ok", "scope", "-"
					continue
				case len(lhs) == 2 && lhs[0] == "controller" && in(lhs[1], "err", "resolveErr") && rhs == "godi.Resolve[T](scope)":
					out = append(out, ".resolve")
					pendingCond, pendingKind, pendingErr = lhs[1]+" != nil", "resolve", lhs[1]
					continue
				}
			}
		case *ast.ExprStmt:
			if in(t, methodCall...) {
				out = append(out, ".callMethod")
				continue
			}
		case *ast.ReturnStmt:
			switch {
			case len(st.Results) == 0:
				out = append(out, ".ret")
				continue
			case len(st.Results) == 1 && in(src(st.Results[0]), methodCall...):
				out = append(out, ".callMethod", ".ret")
				continue
			}
		}
		out = append(out, unknown(s))
	}
	return out
}

// ---------------------------------------------------------------- option plumbing

func funcBody(f *ast.File, name string) *ast.BlockStmt {
	for _, d := range f.Decls {
		if fd, ok := d.(*ast.FuncDecl); ok && fd.Name.Name == name && fd.Recv == nil {
			return fd.Body
		}
	}
	return nil
}

func optShape(f *ast.File) (defNil, inOrder, appends bool) {
	if b := funcBody(f, "defaultConfig"); b != nil && len(b.List) == 1 {
		t := src(b.List[0])
		defNil = strings.HasPrefix(t, "return &Config{") && strings.Contains(t, "Middlewares: nil,") && strings.Count(t, "Middlewares") == 1
	}
	if b := funcBody(f, "ScopeMiddleware"); b != nil && len(b.List) >= 2 {
		inOrder = src(b.List[0]) == mwPrelude[0] && src(b.List[1]) == mwPrelude[1]
	}
	if b := funcBody(f, "WithMiddleware"); b != nil && len(b.List) == 1 {
		appends = src(b.List[0]) == "return func(c *Config) { c.Middlewares = append(c.Middlewares, mw) }"
	}
	return
}

// ---------------------------------------------------------------- main

func leanBool(b bool) string {
	if b {
		return "true"
	}
	return "false"
}

func main() {
	repo := os.Getenv("VERIF_REPO")
	if repo == "" {
		repo = "/repo"
	}
	flag.StringVar(&repo, "repo", repo, "root of the godi checkout")
	outPath := flag.String("o", "", "output file (default: stdout)")
	flag.Parse()

	var b strings.Builder
	b.WriteString("import GodiModel.Middleware\n")
	b.WriteString("/-! GENERATED by `extract/` from the middleware sources of the godi checkout - do not edit.\n")
	b.WriteString("Regenerated by `check` before every `lake build`; a committed copy exists only so that a fresh\ncheckout builds. -/\n")
	b.WriteString("namespace Godi.Mw.Gen\n\n")
	for _, fw := range []string{"http", "chi", "gin", "echo", "fiber"} {
		path := filepath.Join(repo, fw, fw+".go")
		f, err := parser.ParseFile(fset, path, nil, 0)
		var mw, h []string
		defNil, inOrder, appends := false, false, false
		if err != nil {
			msg := ".unknown " + leanStr("parse error: "+filepath.Base(path))
			mw, h = []string{msg}, []string{msg}
			fmt.Fprintln(os.Stderr, "extract:", err)
		} else {
			nMw, nH := 0, 0
			for _, d := range f.Decls {
				fd, ok := d.(*ast.FuncDecl)
				if !ok || fd.Recv != nil {
					continue
				}
				switch fd.Name.Name {
				case "ScopeMiddleware":
					mw = scopeMiddleware(fd)
					nMw++
				case "Handle":
					h = handle(fd)
					nH++
				}
			}
			if nMw != 1 {
				mw = []string{".unknown " + leanStr("ScopeMiddleware not found exactly once")}
			}
			if nH != 1 {
				h = []string{".unknown " + leanStr("Handle not found exactly once")}
			}
			defNil, inOrder, appends = optShape(f)
		}
		fmt.Fprintf(&b, "/-- `%s/%s.go`, func ScopeMiddleware -/\ndef %sScopeMw : List Stmt :=\n  [%s]\n\n", fw, fw, fw, strings.Join(mw, ",\n   "))
		fmt.Fprintf(&b, "/-- `%s/%s.go`, func Handle -/\ndef %sHandle : List HStmt :=\n  [%s]\n\n", fw, fw, fw, strings.Join(h, ",\n   "))
		fmt.Fprintf(&b, "/-- `%s/%s.go`, funcs defaultConfig / WithMiddleware / option loop -/\ndef %sOpts : OptShape :=\n  { defaultMiddlewaresNil := %s, optsAppliedInOrder := %s, withMiddlewareAppends := %s }\n\n",
			fw, fw, fw, leanBool(defNil), leanBool(inOrder), leanBool(appends))
	}
	b.WriteString("end Godi.Mw.Gen\n")

	if *outPath == "" {
		fmt.Print(b.String())
		return
	}
	_ = os.Remove(*outPath) // never leave a stale copy behind
	if err := os.MkdirAll(filepath.Dir(*outPath), 0o755); err != nil {
		fmt.Fprintln(os.Stderr, "extract:", err)
		os.Exit(1)
	}
	if err := os.WriteFile(*outPath, []byte(b.String()), 0o644); err != nil {
		fmt.Fprintln(os.Stderr, "extract:", err)
		os.Exit(1)
	}
}
