#!/usr/bin/env python3
"""tools_confirm_seed.py <src-dir> <seed-id> [...]: confirm a candidate seeded change and import it.

<src-dir> holds patch.diff, demo_test.go, meta.json (demo_package_dir, property, title, needs) as written by an
independent sub-agent. In a scratch worktree of /repo HEAD (never /repo itself) this checks
  (i)   demo passes on the unchanged tree,
  (ii)  the whole unedited suite passes with the change,
  (iii) the demo fails with the change,
and, when all three hold, copies the change to /verif/seeded/<seed-id>/ with the confirmation recorded in meta.json.
"""
import json, os, shutil, subprocess, sys

ROOT = os.path.dirname(os.path.abspath(__file__))
W = os.environ.get('CONFIRM_WORKTREE', '/tmp/seedconfirm-repo')


def sh(c, cwd=None, timeout=1800):
    e = dict(os.environ, GOFLAGS='-mod=mod', GOPROXY='off')
    e.pop('GOTOOLCHAIN', None)
    p = subprocess.run(c, shell=True, cwd=cwd, env=e, stdout=subprocess.PIPE, stderr=subprocess.STDOUT, text=True, timeout=timeout)
    return p.returncode, p.stdout


def confirm(src, sid):
    meta = json.load(open(os.path.join(src, 'meta.json')))
    pkg = meta.get('demo_package_dir', '.') or '.'
    sh('git -C /repo worktree remove --force %s' % W)
    rc, out = sh('git -C /repo worktree add --detach %s HEAD' % W)
    if rc != 0:
        return False, 'worktree: ' + out[-300:]
    head = sh('git -C /repo rev-parse --short HEAD')[1].strip()
    try:
        demo = os.path.join(W, pkg, 'zz_seed_demo_test.go')
        shutil.copy(os.path.join(src, 'demo_test.go'), demo)
        run_demo = "go test -vet=off -count=1 -run 'TestSeed_' ."
        rc1, out1 = sh(run_demo, cwd=os.path.join(W, pkg), timeout=600)
        if rc1 != 0:
            return False, 'demo fails on the unchanged tree: ' + out1[-600:]
        os.remove(demo)
        rc, out = sh('git apply %s' % os.path.join(os.path.abspath(src), 'patch.diff'), cwd=W)
        if rc != 0:
            return False, 'patch does not apply: ' + out[-300:]
        suite = 'go build ./... && for m in . chi echo fiber gin http; do (cd $m && go test -vet=off -count=1 ./...) || exit 1; done'
        rc2, out2 = sh(suite, cwd=W, timeout=1800)
        if rc2 != 0:
            return False, 'suite fails with the change: ' + out2[-800:]
        shutil.copy(os.path.join(src, 'demo_test.go'), demo)
        rc3, out3 = sh(run_demo, cwd=os.path.join(W, pkg), timeout=600)
        if rc3 == 0:
            return False, 'demo passes with the change'
        dst = os.path.join(ROOT, 'seeded', sid)
        shutil.rmtree(dst, ignore_errors=True)
        os.makedirs(dst)
        for f in ('patch.diff', 'demo_test.go', 'notes.md'):
            if os.path.exists(os.path.join(src, f)):
                shutil.copy(os.path.join(src, f), os.path.join(dst, f))
        meta.update(id=sid, source=os.environ.get('SEED_SOURCE', 'independent sub-agent given only the property text and a scratch worktree'),
                    confirmed=dict(by='/verif/tools_confirm_seed.py in a scratch worktree of /repo HEAD %s (since removed)' % head,
                                   demo_passes_without_change=True, suite_passes_with_change=True, demo_fails_with_change=True,
                                   commands=[run_demo + ' (unchanged tree)', 'git apply patch.diff; ' + suite, run_demo + ' (changed tree)'],
                                   demo_failure_tail=out3[-400:]),
                    detected_by=None)
        json.dump(meta, open(os.path.join(dst, 'meta.json'), 'w'), indent=1)
        return True, 'confirmed'
    finally:
        sh('git -C /repo worktree remove --force %s' % W)


if __name__ == '__main__':
    args = sys.argv[1:]
    ok = True
    for i in range(0, len(args), 2):
        good, why = confirm(args[i], args[i + 1])
        print(args[i + 1], 'OK' if good else 'REJECTED', why, flush=True)
        ok = ok and good
    sys.exit(0 if ok else 1)
